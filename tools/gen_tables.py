#!/usr/bin/python3
# Translator: regenerates coq/Gen/GenTables.v (PGN classification tables) and coq/Gen/GenConsts.v (protocol constants) from
# /repo/src on every run (write-if-changed).  Anything outside the translatable subset becomes an `Untranslated` marker that
# no theorem accepts (the generated definition `gen_ok` is then false and the obligations that mention it fail).
import os, re, sys

VERIF = os.path.dirname(os.path.dirname(os.path.abspath(__file__)))
REPO = os.environ.get('VERIF_REPO', '/repo')
OUT = os.environ.get('VERIF_GEN_OUT', os.path.join(VERIF, 'coq', 'Gen'))


def strip_comments(s):
    s = re.sub(r'/\*.*?\*/', ' ', s, flags=re.S)
    s = re.sub(r'//[^\n]*', ' ', s)
    return s


def func_body(src, header_re):
    m = re.search(header_re, src)
    if not m:
        return None
    i = src.index('{', m.end() - 1)
    depth = 0
    for j in range(i, len(src)):
        if src[j] == '{':
            depth += 1
        elif src[j] == '}':
            depth -= 1
            if depth == 0:
                return src[i + 1:j]
    return None


def switch_table(body):
    """body of `switch (X) { case N: ... return true; } return false;` -> (list of ints, problems)"""
    problems = []
    cases = [int(x, 0) for x in re.findall(r'\bcase\s+(0[xX][0-9a-fA-F]+|\d+)[UuLl]*\s*:', body)]
    rest = re.sub(r'\bcase\s+(?:0[xX][0-9a-fA-F]+|\d+)[UuLl]*\s*:', ' ', body)
    rest = re.sub(r'\bswitch\s*\(\s*\w+\s*\)', ' ', rest)
    rest = re.sub(r'\breturn\s+true\s*;', ' ', rest, count=1)
    rest = re.sub(r'\breturn\s+false\s*;', ' ', rest, count=1)
    rest = re.sub(r'[{}\s]', '', rest)
    if rest:
        problems.append(rest[:80])
    if len(set(cases)) != len(cases):
        problems.append('duplicate case label')
    return sorted(cases), problems       # a switch is a set: the order of the labels in the source has no meaning


def array_table(src, name):
    m = re.search(r'\b%s\s*\[\s*\]\s*(?:PROGMEM\s*)?=\s*\{(.*?)\}\s*;' % name, src, flags=re.S)
    if not m:
        return None, ['array %s not found' % name]
    items = [x.strip() for x in m.group(1).split(',') if x.strip()]
    vals, problems = [], []
    for x in items:
        v = ceval(x, {})
        if v is not None:
            vals.append(v)
        else:
            problems.append(x[:40])
    if not vals or vals[-1] != 0:
        problems.append('no 0 terminator')
    else:
        vals = vals[:-1]
    if 0 in vals:
        problems.append('0 inside the list')
    return vals, problems


def range_expr(body, known):
    """body := { if ( E ) return E ; } return E ;   with E over PGN==N, N<=PGN, PGN<N ..., !, &&, ||, true/false, calls of known
    functions on PGN  ->  Coq bool expression on the variable p (None outside this subset)"""
    toks = re.findall(r'0[xX][0-9a-fA-F]+[UuLl]*|\d+[UuLl]*|\w+|==|!=|<=|>=|\|\||&&|[()<>!;]', body)
    if ''.join(toks) != re.sub(r'\s', '', body):
        return None
    pos = [0]
    NUM = r'0[xX][0-9a-fA-F]+[UuLl]*|\d+[UuLl]*'

    def peek():
        return toks[pos[0]] if pos[0] < len(toks) else None

    def eat(t=None):
        x = peek()
        if t is not None and x != t:
            raise ValueError('expected %s got %s' % (t, x))
        pos[0] += 1
        return x

    def num(t):
        return int(re.sub(r'[UuLl]+$', '', t), 0)

    def cmp_expr(a, op, swapped):
        # swapped: the literal stands left of PGN
        if swapped:
            op = {'<=': '>=', '<': '>', '>=': '<=', '>': '<', '==': '==', '!=': '!='}[op]
        return {'<=': '(p <=? %d)' % a, '<': '(p <? %d)' % a, '==': '(p =? %d)' % a, '>=': '(%d <=? p)' % a, '>': '(%d <? p)' % a,
                '!=': '(negb (p =? %d))' % a}[op]

    def atom():
        t = peek()
        if t == '!':
            eat()
            return '(negb %s)' % atom()
        if t == '(':
            eat('(')
            x = orx()
            eat(')')
            return x
        if t in ('true', 'false'):
            return eat()
        if re.fullmatch(NUM, t):
            a = num(eat())
            op = eat()
            eat('PGN')
            return cmp_expr(a, op, True)
        if t == 'PGN':
            eat('PGN')
            op = eat()
            a = num(eat())
            return cmp_expr(a, op, False)
        if t in known:
            eat()
            eat('(')
            eat('PGN')
            eat(')')
            return '(%s p)' % known[t]
        raise ValueError('unexpected token %s' % t)

    def andx():
        x = atom()
        while peek() == '&&':
            eat()
            x = '(%s && %s)' % (x, atom())
        return x

    def orx():
        x = andx()
        while peek() == '||':
            eat()
            x = '(%s || %s)' % (x, andx())
        return x

    def stmts():
        if peek() == 'if':
            eat('if')
            eat('(')
            c = orx()
            eat(')')
            eat('return')
            v = orx()
            eat(';')
            rest = stmts()
            if v == 'true':
                return '(%s || %s)' % (c, rest)
            if v == 'false':
                return '((negb %s) && %s)' % (c, rest)
            return '((%s && %s) || ((negb %s) && %s))' % (c, v, c, rest)
        eat('return')
        x = orx()
        eat(';')
        return x
    try:
        x = stmts()
        if peek() is not None:
            return None
        return x
    except (ValueError, KeyError, AttributeError, TypeError):
        return None


def ceval(expr, macros, depth=0):
    """value of a C integer constant expression over literals (decimal / hex, U/L suffixes), + - * / << >> | & ( ) and object-like
    macros of the same kind (dict name -> replacement text); None when the text is anything else.  Only non-negative intermediate
    values are accepted, so C and Python arithmetic agree."""
    if depth > 12:
        return None
    toks = re.findall(r'0[xX][0-9a-fA-F]+[UuLl]*|\d+[UuLl]*|[A-Za-z_]\w*(?:::\w+)*|<<|>>|[-+*/|&()]', expr)
    if ''.join(toks) != re.sub(r'\s', '', expr) or not toks:
        return None
    out = []
    for t in toks:
        if re.fullmatch(r'0[xX][0-9a-fA-F]+[UuLl]*|\d+[UuLl]*', t):
            out.append(str(int(re.sub(r'[UuLl]+$', '', t), 0)))
        elif re.match(r'[A-Za-z_]', t):
            if t not in macros:
                return None
            v = ceval(macros[t], macros, depth + 1)
            if v is None:
                return None
            out.append('(%d)' % v)
        else:
            out.append('//' if t == '/' else t)
    try:
        v = eval(' '.join(out), {'__builtins__': {}}, {})
    except Exception:
        return None
    return v if isinstance(v, int) and 0 <= v < 2 ** 64 else None


def macro_table(dm_text):
    return {m.group(1): m.group(2).strip() for m in re.finditer(r'^#define[ \t]+(\w+)[ \t]+(.+)$', dm_text, flags=re.M)}


PROBE_FUNCS = ['IsSingleFrameSystemMessage', 'IsFastPacketSystemMessage', 'IsDefaultSingleFrameMessage', 'IsMandatoryFastPacketMessage',
               'IsDefaultFastPacketMessage', 'IgnoreBroadcastISORequest', 'IsProprietaryFastPacketMessage', 'tNMEA2000::IsProprietaryMessage']
PROBE_LIMIT = 1 << 24


def execute_tables():
    """the classification functions as compiled, run over every PGN below 2^24: name -> list of maximal intervals (lo, hi).
    Cross-check of the textual translation on every run, and its stand-in when a function leaves the translatable subset."""
    import subprocess, tempfile, shutil
    d = tempfile.mkdtemp(prefix='n2k_probe_')
    try:
        decl = ''.join('bool %s(unsigned long PGN);\n' % f for f in PROBE_FUNCS if '::' not in f)
        src = ('#include <cstdio>\n#include "NMEA2000.h"\n' + decl + 'int main(){ bool (*f[])(unsigned long)={' + ','.join(PROBE_FUNCS) + '};\n'
               ' for(int k=0;k<%d;k++){ printf("%%d:",k); bool prev=false; for(unsigned long p=0;p<=%dUL;p++){ bool v=p<%dUL&&f[k](p); if(v!=prev){printf(" %%lu",p); prev=v;} } printf("\\n"); } }\n'
               % (len(PROBE_FUNCS), PROBE_LIMIT, PROBE_LIMIT))
        open(os.path.join(d, 'probe.cpp'), 'w').write(src)
        fl = ['-std=c++11', '-O1', '-DESP_PLATFORM', '-I' + os.path.join(VERIF, 'harness', 'fake_esp'), '-I' + os.path.join(REPO, 'src')]
        for cmd in (['g++'] + fl + ['-c', os.path.join(REPO, 'src', 'NMEA2000.cpp'), '-o', os.path.join(d, 'n.o')],
                    ['g++'] + fl + ['-no-pie', os.path.join(d, 'probe.cpp'), os.path.join(d, 'n.o'), '-Wl,--unresolved-symbols=ignore-all', '-o', os.path.join(d, 'probe')]):
            if subprocess.run(cmd, stdout=subprocess.PIPE, stderr=subprocess.PIPE).returncode != 0:
                return None
        p = subprocess.run([os.path.join(d, 'probe')], stdout=subprocess.PIPE, stderr=subprocess.PIPE, text=True, timeout=120)
        if p.returncode != 0:
            return None
        res = {}
        for line in p.stdout.split('\n'):
            if ':' in line:
                k, rest = line.split(':', 1)
                e = [int(x) for x in rest.split()]
                res[PROBE_FUNCS[int(k)]] = [(e[i], e[i + 1] - 1) for i in range(0, len(e) - 1, 2)]
        return res if len(res) == len(PROBE_FUNCS) else None
    except Exception:
        return None
    finally:
        shutil.rmtree(d, ignore_errors=True)


def intervals_to_list(iv):
    return [p for lo, hi in iv for p in range(lo, hi + 1)] if sum(hi - lo + 1 for lo, hi in iv) <= 4096 else None


def intervals_to_expr(iv):
    if not iv:
        return 'false'
    parts = ['(p =? %d)' % lo if lo == hi else '((%d <=? p) && (p <=? %d))' % (lo, hi) for lo, hi in iv]
    e = parts[0]
    for x in parts[1:]:
        e = '(%s || %s)' % (e, x)
    return e


def expr_intervals(e, known_iv):
    """truth set below PROBE_LIMIT of a generated Coq expression (python evaluation at the breakpoints) as maximal intervals"""
    consts = sorted({int(x) for x in re.findall(r'\d+', e)} | {b for iv in known_iv.values() for lo, hi in iv for b in (lo, hi)})
    pts = sorted({q for c in consts for q in (c - 1, c, c + 1) if 0 <= q < PROBE_LIMIT} | {0, PROBE_LIMIT - 1})
    py = e
    py = re.sub(r'\((\w+) p\)', lambda m: 'K[%r](p)' % m.group(1), py)
    py = py.replace('<=?', '<=').replace('<?', '<').replace('=?', '==').replace('&&', ' and ').replace('||', ' or ').replace('negb', ' not ')
    py = py.replace('true', 'True').replace('false', 'False')
    K = {k: (lambda iv: (lambda p: any(lo <= p <= hi for lo, hi in iv)))(iv) for k, iv in known_iv.items()}
    vals = [(q, bool(eval(py, {'__builtins__': {}}, {'p': q, 'K': K}))) for q in pts]
    out, start = [], None
    for i, (q, v) in enumerate(vals):
        if v and start is None:
            start = q
        if not v and start is not None:
            out.append((start, vals[i - 1][0]))
            start = None
    if start is not None:
        out.append((start, vals[-1][0]))
    # consecutive sample points with equal value bound a constant stretch (all breakpoints are sampled), so joining them is exact
    return out


def zlist(v):
    return '[' + '; '.join(str(x) for x in v) + ']'


def write_if_changed(path, txt):
    os.makedirs(os.path.dirname(path), exist_ok=True)
    old = open(path).read() if os.path.exists(path) else None
    if old != txt:
        open(path, 'w').write(txt)


def preprocess(fname, macros=False):
    """run the real preprocessor with the flags of the w64 harness build, so that #if blocks and macros are resolved as compiled"""
    import subprocess
    cmd = ['g++', '-std=c++11', '-E', '-P' if not macros else '-dM', '-DESP_PLATFORM', '-I' + os.path.join(VERIF, 'harness', 'fake_esp'),
           '-I' + os.path.join(REPO, 'src'), '-x', 'c++', os.path.join(REPO, 'src', fname)]
    p = subprocess.run(cmd, stdout=subprocess.PIPE, stderr=subprocess.PIPE, text=True, errors='replace')
    return p.stdout if p.returncode == 0 else ''


def main():
    cpp = preprocess('NMEA2000.cpp')
    out = ['(* GENERATED by tools/gen_tables.py from <repo>/src/NMEA2000.cpp - do not edit *)',
           'From Coq Require Import ZArith List Bool.', 'Import ListNotations.', 'Local Open Scope Z_scope.', '']
    problems = []
    tables = [('IsSingleFrameSystemMessage', 'single_frame_system'), ('IsFastPacketSystemMessage', 'fast_packet_system'),
              ('IsDefaultSingleFrameMessage', 'default_single_frame'), ('IsMandatoryFastPacketMessage', 'mandatory_fast_packet'),
              ('IsDefaultFastPacketMessage', 'default_fast_packet'), ('IgnoreBroadcastISORequest', 'ignore_broadcast_iso_request')]
    ex = execute_tables()
    notes = []
    if ex is None:
        # the execution is a cross-check and a fall-back; the textual translation stands on its own when it cannot be had
        notes.append('the classification functions could not be compiled and run: no cross-check by execution in this run')
    for cname, gname in tables:
        body = func_body(cpp, r'\bbool\s+%s\s*\(\s*unsigned\s+long\s+\w+\s*\)\s*\{' % cname)
        cases, pr = switch_table(body) if body is not None else ([], ['function not found'])
        byex = intervals_to_list(ex[cname]) if ex is not None else None
        if pr and byex is not None:
            # outside the textual subset: the table is the truth set of the compiled function over PGN < 2^24
            notes.append('%s: %s - table taken from the execution of the compiled function over PGN < 2^24' % (cname, pr[0]))
            cases = byex
        elif pr:
            problems += ['%s: untranslated text `%s`' % (cname, x) for x in pr]
        elif byex is not None and byex != cases:
            problems.append('%s: the switch labels read from the text and the compiled function disagree below 2^24' % cname)
        out.append('Definition %s_list : list Z := %s.' % (gname, zlist(cases)))
        out.append('Definition is_%s (p:Z) : bool := existsb (Z.eqb p) %s_list.' % (gname, gname))
        out.append('')
    known, known_iv = {}, {}
    for cname, gname, hdr in [('IsProprietaryFastPacketMessage', 'is_proprietary_fast_packet', r'\bbool\s+IsProprietaryFastPacketMessage\s*\(\s*unsigned\s+long\s+PGN\s*\)\s*\{'),
                              ('IsProprietaryMessage', 'is_proprietary', r'\bbool\s+tNMEA2000::IsProprietaryMessage\s*\(\s*unsigned\s+long\s+PGN\s*\)\s*\{')]:
        body = func_body(cpp, hdr)
        e = range_expr(body, known) if body is not None else None
        exiv = ex[cname if cname in ex else 'tNMEA2000::' + cname] if ex is not None else None
        if e is not None and exiv is not None:
            try:
                if expr_intervals(e, known_iv) != exiv:
                    problems.append('%s: the expression read from the text and the compiled function disagree below 2^24' % cname)
            except Exception as x:
                problems.append('%s: cross-check failed (%s)' % (cname, x))
        if e is None and exiv is not None and (not exiv or exiv[-1][1] < PROBE_LIMIT - 1):
            notes.append('%s: body outside the textual subset - intervals taken from the execution of the compiled function over PGN < 2^24' % cname)
            e = intervals_to_expr(exiv)
        elif e is None:
            problems.append('%s: body outside the translatable subset' % cname)
            e = 'false'
        out.append('Definition %s (p:Z) : bool := %s.' % (gname, e))
        out.append('')
        known[cname] = gname
        if exiv is not None:
            known_iv[gname] = exiv
    for cname, gname in [('DefTransmitMessages', 'def_transmit_messages'), ('DefReceiveMessages', 'def_receive_messages')]:
        vals, pr = array_table(cpp, cname)
        problems += ['%s: %s' % (cname, x) for x in pr]
        out.append('Definition %s : list Z := %s.' % (gname, zlist(vals or [])))
        out.append('')
    for n_ in notes:
        out.append('(* note: %s *)' % n_.replace('*)', '* )'))
    out.append('(* items that left the translatable subset (must be empty for the obligations that use these tables) *)')
    out.append('Definition untranslated_tables : list nat := %s.' % ('[' + '; '.join('%d%%nat' % i for i, _ in enumerate(problems)) + ']'))
    for i, p in enumerate(problems):
        out.append('(* untranslated %d: %s *)' % (i, p.replace('*)', '* )')))
    write_if_changed(os.path.join(OUT, 'GenTables.v'), '\n'.join(out) + '\n')

    # ---- constants
    consts = [('N2kAddressClaimTimeout', 'NMEA2000.cpp'), ('MaxHeartbeatInterval', 'NMEA2000.cpp'), ('TP_MAX_FRAMES', 'NMEA2000.cpp'), ('TP_CM', 'NMEA2000.cpp'),
              ('TP_DT', 'NMEA2000.cpp'), ('TP_CM_BAM', 'NMEA2000.cpp'), ('TP_CM_RTS', 'NMEA2000.cpp'), ('TP_CM_CTS', 'NMEA2000.cpp'), ('TP_CM_ACK', 'NMEA2000.cpp'),
              ('TP_CM_Abort', 'NMEA2000.cpp'), ('TP_CM_AbortBusy', 'NMEA2000.cpp'), ('TP_CM_AbortNoResources', 'NMEA2000.cpp'), ('TP_CM_AbortTimeout', 'NMEA2000.cpp'),
              ('MAX_PGNS_IN_LIST', 'NMEA2000.cpp'), ('Max_N2kMsgBuf_Time', 'NMEA2000.h'), ('N2kMessageGroups', 'NMEA2000.h'), ('N2kMaxCanBusAddress', 'NMEA2000.h'),
              ('N2kNullCanBusAddress', 'NMEA2000.h'), ('Max_N2kModelID_len', 'NMEA2000.h'), ('Max_N2kSwCode_len', 'NMEA2000.h'), ('Max_N2kModelVersion_len', 'NMEA2000.h'),
              ('Max_N2kModelSerialCode_len', 'NMEA2000.h'), ('Max_N2kConfigurationInfoField_len', 'NMEA2000.h'), ('N2kPGNIsoAddressClaim', 'NMEA2000.h'),
              ('N2kPGNProductInformation', 'NMEA2000.h'), ('N2kPGNConfigurationInformation', 'NMEA2000.h'), ('MAX_STREAM_MSG_BUF_LEN', 'ActisenseReader.h'),
              ('N2kMaxBusDevices', 'N2kDeviceList.h')]
    cout = ['(* GENERATED by tools/gen_tables.py from <repo>/src - do not edit *)', 'From Coq Require Import ZArith.', 'Local Open Scope Z_scope.', '']
    cprob = []
    cache = {}
    def lit(v):
        return str(v)
    for name, f in consts:
        f = f.replace('.h', '.cpp') if f in ('NMEA2000.h',) else f
        if f not in cache:
            cache[f] = macro_table(preprocess(f, macros=True))
        v = ceval(cache[f][name], cache[f]) if name in cache[f] else None
        if v is not None:
            cout.append('Definition c_%s : Z := %s.' % (name, lit(v)))
        else:
            cprob.append(name)
            cout.append('(* %s: not found as an integer constant #define in %s *)' % (name, f))
    mdl_txt = strip_comments(open(os.path.join(REPO, 'src', 'N2kMsg.h')).read()) if os.path.exists(os.path.join(REPO, 'src', 'N2kMsg.h')) else ''
    mm = re.search(r'static\s+const\s+int\s+MaxDataLen\s*=\s*([^;]+);', mdl_txt)
    mdl = ceval(mm.group(1), {}) if mm else None
    for name, f, rx in [('MaxDataLen', 'N2kMsg.h', r'static\s+const\s+int\s+MaxDataLen\s*=\s*([^;]+);'),
                        ('MaxReadFramesOnParse', 'NMEA2000.cpp', r'static\s+const\s+int\s+MaxReadFramesOnParse\s*=\s*([^;]+);'),
                        ('MaxActisenseMsgBuf', 'N2kMsg.cpp', r'#define\s+MaxActisenseMsgBuf\s+([^\n]+)'),
                        ('DefaultHeartbeatInterval', 'NMEA2000.h', r'#define\s+DefaultHeartbeatInterval\s+([^\n]+)')]:
        p = os.path.join(REPO, 'src', f)
        txt = strip_comments(open(p).read()) if os.path.exists(p) else ''
        m = re.search(rx, txt)
        # a constant expression over literals and tN2kMsg::MaxDataLen: evaluated here
        val = ceval(m.group(1).strip(), {'tN2kMsg::MaxDataLen': str(mdl), 'MaxDataLen': str(mdl)} if mdl is not None else {}) if m else None
        if val is not None:
            cout.append('Definition c_%s : Z := %s.' % (name, val))
        else:
            cprob.append(name)
            cout.append('(* %s: pattern not found in %s *)' % (name, f))
    cout.append('')
    cout.append('Definition untranslated_consts : nat := %d.' % len(cprob))
    write_if_changed(os.path.join(OUT, 'GenConsts.v'), '\n'.join(cout) + '\n')
    return problems, cprob


if __name__ == '__main__':
    pr, cp = main()
    for p in pr:
        print('untranslated:', p)
    for c in cp:
        print('constant not found:', c)
