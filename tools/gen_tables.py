#!/usr/bin/python3
# Translator: regenerates coq/Gen/GenTables.v (PGN classification tables) and coq/Gen/GenConsts.v (protocol constants) from
# /repo/src on every run (write-if-changed).  Anything outside the translatable subset becomes an `Untranslated` marker that
# no theorem accepts (the generated definition `gen_ok` is then false and the obligations that mention it fail).
import os, re, sys

VERIF = os.path.dirname(os.path.dirname(os.path.abspath(__file__)))
REPO = os.environ.get('VERIF_REPO', '/repo')
OUT = os.path.join(VERIF, 'coq', 'Gen')


def strip_comments(s):
    s = re.sub(r'/\*.*?\*/', ' ', s, flags=re.S)
    s = re.sub(r'//[^\n]*', ' ', s)
    return s


def func_body(src, header_re):
    m = re.search(header_re, src)
    if not m:
        return None
    i = src.index('{', m.end() - 1)
    depth = 0
    for j in range(i, len(src)):
        if src[j] == '{':
            depth += 1
        elif src[j] == '}':
            depth -= 1
            if depth == 0:
                return src[i + 1:j]
    return None


def switch_table(body):
    """body of `switch (X) { case N: ... return true; } return false;` -> (list of ints, problems)"""
    problems = []
    cases = [int(x) for x in re.findall(r'\bcase\s+(\d+)[UuLl]*\s*:', body)]
    rest = re.sub(r'\bcase\s+\d+[UuLl]*\s*:', ' ', body)
    rest = re.sub(r'\bswitch\s*\(\s*\w+\s*\)', ' ', rest)
    rest = re.sub(r'\breturn\s+true\s*;', ' ', rest, count=1)
    rest = re.sub(r'\breturn\s+false\s*;', ' ', rest, count=1)
    rest = re.sub(r'[{}\s]', '', rest)
    if rest:
        problems.append(rest[:80])
    return cases, problems


def array_table(src, name):
    m = re.search(r'\b%s\s*\[\s*\]\s*(?:PROGMEM\s*)?=\s*\{(.*?)\}\s*;' % name, src, flags=re.S)
    if not m:
        return None, ['array %s not found' % name]
    items = [x.strip() for x in m.group(1).split(',') if x.strip()]
    vals, problems = [], []
    for x in items:
        mm = re.fullmatch(r'(\d+)[UuLl]*', x)
        if mm:
            vals.append(int(mm.group(1)))
        else:
            problems.append(x[:40])
    if not vals or vals[-1] != 0:
        problems.append('no 0 terminator')
    else:
        vals = vals[:-1]
    if 0 in vals:
        problems.append('0 inside the list')
    return vals, problems


def range_expr(body, known):
    """return ( A ) || ( B && C ) ... over PGN==N, N<=PGN, PGN<=N, calls of known functions -> Coq bool expression on variable p"""
    m = re.fullmatch(r'\s*return\s+(.*?);\s*', body, flags=re.S)
    if not m:
        return None
    e = m.group(1)
    toks = re.findall(r'\d+[UuLl]*|\w+|==|<=|>=|\|\||&&|[()<>]', e)
    if ''.join(toks) != re.sub(r'\s', '', e):
        return None
    pos = [0]

    def peek():
        return toks[pos[0]] if pos[0] < len(toks) else None

    def eat(t=None):
        x = peek()
        if t is not None and x != t:
            raise ValueError('expected %s got %s' % (t, x))
        pos[0] += 1
        return x

    def num(t):
        return int(re.match(r'\d+', t).group(0))

    def atom():
        t = peek()
        if t == '(':
            eat('(')
            x = orx()
            eat(')')
            return x
        if re.fullmatch(r'\d+[UuLl]*', t):
            a = num(eat())
            op = eat()
            eat('PGN')
            return {'<=': '(%d <=? p)' % a, '<': '(%d <? p)' % a, '==': '(p =? %d)' % a, '>=': '(p <=? %d)' % a, '>': '(p <? %d)' % a}[op]
        if t == 'PGN':
            eat('PGN')
            op = eat()
            a = num(eat())
            return {'<=': '(p <=? %d)' % a, '<': '(p <? %d)' % a, '==': '(p =? %d)' % a, '>=': '(%d <=? p)' % a, '>': '(%d <? p)' % a}[op]
        if t in known:
            eat()
            eat('(')
            eat('PGN')
            eat(')')
            return '(%s p)' % known[t]
        raise ValueError('unexpected token %s' % t)

    def andx():
        x = atom()
        while peek() == '&&':
            eat()
            x = '(%s && %s)' % (x, atom())
        return x

    def orx():
        x = andx()
        while peek() == '||':
            eat()
            x = '(%s || %s)' % (x, andx())
        return x
    try:
        x = orx()
        if peek() is not None:
            return None
        return x
    except (ValueError, KeyError, AttributeError):
        return None


def zlist(v):
    return '[' + '; '.join(str(x) for x in v) + ']'


def write_if_changed(path, txt):
    os.makedirs(os.path.dirname(path), exist_ok=True)
    old = open(path).read() if os.path.exists(path) else None
    if old != txt:
        open(path, 'w').write(txt)


def preprocess(fname, macros=False):
    """run the real preprocessor with the flags of the w64 harness build, so that #if blocks and macros are resolved as compiled"""
    import subprocess
    cmd = ['g++', '-std=c++11', '-E', '-P' if not macros else '-dM', '-DESP_PLATFORM', '-I' + os.path.join(VERIF, 'harness', 'fake_esp'),
           '-I' + os.path.join(REPO, 'src'), '-x', 'c++', os.path.join(REPO, 'src', fname)]
    p = subprocess.run(cmd, stdout=subprocess.PIPE, stderr=subprocess.PIPE, text=True, errors='replace')
    return p.stdout if p.returncode == 0 else ''


def main():
    cpp = preprocess('NMEA2000.cpp')
    out = ['(* GENERATED by tools/gen_tables.py from <repo>/src/NMEA2000.cpp - do not edit *)',
           'From Coq Require Import ZArith List Bool.', 'Import ListNotations.', 'Local Open Scope Z_scope.', '']
    problems = []
    tables = [('IsSingleFrameSystemMessage', 'single_frame_system'), ('IsFastPacketSystemMessage', 'fast_packet_system'),
              ('IsDefaultSingleFrameMessage', 'default_single_frame'), ('IsMandatoryFastPacketMessage', 'mandatory_fast_packet'),
              ('IsDefaultFastPacketMessage', 'default_fast_packet'), ('IgnoreBroadcastISORequest', 'ignore_broadcast_iso_request')]
    for cname, gname in tables:
        body = func_body(cpp, r'\bbool\s+%s\s*\(\s*unsigned\s+long\s+\w+\s*\)\s*\{' % cname)
        if body is None:
            problems.append('%s: function not found' % cname)
            out.append('Definition %s_list : list Z := [].' % gname)
        else:
            cases, pr = switch_table(body)
            problems += ['%s: untranslated text `%s`' % (cname, x) for x in pr]
            out.append('Definition %s_list : list Z := %s.' % (gname, zlist(cases)))
        out.append('Definition is_%s (p:Z) : bool := existsb (Z.eqb p) %s_list.' % (gname, gname))
        out.append('')
    known = {}
    for cname, gname, hdr in [('IsProprietaryFastPacketMessage', 'is_proprietary_fast_packet', r'\bbool\s+IsProprietaryFastPacketMessage\s*\(\s*unsigned\s+long\s+PGN\s*\)\s*\{'),
                              ('IsProprietaryMessage', 'is_proprietary', r'\bbool\s+tNMEA2000::IsProprietaryMessage\s*\(\s*unsigned\s+long\s+PGN\s*\)\s*\{')]:
        body = func_body(cpp, hdr)
        e = range_expr(body, known) if body is not None else None
        if e is None:
            problems.append('%s: body outside the translatable subset' % cname)
            e = 'false'
        out.append('Definition %s (p:Z) : bool := %s.' % (gname, e))
        out.append('')
        known[cname] = gname
    for cname, gname in [('DefTransmitMessages', 'def_transmit_messages'), ('DefReceiveMessages', 'def_receive_messages')]:
        vals, pr = array_table(cpp, cname)
        problems += ['%s: %s' % (cname, x) for x in pr]
        out.append('Definition %s : list Z := %s.' % (gname, zlist(vals or [])))
        out.append('')
    out.append('(* items that left the translatable subset (must be empty for the obligations that use these tables) *)')
    out.append('Definition untranslated_tables : list nat := %s.' % ('[' + '; '.join(str(i) for i, _ in enumerate(problems)) + ']'))
    for i, p in enumerate(problems):
        out.append('(* untranslated %d: %s *)' % (i, p.replace('*)', '* )')))
    write_if_changed(os.path.join(OUT, 'GenTables.v'), '\n'.join(out) + '\n')

    # ---- constants
    consts = [('N2kAddressClaimTimeout', 'NMEA2000.cpp'), ('MaxHeartbeatInterval', 'NMEA2000.cpp'), ('TP_MAX_FRAMES', 'NMEA2000.cpp'), ('TP_CM', 'NMEA2000.cpp'),
              ('TP_DT', 'NMEA2000.cpp'), ('TP_CM_BAM', 'NMEA2000.cpp'), ('TP_CM_RTS', 'NMEA2000.cpp'), ('TP_CM_CTS', 'NMEA2000.cpp'), ('TP_CM_ACK', 'NMEA2000.cpp'),
              ('TP_CM_Abort', 'NMEA2000.cpp'), ('TP_CM_AbortBusy', 'NMEA2000.cpp'), ('TP_CM_AbortNoResources', 'NMEA2000.cpp'), ('TP_CM_AbortTimeout', 'NMEA2000.cpp'),
              ('MAX_PGNS_IN_LIST', 'NMEA2000.cpp'), ('Max_N2kMsgBuf_Time', 'NMEA2000.h'), ('N2kMessageGroups', 'NMEA2000.h'), ('N2kMaxCanBusAddress', 'NMEA2000.h'),
              ('N2kNullCanBusAddress', 'NMEA2000.h'), ('Max_N2kModelID_len', 'NMEA2000.h'), ('Max_N2kSwCode_len', 'NMEA2000.h'), ('Max_N2kModelVersion_len', 'NMEA2000.h'),
              ('Max_N2kModelSerialCode_len', 'NMEA2000.h'), ('Max_N2kConfigurationInfoField_len', 'NMEA2000.h'), ('N2kPGNIsoAddressClaim', 'NMEA2000.h'),
              ('N2kPGNProductInformation', 'NMEA2000.h'), ('N2kPGNConfigurationInformation', 'NMEA2000.h'), ('MAX_STREAM_MSG_BUF_LEN', 'ActisenseReader.h'),
              ('N2kMaxBusDevices', 'N2kDeviceList.h')]
    cout = ['(* GENERATED by tools/gen_tables.py from <repo>/src - do not edit *)', 'From Coq Require Import ZArith.', 'Local Open Scope Z_scope.', '']
    cprob = []
    cache = {}
    for name, f in consts:
        f = f.replace('.h', '.cpp') if f in ('NMEA2000.h',) else f
        if f not in cache:
            cache[f] = preprocess(f, macros=True)
        m = re.search(r'#define\s+%s\s+\(?\s*(-?\d+)[UuLl]*\s*\)?\s*$' % name, cache[f], flags=re.M)
        if m:
            cout.append('Definition c_%s : Z := %s.' % (name, m.group(1) if not m.group(1).startswith('-') else '(%s)' % m.group(1)))
        else:
            cprob.append(name)
            cout.append('(* %s: not found as a plain #define in %s *)' % (name, f))
    for name, f, rx in [('MaxDataLen', 'N2kMsg.h', r'static\s+const\s+int\s+MaxDataLen\s*=\s*(\d+)\s*;'),
                        ('MaxReadFramesOnParse', 'NMEA2000.cpp', r'static\s+const\s+int\s+MaxReadFramesOnParse\s*=\s*(\d+)\s*;'),
                        ('MaxActisenseMsgBuf', 'N2kMsg.cpp', r'#define\s+MaxActisenseMsgBuf\s+([^\n]+)'),
                        ('DefaultHeartbeatInterval', 'NMEA2000.h', r'#define\s+DefaultHeartbeatInterval\s+(\d+)')]:
        p = os.path.join(REPO, 'src', f)
        txt = strip_comments(open(p).read()) if os.path.exists(p) else ''
        m = re.search(rx, txt)
        val = m.group(1).strip() if m else None
        if val is not None and not val.isdigit():
            # a constant expression over literals and tN2kMsg::MaxDataLen: evaluated here
            mm = re.search(r'static\s+const\s+int\s+MaxDataLen\s*=\s*(\d+)\s*;', strip_comments(open(os.path.join(REPO, 'src', 'N2kMsg.h')).read()))
            e = val.replace('tN2kMsg::MaxDataLen', mm.group(1) if mm else 'X')
            val = str(eval(e)) if re.fullmatch(r'[\d\s()+*\-]+', e) else None
        if val is not None:
            cout.append('Definition c_%s : Z := %s.' % (name, val))
        else:
            cprob.append(name)
            cout.append('(* %s: pattern not found in %s *)' % (name, f))
    cout.append('')
    cout.append('Definition untranslated_consts : nat := %d.' % len(cprob))
    write_if_changed(os.path.join(OUT, 'GenConsts.v'), '\n'.join(cout) + '\n')
    return problems, cprob


if __name__ == '__main__':
    pr, cp = main()
    for p in pr:
        print('untranslated:', p)
    for c in cp:
        print('constant not found:', c)
