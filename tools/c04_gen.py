# C04 - entitlement to transmit: history generator and the property oracle (plain Python, written from the property text; it does not
# use the Coq model).  See p_C04.py for the entry points.
#
# ---------------------------------------------------------------------------------------------------------------------------------
# What the oracle checks (every CANSendFrame call - accepted or refused - counts as a transmission: the library decided to transmit):
#   listen-only   mode 0: no call at all, every application send returns false
#                   - after a run-time SetMode to listen-only (`M 0 ..`) that followed a refused driver call, at most queue-capacity
#                     frames may still leave:  key  listen-only:queued-frame-flushed  (the send queue is not purged; D-05 root cause)
#   not-open      no call in an operation that precedes the one in which Open() completed (note:open)
#   settle        no call earlier than 200 ms after the first operation that can have opened the CAN interface
#   the gate      each frame is judged against the state of the devices AT THE TIME IT WAS PRODUCED (handed to SendFrame) and AT THE
#                 TIME IT LEAVES (handed to the driver): its source must be the address of one of our devices, and if that device's
#                 claim is pending (250 ms after a claim start) or its address is 254, the PGN must be 60928.
#                   - not entitled when it leaves, but entitled at an earlier possible production time (it waited in the send queue):
#                       key  claim-window:queued-frame-flushed     while the claim of the device that produced it is pending
#                       key  former-address:queued-frame-flushed   later: the address it carries is no longer ours
#                   - not entitled at any possible production time:   key  gate:...
#   app sends     an `S` for a device that is claiming / holds 254 / on a listen-only or not yet open node returns false and hands
#                 nothing to the driver (key app-send:...).
# The oracle follows the devices' addresses and claim windows from the case and from the observable log:
#   claim starts: Open() completing (note:open), `C idev`, a delivered PGN 60928 (dlv:..60928..) from one of our addresses whose NAME
#   is not higher than ours (the loser takes the next free address; equal NAME inside a window bumps the device instance instead),
#   a delivered commanded address: a complete PGN 65240 transfer by ISO-TP (BAM, or RTS/CTS to the address of one of our devices) of 9
#   bytes whose first 8 bytes are the NAME of one of our devices (of the addressed device for RTS/CTS) and whose 9th byte is another
#   address 0..251: the device takes that address at the poll that reassembles the message and its 250 ms window opens there.
#   Every claim start must be announced: the SendFrame of the handler - the last one before the delivery is logged - must hand the
#   device's PGN 60928 to the driver unless the driver refused the queue head (then the claim waits in the queue); key gate:...
#   Two devices commanded to the same address (the D-04 sibling case) are followed per device: a frame with the shared address is
#   accepted if one of the holders is entitled.
#   Not followed (judged on mode / open / settle only, counted as 'untracked'): group functions (PGN 126208), and histories in which
#   PGN 65240 also arrives as a fast packet (the log does not tell the carriage of a delivered message).
#   The state dump at the end of the result line is used as a cross-check of this bookkeeping: if the two differ the address-dependent
#   judgements of the case are dropped (never reported), and the case is counted in oracle.stats['desync'].  Addresses, NAMEs and the
#   end-of-claim-run address are compared; the library's claim timer is NOT: the window is defined by the property (250 ms from the
#   claim start), so a library that does not arm its timer is judged, not excused.
# Production time of a frame: the log shows only driver calls.  A frame is attempted directly only when the queue is empty; a frame
# that is queued silently always follows a refused attempt of the queue head in the same SendFrame.  The oracle therefore keeps the
# known head of the queue and the list of "gaps" (positions right after a refused attempt) and judges a frame that surfaces later
# against every possible production position (existentially: never a false alarm).
from nodesim import own_addr
import random
from nodesim import parse_result
from nodegen import can_id, rx, tp_rts, tp_dt, tp_cm, iso_request, claim, random_history

M32 = 1 << 32
INTERNAL_PGNS = {59392, 59904, 60160, 60416, 60928, 65240, 126208, 126464, 126993, 126996, 126998}    # PGNs the library sends on its own
IMAX = (1 << 31) - 1
NAME0 = 0xc0328200ffc00001          # NAME of device 0 in the harness (unique number 1+i)


def parse_case(line):
    """like nodesim.parse_case, but every list-valued key is accepted (iso=, rx<i>=, ...)"""
    cfgs, opss = line.split('|', 1)
    c = {}
    for tok in cfgs.split()[1:]:
        k, v = tok.split('=', 1)
        c[k] = [int(x) for x in v.split(',') if x] if (',' in v or k.startswith(('tx', 'rx', 'fp', 'sf', 'iso'))) else int(v)
    return c, [o.split() for o in opss.split(';')]


def dev_name(i):
    return NAME0 + i


def decode_id(cid):
    pf = (cid >> 16) & 0xff
    ps = (cid >> 8) & 0xff
    dp = (cid >> 24) & 1
    src = cid & 0xff
    pri = (cid >> 26) & 7
    if pf < 240:
        return pri, dp << 16 | pf << 8, src, ps
    return pri, dp << 16 | pf << 8 | ps, src, 255


def end_of(src):
    return src - 1 if src > 0 else 251


class Dev:
    __slots__ = ('addr', 'name', 'end', 'timer')

    def __init__(self, addr, name):
        self.addr, self.name, self.end, self.timer = addr, name, end_of(addr), None


class Tracker:
    """addresses and claim windows of our devices"""

    def __init__(self, fs, mode, ndev, src0):
        self.w64 = (fs == 'w64')
        self.mode = mode
        self.devs = [Dev(own_addr(src0, i), dev_name(i)) for i in range(ndev)]
        self.now = 0

    # --- tN2kScheduler of the build
    def arm(self):
        if self.w64:
            return self.now + 250
        s = ((self.now % M32) + 250) % M32
        return 0 if s == M32 - 1 else s

    def expired(self, s):
        if self.w64:
            return s < self.now
        return ((self.now % M32) - s) % M32 < IMAX

    def at_boundary(self, s):
        """the one millisecond on which the two scheduler builds legitimately differ"""
        if self.w64:
            return s == self.now
        return ((self.now % M32) - s) % M32 == 0

    def in_window(self, d):
        return d.timer is not None and not self.expired(d.timer)

    def check(self, i):
        """IsAddressClaimStarted(i) with its side effect"""
        d = self.devs[i]
        if d.timer is None:
            return False
        if self.expired(d.timer):
            d.timer = None
            d.end = end_of(d.addr)
            return False
        return True

    def ready(self):
        return self.mode in (1, 2)

    def next_address(self, i, restart):
        d = self.devs[i]
        for _ in range(300):
            if d.addr == 254:
                if not restart:
                    return
                d.addr = 14
                d.end = end_of(14)
            elif d.addr != d.end:
                d.addr = 0 if d.addr + 1 > 251 else d.addr + 1
            else:
                d.addr = 254
                return
            if not any(j != i and o.addr == d.addr for j, o in enumerate(self.devs)):
                return

    def start_claim(self, i):
        if self.ready():
            self.devs[i].timer = self.arm()

    def start_claim_split(self, i, alias=None):
        """StartAddressClaim(i): the frames handed to the driver inside the call (queue flush, then the claim) precede the
        announcement: they are judged with the address as it is now and the window state as it was; then the timer is armed"""
        s = self.snap(alias=alias, starting=i)
        self.start_claim(i)
        return s

    def do_open(self):
        for i, d in enumerate(self.devs):
            if d.addr == 254:
                self.next_address(i, True)
            self.start_claim(i)

    def prelude(self):
        for i, d in enumerate(self.devs):
            if d.addr == 254:
                self.next_address(i, True)
        for d in self.devs:
            d.timer = None
            d.end = end_of(d.addr)

    def find(self, src):
        if src > 253:
            return -1
        for i, d in enumerate(self.devs):
            if d.addr == src:
                return i
        return -1

    def claim_received(self, src, ln, data):
        """HandleISOAddressClaim; returns the device index whose claim (re)started, or None"""
        if not self.ready():
            return None
        i = self.find(src)
        if src == 254 or i < 0:
            return None
        d = self.devs[i]
        caller = int.from_bytes(bytes(data[:8]), 'little') if ln >= 8 and len(data) >= 8 else (1 << 64) - 1
        if d.name < caller:
            self.check(i)
            return None
        if d.name == caller and self.check(i):
            inst = (d.name >> 32) & 0xff
            d.name = d.name - (inst << 32) + (((inst + 1) & 0xff) << 32)
        else:
            self.next_address(i, False)
        return i                       # the caller takes the snapshot for the handler's frames and then arms the timer

    def commanded_received(self, dst, ln, data):
        """HandleCommandedAddress for a message delivered by ISO-TP; returns the device that takes a new address, or None"""
        if not self.ready() or ln != 9 or len(data) < 9:
            return None
        i = self.find(dst)
        if dst != 255 and i < 0:
            return None
        new = data[8]
        if new >= 252:
            return None
        name = int.from_bytes(bytes(data[:8]), 'little')
        for j in (range(len(self.devs)) if i < 0 else [i]):
            d = self.devs[j]
            if d.name == name and d.addr != new:
                d.addr = new
                d.end = end_of(new)
                return j                   # NAMEs are distinct: at most one device matches
        return None

    def snap(self, alias=None, starting=None):
        """(time, per device (address, claim pending, boundary millisecond, claim start in progress), alias)"""
        return (self.now, tuple((d.addr, d.timer is not None and not self.expired(d.timer),
                                 d.timer is not None and self.at_boundary(d.timer), i == starting) for i, d in enumerate(self.devs)), alias)


def entitled(snap, pgn, src):
    """may a frame with this PGN and source be produced / leave in this state?  -> (yes, owning device or None, forwarded)
    forwarded: an application send with device index -1 keeps the source the application chose and is governed by device 0"""
    now, devs, alias = snap
    owner = None
    for i, (addr, win, edge, _st) in enumerate(devs):
        if addr == src:
            owner = i
            if pgn == 60928 or ((not win or edge) and addr != 254):
                return True, i, False
    if alias is not None and alias[0] == src:
        addr, win, edge, _st = devs[0]
        if pgn == 60928 or not win or edge:
            return True, 0, True
        return False, 0, True
    return False, owner, False


def scan_untracked(ops):
    """things this oracle does not follow: group functions; PGN 65240 arriving as a fast packet (carriage not visible in the log)"""
    for o in ops:
        if o and o[0] == 'R' and len(o) >= 4:
            try:
                pri, pgn, src, dst = decode_id(int(o[1], 16))
                d = bytes.fromhex(o[3]) if o[3] != '-' else b''
            except ValueError:
                return True
            if pgn == 60416 and len(d) >= 8 and (d[5] | d[6] << 8 | d[7] << 16) == 126208:
                return True
            if pgn in (65240, 126208):
                return True
    return False


def pending_possible(cfg, ops):
    """can SendPendingInformation send something at the start of a ParseMessages?  (transport-protocol sessions of ours, delayed
    product/configuration information after a failed send)"""
    for o in ops:
        if o and o[0] == 'S' and len(o) >= 8 and o[6] == '1':
            return True
        if o and o[0] == 'R' and len(o) >= 4:
            try:
                pri, pgn, src, dst = decode_id(int(o[1], 16))
                d = bytes.fromhex(o[3]) if o[3] != '-' else b''
            except ValueError:
                return True
            if pgn == 59904 and len(d) >= 3 and (d[0] | d[1] << 8 | d[2] << 16) in (126996, 126998):
                return True
    return False


class Stats(dict):
    def bump(self, k):
        self[k] = self.get(k, 0) + 1


def make_oracle(fs, stats=None):
    stats = stats if stats is not None else Stats()

    def oracle(case, res):
        if res.startswith('crash'):
            return 'memory:' + res
        cfg, ops = parse_case(case)
        per_op, state = parse_result(res)
        mode, ndev, src0 = cfg['mode'], cfg['ndev'], cfg['src']
        cold = cfg.get('cold', 0) == 1
        tr = Tracker(fs, mode, ndev, src0)
        tr.now = cfg['t0']
        opened = not cold
        if not cold:
            tr.prelude()
        first_open_call = None          # time of the first operation that can have called CANOpen()
        hard = []                       # verdicts that do not depend on the address bookkeeping
        soft = []                       # verdicts that do
        untracked = scan_untracked(ops)
        cap = cfg.get('q', 40) * ndev - 1  # frames the send queue can hold
        head = None                     # known head of the send queue: (frame, candidate snapshots)
        gaps = []                       # snapshots right after refused attempts (a silent enqueue may have followed)
        refused_seen = False            # the driver has refused a frame: the send queue may hold frames
        switched_with_backlog = False   # run-time SetMode to listen-only with a possibly non-empty send queue
        flushed_after_switch = 0
        late = []                       # verdicts about frames queued before a run-time switch to listen-only
        stats.bump('cases')

        def judge(e, k, cur, alt=None):
            """one driver call; cur = state now; alt = optional second admissible state (ambiguous position inside a poll)"""
            nonlocal head, gaps
            _, cid, ln, data, acc = e
            pri, pgn, src, dst = decode_id(cid)
            fr = (cid, ln, tuple(data))
            here = [cur] + ([alt] if alt is not None else [])       # the states in which this call can have been made
            if head is not None:
                if head[0] != fr:
                    soft.append('fifo:op %d frame %x overtakes the queue head %x' % (k, cid, head[0][0]))
                    cands = here
                else:
                    cands = head[1]
                if acc:
                    head = None
                else:
                    gaps = gaps + here
            else:
                cands = gaps + here
                if not acc and cap >= 1:
                    head = (fr, cands)
                    gaps = gaps + here
            ok, owner, _f = entitled(cur, pgn, src)
            if not ok and alt is not None:
                ok, owner2, _f = entitled(alt, pgn, src)
            if ok:
                return
            # not entitled now: was it entitled when it was (possibly) produced?
            for c in cands:
                if c is cur or c is alt:
                    continue
                okc, own, fwdd = entitled(c, pgn, src)
                if okc:
                    if pgn == 60928:
                        return          # a claim that waited in the queue: claims are what a claiming device may send
                    now, devs, alias = cur
                    if fwdd and not (devs[0][1] or devs[0][3]):
                        return          # forwarded frame (device index -1) that waited in the queue; device 0 is not claiming now
                    if own is not None and (devs[own][1] or devs[own][3]):
                        soft.append('claim-window:queued-frame-flushed: op %d at t=%d: frame %x (PGN %d, source %d) produced at t=%d while device %d was entitled, '
                                    'left the send queue while that device\'s address claim is pending (device now at address %d)'
                                    % (k, now, cid, pgn, src, c[0], own, devs[own][0]))
                    else:
                        soft.append('former-address:queued-frame-flushed: op %d at t=%d: frame %x (PGN %d, source %d) produced at t=%d left the send queue when %d is no '
                                    'longer the address of device %s' % (k, now, cid, pgn, src, c[0], src, own))
                    return
            if pgn == 60928 and any(d[0] == src for d in cur[1]):
                return
            soft.append('gate:op %d at t=%d: frame %x (PGN %d, source %d) handed to the driver although no device is entitled to send it (devices %s)'
                        % (k, cur[0], cid, pgn, src, [(a, 'claiming' if w else 'ok') for a, w, _, _ in cur[1]]))

        for k, (o, evs) in enumerate(zip(ops, per_op)):
            if not o:
                continue
            txs = [e for e in evs if e[0] == 'tx']
            has_open = any(e[0] == 'note' and e[1:] == ('open',) for e in evs)
            if mode == 0 and txs:
                if switched_with_backlog and flushed_after_switch + len(txs) <= cap:
                    # a run-time SetMode to listen-only while frames accepted earlier may still wait in the send queue: the queue is not
                    # purged (root cause of D-05), the frames leave at the next flush.  Known finding, key listen-only:queued-frame-flushed.
                    flushed_after_switch += sum(1 for e in txs if e[4])
                    late.append('listen-only:queued-frame-flushed: op %d: %d frame(s) accepted before the run-time switch to listen-only left the send queue afterwards' % (k, len(txs)))
                else:
                    hard.append('listen-only:op %d hands %d frame(s) to the driver in listen-only mode' % (k, len(txs)))
            if any(not e[4] for e in txs):
                refused_seen = True
            if o[0] == 'T':
                tr.now += int(o[1])
                continue
            if (o[0] in ('S', 'P') or (o[0] == 'Q' and len(o) > 1 and o[1] in ('pi', 'ci', 'tx', 'rx', 'hd', 'hb', 'ac'))) and first_open_call is None:
                first_open_call = tr.now        # (a sending public call reaches Open() through SendMsg, like an application send)
            if not opened and not has_open and txs:
                hard.append('not-open:op %d hands %d frame(s) to the driver before Open() has completed' % (k, len(txs)))
            if cold and txs and first_open_call is not None and tr.now - first_open_call < 200:
                hard.append('settle:op %d transmits %d ms after the CAN interface was opened' % (k, tr.now - first_open_call))
            if has_open:
                if opened:
                    hard.append('open:op %d reports a second open' % k)
                opened = True
                tr.do_open()
            if o[0] == 'S' and len(o) >= 8:
                idev, pri, pgn, msrc = int(o[1]), int(o[2]), int(o[3]), int(o[4])
                ress = [e for e in evs if e[0] == 'res']
                if len(ress) != 1:
                    hard.append('app-send:op %d has %d results' % (k, len(ress)))
                    continue
                ok = ress[0][1]
                note_at = max([j for j, e in enumerate(evs) if e[0] == 'note'] + [-1])
                tx_after = [e for e in evs[note_at + 1:] if e[0] == 'tx']
                if mode == 0 or not opened:
                    if ok or tx_after:
                        hard.append('app-send:op %d on a %s node returned %s and handed %d frame(s) to the driver' % (k, 'listen-only' if mode == 0 else 'not yet open', ok, len(tx_after)))
                    continue
                if idev >= ndev:
                    if ok or tx_after:
                        hard.append('app-send:op %d for device index %d of %d returned %s, %d frame(s)' % (k, idev, ndev, ok, len(tx_after)))
                    continue
                di = idev if idev >= 0 else 0
                src = tr.devs[di].addr if idev >= 0 else msrc
                reaches_check = not (src > 251 and pgn != 60928) and not (((pgn >> 8) & 0xff) < 240 and (pgn & 0xff) != 0) and pgn != 0 \
                    and not ((pri & 7) == 0 and pgn == 0 and src == 0)
                d = tr.devs[di]
                edge = d.timer is not None and tr.at_boundary(d.timer)
                claiming = tr.check(di) if reaches_check else tr.in_window(d)
                must_fail = pgn != 60928 and ((claiming and not edge) or (idev >= 0 and d.addr == 254))
                if must_fail and (ok or tx_after):
                    soft.append('app-send:op %d (PGN %d, device %d at address %d, %s) returned %s and handed %d frame(s) to the driver'
                                % (k, pgn, di, d.addr, 'claim pending' if claiming else 'null address', ok, len(tx_after)))
                cur = tr.snap(alias=(msrc,) if idev < 0 else None)
                for e in txs:
                    judge(e, k, cur)
                continue
            if o[0] == 'C':
                i = int(o[1])
                if 0 <= i < ndev and opened and tr.ready():
                    cur = tr.start_claim_split(i)
                else:
                    cur = tr.snap()
                for e in txs:
                    judge(e, k, cur)
                continue
            if o[0] == 'F':
                cur = tr.snap()
                if not txs:
                    head, gaps = None, []
                for e in txs:
                    judge(e, k, cur)
                continue
            if o[0] == 'P':
                if not opened:
                    continue
                if not txs and not any(e[0] == 'dlv' for e in evs):
                    head, gaps = None, []
                # segments ending in a delivery: the handlers of a delivered message act before the delivery is logged
                seg = []
                first_seg = True
                for e in evs:
                    if e[0] == 'tx':
                        seg.append(e)
                        continue
                    if e[0] == 'note' and e[1:] == ('open',):
                        cur = tr.snap()            # the frames before the note are the initial claims sent by Open()
                        for x in seg:
                            judge(x, k, cur)
                        seg = []
                        continue
                    if e[0] != 'dlv':
                        continue
                    _, dpri, dpgn, dsrc, ddst, dlen, ddata = e
                    pre = tr.snap()
                    changed = None
                    if dpgn == 60928:
                        changed = tr.claim_received(dsrc, dlen, ddata)
                    elif dpgn == 65240:
                        changed = tr.commanded_received(ddst, dlen, ddata)
                    elif dpgn == 59904 and tr.ready():
                        if ddst == 255:
                            for i in range(ndev):
                                tr.check(i)
                        elif tr.find(ddst) >= 0:
                            tr.check(tr.find(ddst))
                    if changed is None:
                        post = tr.snap()
                        for x in seg:
                            judge(x, k, post)
                    else:
                        # A claim was handled.  Its handler changed the address first and then called SendFrame once (queue flush,
                        # then the claim): that call is the last one of the segment and produced at least one driver call.  Earlier
                        # driver calls of the segment (flush at the start of the poll, pending information, transport-protocol
                        # answers to frames that completed no message) saw the state before the claim was handled.  A call is
                        # certainly the handler's when it comes after the last refusal (a refusal ends a SendFrame) and no frame the
                        # library sends on its own (which could be the direct frame of an earlier SendFrame) follows it before the end.
                        post = tr.start_claim_split(changed)
                        n = len(seg)
                        last_ref = max([j for j in range(n - 1) if not seg[j][4]] + [-1])
                        if first_seg and last_ref < 0:
                            sure = n - 1
                        else:
                            sure = last_ref + 1
                            for j in range(last_ref + 1, n - 1):
                                if decode_id(seg[j][1])[1] in INTERNAL_PGNS:
                                    sure = j + 1
                        # the claim start must be announced: the handler's SendFrame ends the segment, either with the claim of the
                        # device's (new) address or with a refused flush (the claim then waits in the queue)
                        nd = tr.devs[changed]
                        announced = n > 0 and (not seg[-1][4] or (decode_id(seg[-1][1])[1] == 60928 and decode_id(seg[-1][1])[2] == nd.addr
                                                                  and list(seg[-1][3]) == list(nd.name.to_bytes(8, 'little'))))
                        if not announced:
                            soft.append('gate:op %d at t=%d: device %d starts a claim for address %d (%s) without handing its address claim to the driver'
                                        % (k, tr.now, changed, nd.addr, 'commanded address' if dpgn == 65240 else 'competing claim'))
                            sure = n        # nothing in the segment is the handler's
                        for j, x in enumerate(seg):
                            if j >= sure:
                                judge(x, k, post)
                            else:
                                judge(x, k, post, alt=pre)
                    seg = []
                    first_seg = False
                cur = tr.snap()
                for x in seg:
                    judge(x, k, cur)
                if tr.ready():
                    for i in range(ndev):
                        tr.check(i)
                continue
            # public calls of the application (harness ops Q / X / I / D / M / L; coq/Model/ApiDefs.v): what they hand to the driver is judged like
            # any other frame - the senders (product / configuration information, PGN lists, heartbeats) are entitled only outside the claim
            # window of a device with a usable address, address claims always
            if o[0] == 'Q' and len(o) >= 3:
                if o[1] == 'hi':
                    if txs:
                        hard.append('spurious:op %d (%s) hands frames to the driver' % (k, ' '.join(o)))
                    continue
                if not opened:
                    continue
                if tr.ready():
                    for i in range(ndev):
                        tr.check(i)
                cur = tr.snap()
                for e in txs:
                    judge(e, k, cur)
                continue
            if o[0] == 'X':
                if opened and tr.ready():
                    for i, d in enumerate(tr.devs):
                        if d.addr == 254:
                            tr.next_address(i, True)
                        tr.start_claim(i)
                cur = tr.snap()
                for e in txs:
                    judge(e, k, cur)         # Restart() hands over address claims only (and whatever waited in the queue)
                continue
            if o[0] == 'I' and len(o) >= 5:
                i, lo_, up_, si_ = int(o[1]), int(o[2]), int(o[3]), int(o[4])
                if 0 <= i < ndev:
                    d = tr.devs[i]
                    inst = (d.name >> 32) & 0xff
                    if lo_ != 255:
                        inst = (inst & ~7) | (lo_ & 7)
                    if up_ != 255:
                        inst = (inst & 7) | ((up_ & 31) << 3)
                    d.name = (d.name & ~(0xff << 32)) | (inst << 32)
                    if si_ != 255:
                        d.name = (d.name & ~(0xf << 56)) | ((si_ & 15) << 56)
                if txs:
                    hard.append('spurious:op %d (%s) hands frames to the driver' % (k, ' '.join(o)))
                continue
            if o[0] == 'D' and len(o) >= 7:
                i, uq, fn, cl, mf, ig = (int(x) for x in o[1:7])
                if 0 <= i < ndev:
                    d = tr.devs[i]
                    if mf != 65535:
                        d.name = (d.name & ~(0x7ff << 21)) | ((mf & 0x7ff) << 21)
                    if uq != 4294967295:
                        d.name = (d.name & ~0x1fffff) | (uq & 0x1fffff)
                    if fn != 255:
                        d.name = (d.name & ~(0xff << 40)) | ((fn & 0xff) << 40)
                    if cl != 255:
                        d.name = (d.name & ~(0xff << 48)) | (((cl & 0x7f) << 1) << 48)
                    if ig != 255:
                        b7 = (d.name >> 56) & 0xff
                        d.name = (d.name & ~(0xff << 56)) | ((((b7 & 0x0f) | ((ig << 4) & 0xff) | 0x80) & 0xff) << 56)
                if txs:
                    hard.append('spurious:op %d (%s) hands frames to the driver' % (k, ' '.join(o)))
                continue
            if o[0] == 'M' and len(o) >= 3:
                # SetMode after initialisation: the application overwrites mode and addresses without announcing them - from here on the
                # address bookkeeping of this oracle has no meaning; the mode-based rules follow the new mode
                if int(o[1]) == 0 and mode != 0:
                    switched_with_backlog = refused_seen     # without a refused driver call the queue is certainly empty
                    flushed_after_switch = 0
                mode = int(o[1])
                tr.mode = mode
                untracked = True
                if txs:
                    hard.append('spurious:op %d (%s) hands frames to the driver' % (k, ' '.join(o)))
                continue
            if o[0] == 'L':
                if txs:
                    hard.append('spurious:op %d (%s) hands frames to the driver' % (k, ' '.join(o)))
                continue
            # A, R, H: nothing to judge
            if txs:
                hard.append('spurious:op %d (%s) hands frames to the driver' % (k, o[0]))

        # cross-check of the bookkeeping against the state dump
        desync = untracked
        if not desync and opened:
            import re
            dumped = re.findall(r'dev(\d+)\{src=(\d+) end=(\d+) name=([0-9a-f]+) claim=(\w+)', state)
            if len(dumped) == ndev:
                for (i, s, en, nm, cl), d in zip(dumped, tr.devs):
                    if int(s) != d.addr or int(nm, 16) != d.name or int(en) != d.end:
                        desync = True
            elif 'open=3' in state:
                desync = True
        if desync:
            stats.bump('desync' if not untracked else 'untracked')
            soft = []
        if late and not (hard or soft):
            stats.bump('fail:listen-only-queued')
            return late[0]
        if hard or soft:
            allv = hard + soft
            # report the most specific failure first: gate violations before queue findings
            for pref in ('listen-only', 'not-open', 'settle', 'gate', 'app-send', 'open', 'spurious', 'fifo', 'former-address', 'claim-window'):
                for v in allv:
                    if v.startswith(pref):
                        stats.bump('fail:' + pref)
                        return v
            return allv[0]
        return None

    oracle.stats = stats
    return oracle


# ---------------------------------------------------------------------------------------------------------------------------------
# generator
T0S = [5000, 70000, 4294966000, 4294967200, 2147483000, 10 ** 12]
SINGLE = [127250, 127488, 129025, 130306, 65300, 126992]
FAST = [129029, 127489, 130816, 126996]


def smsg(r, idev, pgn=None, n=None, tp=0, src=None, dst=None, pri=None):
    pgn = r.choice(SINGLE + FAST) if pgn is None else pgn
    n = r.choice([0, 1, 8] if pgn in SINGLE else [3, 9, 20]) if n is None else n
    return 'S %d %d %d %d %d %d %s' % (idev, r.choice([2, 3, 6]) if pri is None else pri, pgn, r.choice([0, 15, 77]) if src is None else src,
                                       255 if dst is None else dst, tp, bytes(r.randrange(256) for _ in range(n)).hex() or '-')


def cfg(mode, ndev, src, q=40, slots=5, t0=5000, cold=False, hb=False, extra=''):
    return 'NODE mode=%d ndev=%d src=%d q=%d slots=%d t0=%d%s%s%s' % (mode, ndev, src, q, slots, t0, ' cold=1' if cold else '', ' hb=1' if hb else '', extra)


def stimulus(r, ndev, own, target):
    """one thing that would normally make the node transmit; target = index of the device of interest"""
    x = r.randrange(12)
    peer = r.choice([50, 51, 77])
    if x == 0:
        return [smsg(r, target)]
    if x == 1:
        return [smsg(r, r.randrange(ndev))]
    if x == 2:
        return [smsg(r, target, pgn=60928, n=8)]
    if x == 3:
        return [smsg(r, -1, src=r.choice([own[target], 99]))]
    if x == 4:
        return [iso_request(peer, own[target], r.choice([60928, 126996, 126464, 126998, 127250, 130999])), 'P']
    if x == 5:
        return [iso_request(peer, 255, r.choice([60928, 126996, 126464, 126998, 127250, 130999])), 'P']
    if x == 6:
        return [tp_rts(r.choice([130816, 127250, 126996]), peer, own[target], r.choice([9, 20, 223, 300]), maxp=r.choice([255, 2])), 'P']
    if x == 7:
        return [tp_cm(peer, own[target], 17, r.choice([1, 3]), 1, 255, 255, 130816), 'P']
    if x == 8:
        return [tp_dt(peer, own[target], r.choice([1, 2]), bytes(r.randrange(256) for _ in range(7))), 'P']
    if x == 9:
        return [smsg(r, target, pgn=130816, n=20, tp=1, dst=r.choice([255, peer]))]
    if x == 10:
        return ['P']
    return ['F']


def trigger(r, ndev, own, target, names):
    """start (or not) an address claim of device `target`; returns ops and the new list of addresses (simple +1 prediction, only
    used to aim later stimuli - the oracle does its own bookkeeping)"""
    x = r.randrange(6)
    if x == 0:
        return ['C %d' % target], own
    if x == 1:     # competing claim, lower NAME: we lose the address
        new = list(own)
        a = own[target]
        for _ in range(260):
            a = 0 if a + 1 > 251 else a + 1
            if a not in [o for j, o in enumerate(own) if j != target]:
                break
        new[target] = a
        return [claim(own[target], r.choice([0, 1, names[target] - 1 if names[target] > NAME0 else 5])), 'P'], new
    if x == 2:     # higher NAME: we keep it and re-announce
        return [claim(own[target], r.choice([names[target] + 16, (1 << 64) - 1])), 'P'], own
    if x == 3:     # equal NAME
        return [claim(own[target], names[target]), 'P'], own      # outside a window we move on; prediction may be off by design
    if x == 4:     # short claim frame: NAME reads as all ones
        return [claim(own[target], 0, ln=r.choice([0, 7])), 'P'], own
    return [claim(254, 0), claim(r.choice([50, own[target] ^ 1 if (own[target] ^ 1) not in own else 60]), 0), 'P'], own


def gen_cold(r, cases, thorough):
    """sends / requests / polls at every millisecond around the open sequence"""
    marks = [0, 1, 199, 200, 201, 202, 203, 400, 452, 453]
    for mode in range(5):
        for rep in range(6 if not thorough else 40):
            ndev = r.choice([1, 1, 2, 3])
            src = r.choice([22, 30, 0, 251 - ndev + 1, 254 if ndev == 1 else 100])
            t0 = r.choice(T0S)
            own = [own_addr(src, i) for i in range(ndev)]
            ops = []
            t = 0
            pts = sorted(set(r.sample(marks, r.randint(3, len(marks))) + ([0] if r.random() < 0.7 else [])))
            for m in pts:
                if m > t:
                    ops.append('T %d' % (m - t))
                    t = m
                for _ in range(r.randint(1, 3)):
                    y = r.random()
                    if y < 0.35:
                        ops.append('P')
                    elif y < 0.6:
                        ops.append(smsg(r, r.randrange(-1, ndev)))
                    elif y < 0.75:
                        ops += [iso_request(50, r.choice(own + [255]), r.choice([60928, 126996, 126464, 59904])), 'P']
                    elif y < 0.85:
                        ops += [claim(r.choice(own), r.choice([0, (1 << 64) - 1])), 'P']
                    elif y < 0.9:
                        ops.append('C %d' % r.randrange(ndev))
                    elif y < 0.95:
                        ops.append('F')
                    else:
                        ops.append('A ' + ''.join(r.choice('01') for _ in range(r.randint(0, 4))))
            cases.append(cfg(mode, ndev, src, q=r.choice([40, 2]), t0=t0, cold=True) + ' | ' + ' ; '.join(ops))
    # the exact boundary, every mode, both kinds of first call
    for mode in range(5):
        for first in ('P', 'S 0 3 127250 0 255 0 01'):
            for d in (199, 200, 201, 202):
                for t0 in (5000, 4294967200):
                    cases.append(cfg(mode, 2, 30, t0=t0, cold=True) + ' | %s ; T 1 ; %s ; T %d ; %s ; P ; S 1 3 127250 0 255 0 02 ; T 251 ; S 1 3 127250 0 255 0 03 ; P' % (first, first, d, first))


def gen_windows(r, cases, thorough):
    """a claim start followed by stimuli at chosen offsets inside and just after the 250 ms window"""
    offs = [0, 1, 50, 100, 249, 250, 251, 252, 300]
    for rep in range(400 if not thorough else 6000):
        mode = r.choice([1, 1, 1, 2, 2, 3, 4, 0])
        ndev = r.choice([1, 2, 2, 3])
        src = r.choice([0, 22, 30, 100, 252 - ndev])
        own = [own_addr(src, i) for i in range(ndev)]
        names = [dev_name(i) for i in range(ndev)]
        target = r.randrange(ndev)
        hb = r.random() < 0.2
        ops = []
        if hb:
            ops.append('T %d' % r.choice([9100, 9150, 9199, 9200, 9201, 9202, 9250]))
        if r.random() < 0.3:
            ops += stimulus(r, ndev, own, target)
        trg, own = trigger(r, ndev, own, target, names)
        ops += trg
        t = 0
        for m in sorted(r.sample(offs, r.randint(1, 5))):
            if m > t:
                ops.append('T %d' % (m - t))
                t = m
            for _ in range(r.randint(1, 3)):
                ops += stimulus(r, ndev, own, target)
            if r.random() < 0.15:
                trg, own = trigger(r, ndev, own, r.randrange(ndev), names)
                ops += trg
        ops.append('P')
        cases.append(cfg(mode, ndev, src, q=r.choice([40, 40, 3]), slots=r.choice([5, 2]), t0=r.choice(T0S), hb=hb,
                         extra=r.choice(['', '', ' iso=127250,130999'])) + ' | ' + ' ; '.join(ops))


def gen_pending(r, cases, thorough):
    """pending product/configuration information and transport-protocol sessions that fall due inside a claim window"""
    for rep in range(60 if not thorough else 800):
        mode = r.choice([1, 2])
        ndev = r.choice([1, 2])
        src = r.choice([0, 1, 5])
        own = [own_addr(src, i) for i in range(ndev)]
        target = r.randrange(ndev)
        ops = []
        y = r.random()
        if y < 0.4:
            # product information cannot be sent (driver refuses, queue too small): it is rescheduled 187+src*8 ms later
            ops += ['A ' + '0' * r.choice([3, 30, 60]), iso_request(50, own[target], r.choice([126996, 126998])), 'P', 'T %d' % r.choice([100, 150, 180]), 'A']
        elif y < 0.7:
            ops += [smsg(r, target, pgn=130816, n=r.choice([20, 40]), tp=1, dst=255), 'T 51', 'P']
        else:
            ops += [smsg(r, target, pgn=130816, n=r.choice([20, 40]), tp=1, dst=50), tp_cm(50, own[target], 17, 1, 1, 255, 255, 130816), 'P']
        trg, own2 = trigger(r, ndev, own, target, [dev_name(i) for i in range(ndev)])
        ops += trg
        for _ in range(r.randint(2, 6)):
            ops.append('T %d' % r.choice([1, 20, 50, 51, 60, 100, 251]))
            ops.append(r.choice(['P', 'P', 'F', tp_cm(50, own2[target], 17, 2, r.choice([1, 2, 3]), 255, 255, 130816)]))
        ops.append('P')
        cases.append(cfg(mode, ndev, src, q=r.choice([1, 2, 40]), t0=r.choice(T0S)) + ' | ' + ' ; '.join(ops))


def gen_null(r, cases, thorough):
    """drive a device to the null address: lower-NAME claims for every address it tries"""
    for mode in (1, 2):
        for ndev in ((1, 2) if not thorough else (1, 2, 3)):
            src = r.choice([30, 200])
            ops = []
            a = src + ndev - 1              # the last device is the victim
            seq = []
            for _ in range(253):
                seq.append(a)
                a = 0 if a + 1 > 251 else a + 1
            per_poll = r.choice([1, 5, 20])
            for j in range(0, len(seq), per_poll):
                ops += [claim(x, 0) for x in seq[j:j + per_poll]] + ['P']
                if r.random() < 0.05:
                    ops += ['T 251', 'P']
            victim = ndev - 1
            tail = []
            for _ in range(12):
                tail += r.choice([[smsg(r, victim)], [smsg(r, victim, pgn=60928, n=8)], [smsg(r, 0)], [iso_request(50, 255, r.choice([60928, 126996]))], ['P'],
                                  ['T %d' % r.choice([100, 251])], ['C %d' % victim], [iso_request(50, 254, 60928), 'P'], ['F']])
            cases.append(cfg(mode, ndev, src, t0=r.choice(T0S)) + ' | ' + ' ; '.join(ops + tail + ['P']))
            # ... and the same with a fixed tail: the window after the "cannot claim" announcement expires, then the application sends from
            # the device at the null address (source field of the message valid / above 251), the heartbeat comes due, requests arrive
            fixed = ['T 251', 'P', smsg(r, victim, pgn=127250, n=8, src=15), smsg(r, victim, pgn=129029, n=20, src=252), smsg(r, victim, pgn=60928, n=8, src=15),
                     iso_request(50, 255, 126996), 'P', 'T 61000', 'P', 'T 60000', 'P', smsg(r, victim, pgn=127250, n=8, src=0), smsg(r, 0, pgn=127250, n=8, src=15), 'P']
            cases.append(cfg(mode, ndev, src, t0=r.choice(T0S), hb=True) + ' | ' + ' ; '.join(ops + fixed))


def gen_backpressure(r, cases, thorough):
    """the D-05 region: frames queued under back-pressure, then a claim start, then the driver accepts again"""
    for rep in range(330 if not thorough else 5000):
        mode = r.choice([1, 1, 2])
        ndev = r.choice([1, 2, 3])
        src = r.choice([22, 30, 100])
        own = [own_addr(src, i) for i in range(ndev)]
        names = [dev_name(i) for i in range(ndev)]
        target = r.randrange(ndev)
        q = r.choice([1, 2, 3, 4])
        ops = ['A ' + '0' * r.randint(0, 6) + ''.join(r.choice('01') for _ in range(r.randint(0, 4)))]
        for _ in range(r.randint(1, 3)):
            ops.append(smsg(r, r.choice([target, target, r.randrange(ndev)]), pgn=r.choice(SINGLE + [129029])))
        trg, own = trigger(r, ndev, own, target, names)
        ops += trg
        for _ in range(r.randint(1, 5)):
            y = r.random()
            if y < 0.3:
                ops.append('T %d' % r.choice([0, 1, 100, 249, 250, 251, 300]))
            elif y < 0.45:
                ops.append('A ' + ''.join(r.choice('01') for _ in range(r.randint(0, 3))))
            elif y < 0.6:
                ops.append('F')
            elif y < 0.8:
                ops.append('P')
            else:
                ops += stimulus(r, ndev, own, r.randrange(ndev))
        ops += ['A', 'P']
        cases.append(cfg(mode, ndev, src, q=q, t0=r.choice(T0S)) + ' | ' + ' ; '.join(ops))


def commanded(r, peer, dst, name, newaddr, bam, split_poll=False):
    """a complete PGN 65240 transfer by ISO-TP: BAM (dst 255) or RTS/CTS to dst; 9 bytes = NAME + new address"""
    payload = list(name.to_bytes(8, 'little')) + [newaddr & 255]
    d = 255 if bam else dst
    ops = [tp_rts(65240, peer, d, 9, maxp=r.choice([255, 2, 1]), bam=bam)]
    if split_poll:
        ops.append('P')
    ops.append(tp_dt(peer, d, 1, payload[:7]))
    if split_poll and r.random() < 0.5:
        ops.append('P')
    ops.append(tp_dt(peer, d, 2, payload[7:]))
    return ops


def gen_commanded(r, cases, thorough):
    """commanded address (PGN 65240 by ISO-TP, both carriages) at various offsets relative to sends, requests, heartbeat, other claims"""
    offs = [0, 1, 2, 3, 50, 100, 249, 250, 251, 252, 300]
    for rep in range(170 if not thorough else 3000):
        mode = r.choice([1, 1, 1, 2, 2, 2, 3, 4, 0])
        ndev = r.choice([1, 2, 2, 3])
        src = r.choice([0, 22, 30, 100, 252 - ndev])
        own = [own_addr(src, i) for i in range(ndev)]
        names = [dev_name(i) for i in range(ndev)]
        target = r.randrange(ndev)
        hb = r.random() < 0.2
        peer = r.choice([50, 51, 77])
        ops = []
        if hb:
            ops.append('T %d' % r.choice([9100, 9150, 9199, 9200, 9201, 9250]))
        backp = r.random() < 0.15
        if backp:
            ops += ['A ' + '0' * r.randint(1, 4), smsg(r, target, pgn=r.choice(SINGLE))]
        for _ in range(r.randint(0, 2)):
            ops += stimulus(r, ndev, own, target)
        if r.random() < 0.15:       # a claim window already open when the command arrives
            trg, own = trigger(r, ndev, own, target, names)
            ops += trg + ['T %d' % r.choice([0, 100, 251])]
        # what is commanded
        y = r.random()
        others = [a for j, a in enumerate(own) if j != target]
        if y < 0.55:
            nm, na = names[target], r.choice([40, 41, 0, 251, 120])
        elif y < 0.65:
            nm, na = names[target], own[target]                       # the address it already has: no change
        elif y < 0.73:
            nm, na = names[target], r.choice([252, 253, 254, 255])    # not an address: no change
        elif y < 0.81:
            nm, na = r.choice([5, names[target] + 16, NAME0 - 1]), 40  # NAME of nobody
        elif y < 0.9 and others:
            nm, na = names[target], r.choice(others)                  # a sibling's address (D-04 region)
        else:
            nm, na = names[target], r.choice([40, 200])
        bam = r.random() < 0.45
        dst = own[target] if r.random() < 0.85 else r.choice(others + [99])     # RTS/CTS to another device / to nobody: ignored
        cmd = commanded(r, peer, dst, nm, na, bam, split_poll=r.random() < 0.4)
        ops += cmd
        changes = nm == names[target] and na <= 251 and na != own[target] and (bam or dst == own[target]) and mode in (1, 2)
        if changes:
            own = list(own)
            own[target] = na
        t = 0
        for m in sorted(r.sample(offs, r.randint(1, 5))):
            if m > t:
                ops.append('T %d' % (m - t))
                t = m
            if t == m and 'P' not in ops[-3:] and r.random() < 0.9:
                ops.append('P')
            for _ in range(r.randint(1, 3)):
                ops += stimulus(r, ndev, own, r.choice([target, target, r.randrange(ndev)]))
            if r.random() < 0.1:
                na2 = r.choice([60, 61, own[target]])
                ops += commanded(r, peer, own[target], names[target], na2, r.random() < 0.5) + ['P']
                if mode in (1, 2):
                    own = list(own)
                    own[target] = na2
        if backp:
            ops.append('A')
        ops.append('P')
        cases.append(cfg(mode, ndev, src, q=r.choice([40, 40, 3]) if not backp else r.choice([2, 3]), slots=r.choice([5, 3]), t0=r.choice(T0S), hb=hb) + ' | ' + ' ; '.join(ops))


def gen_late_config(r, cases, thorough):
    """configuration calls after the node has been initialised (SetN2kSource, sizing calls) are documented to have no effect: in particular
    the address cannot be changed behind the claim procedure"""
    for _ in range(12 if not thorough else 200):
        mode = r.choice([1, 2, 2])
        ndev = r.choice([1, 2])
        src = r.choice([22, 30, 100])
        ops = [smsg(r, 0, pgn=127250, n=8), 'P']
        for _k in range(r.randint(1, 3)):
            ops.append('Z %d %d' % (4 + r.randrange(ndev), r.choice([50, 51, src, 254, 0, 251])))
            ops += [smsg(r, r.randrange(ndev), pgn=r.choice(SINGLE + [129029])), 'T %d' % r.choice([0, 1, 100, 251]), 'P', iso_request(50, 255, 60928), 'P']
        ops += ['Z 0 3', 'Z 1 1', smsg(r, 0, pgn=129029), 'P']
        cases.append(cfg(mode, ndev, src, t0=r.choice(T0S)) + ' | ' + ' ; '.join(ops))


def gen_wrap_edges(r, cases, thorough):
    """claim windows whose end falls on the values the 32-bit scheduler treats specially (2^32-1 = 'disabled', 0) or next to them: the claim
    starts 250 ms before (seed C04-15); sends of the claiming device 1 ms .. 251 ms later"""
    for end in (0xFFFFFFFF, 0, 1, 0xFFFFFFFE, 0x7FFFFFFF, 0x80000000):
        for ndev in (1, 2):
            t0 = (end - 250) % M32
            if t0 < 2000:
                t0 += M32
            k = ndev - 1
            ops = ['C %d' % k]
            for dt in (1, 99, 100, 49, 1, 1, 50):
                ops += ['T %d' % dt, smsg(r, k, pgn=127250, n=8), 'P' if r.random() < 0.4 else smsg(r, 0, pgn=127488, n=8)]
            cases.append(cfg(r.choice([1, 2]), ndev, 21, t0=t0) + ' | ' + ' ; '.join(ops))


def gen_api(r, cases, thorough):
    """public calls of the application (SendProductInformation, SendConfigurationInformation, SendTx/RxPGNList, SendHeartbeat, SendIsoAddressClaim,
    Restart, SetDeviceInformation[Instances], SetMode, list setters): inside and outside claim windows, at the null address, on cold nodes"""
    from nodegen import random_history_api, api_op
    for _ in range(120 if not thorough else 2500):
        cases.append(random_history_api(r, n_ops=r.choice([10, 25, 40])))
    senders = ['Q pi %d', 'Q ci %d', 'Q tx 255 %d 0', 'Q rx 50 %d 0', 'Q hd %d', 'Q tx 50 %d 1']
    for mode in (1, 2, 0, 3, 4):
        for _ in range(4 if not thorough else 40):
            ndev = r.choice([1, 2, 3])
            src = r.choice([22, 100, 250])
            own = [own_addr(src, i) for i in range(ndev)]
            k = r.randrange(ndev)
            ops = []
            for _j in range(r.randint(3, 6)):
                ops += [r.choice(['C %d' % k, 'X', claim(own[k], 0), 'C %d' % k]), 'P' if r.random() < 0.5 else 'T 0', 'T %d' % r.choice([0, 1, 100, 249, 250, 251, 252, 300])]
                for _s in range(r.randint(1, 4)):
                    ops.append(r.choice(senders) % r.choice([k, k, r.randrange(ndev), -1, ndev]))
                ops += [r.choice(['Q hb 1', 'Q hb 0', 'Q ac 255 %d 0' % k, 'Q ac 255 %d 2' % k, 'I %d 1 2 3' % k, 'P']), 'P']
            cases.append(cfg(mode, ndev, src, t0=r.choice(T0S), hb=r.random() < 0.3) + ' | ' + ' ; '.join(ops))
    # cold nodes: the sending calls open the node through SendMsg; nothing may leave before the interface has settled
    for _ in range(10 if not thorough else 100):
        ndev = r.choice([1, 2])
        ops = []
        for _j in range(r.randint(5, 12)):
            ops += ['T %d' % r.choice([0, 1, 100, 199, 200, 201, 50]), (r.choice(senders) % r.randrange(ndev)) if r.random() < 0.7 else r.choice(['P', 'Q hb 1', 'X', 'Q ac 255 0 0'])]
        cases.append(cfg(r.choice([1, 2, 3, 4, 0]), ndev, r.choice([22, 100]), t0=r.choice(T0S), cold=True) + ' | ' + ' ; '.join(ops))


def gen(seed, tier):
    r = random.Random(seed * 7919 + 4)
    thorough = tier != 'quick'
    cases = []
    gen_cold(r, cases, thorough)
    gen_windows(r, cases, thorough)
    gen_pending(r, cases, thorough)
    gen_null(r, cases, thorough)
    gen_backpressure(r, cases, thorough)
    gen_commanded(r, cases, thorough)
    gen_late_config(r, cases, thorough)
    for _ in range(150 if not thorough else 3000):
        cases.append(random_history(r, n_ops=r.choice([10, 25, 40])))
    gen_api(r, cases, thorough)
    gen_wrap_edges(r, cases, thorough)
    return cases
