# C14 - each received message reaches every matching handler exactly once:
# generator (exhaustive small operation histories + random long ones), independent Python oracle, correspondence
import random, itertools
import vlib

NPOOL = 6
BIG = 4294967295


def run_tokens(pgns):
    """RunMessageHandlers on both buses for every PGN class: all-PGN (0), every handler PGN, PGNs below / between / above"""
    ms = sorted(set([0, 1, 128000, BIG] + [p for p in pgns]))
    return ['r%d:%d' % (b, m) for b in (1, 2) for m in ms]


def exhaustive(pgns, L, precreated=False, with_create=True):
    """all histories of exactly 1..L state-changing operations over handlers 0..n-1 (handler i always has PGN pgns[i]),
    up to the symmetries bus 1 <-> bus 2 (while nothing is attached) and handler <-> handler of equal PGN (while dead);
    operations the harness would ignore (dead object / live slot) are not enumerated.  yields token lists"""
    n = len(pgns)
    out = []

    def rec(state, seq):
        # state: tuple per handler: None = dead, 0 = alive unattached, 1 / 2 = attached to that bus
        if seq:
            out.append(list(seq))
        if len(seq) == L:
            return
        nothing_attached = not any(s in (1, 2) for s in state)
        buses = (1,) if nothing_attached else (1, 2)
        seen_dead = set()
        for i in range(n):
            s = state[i]
            if s is None:
                if not with_create or pgns[i] in seen_dead:
                    continue
                seen_dead.add(pgns[i])
                rec(state[:i] + (0,) + state[i + 1:], seq + ['c%d:%d' % (i, pgns[i])])
                for b in buses:
                    rec(state[:i] + (b,) + state[i + 1:], seq + ['c%d:%d:%d' % (i, pgns[i], b)])
            else:
                for b in buses:
                    rec(state[:i] + (b,) + state[i + 1:], seq + ['a%d:%d' % (i, b)])
                # detach through the other bus object than the one it is attached to (the library uses the handler's own bus)
                via = '' if s == 0 else ':%d' % (3 - s)
                rec(state[:i] + (0,) + state[i + 1:], seq + ['d%d%s' % (i, via)])
                if with_create:
                    rec(state[:i] + (None,) + state[i + 1:], seq + ['x%d' % i])

    rec(tuple(0 if precreated else None for _ in range(n)), [])
    return out


def gen(seed, tier):
    r = random.Random(seed * 104729 + 14)
    thorough = tier != 'quick'
    cases = []
    k = 0

    def emit(prefix, seq, pgns):
        nonlocal k
        k += 1
        cb = ['k1:1', 'k2:1'] if k % 2 else []          # same flag on both buses: keeps the bus symmetry used for pruning
        cases.append('H ' + ' '.join(cb + prefix + seq + run_tokens(pgns)))

    # --- exhaustive histories over small handler sets taken from {0, 0, 127250, 127250, 129029}
    if thorough:
        plans = [([0, 0], 7), ([0, 127250], 7), ([127250, 127250], 7),
                 ([0, 0, 127250], 6), ([0, 127250, 127250], 6), ([127250, 127250, 129029], 5), ([0, 127250, 129029], 5),
                 ([0, 0, 127250, 127250], 5), ([0, 127250, 127250, 129029], 4)]
    else:
        plans = [([0, 0, 127250], 5), ([0, 127250, 127250], 5), ([127250, 127250, 129029], 4), ([0, 127250, 129029], 4),
                 ([0, 0, 127250, 127250], 4)]
    for pgns, L in plans:
        for seq in exhaustive(pgns, L):
            emit([], seq, pgns)
    # --- the property's handler set, all five created unattached, then every history of attach / detach
    full = [0, 0, 127250, 127250, 129029]
    pre = ['c%d:%d' % (i, p) for i, p in enumerate(full)]
    for seq in exhaustive(full, 4 if thorough else 3, precreated=True, with_create=False):
        emit(pre, seq, full)
    # --- every insertion order of the five handlers into one list, then each single detach / destroy / move, then attach again
    for perm in itertools.permutations(range(5)):
        att = ['a%d:1' % i for i in perm]
        for j in range(5):
            emit(pre, att + run_tokens(full) + ['d%d' % j] + run_tokens(full) + ['a%d:1' % j], full)
            if thorough or (sum(perm[:2]) + j) % 3 == 0:
                emit(pre, att + ['a%d:2' % j] + run_tokens(full) + ['a%d:1' % j], full)
                emit(pre, att + ['x%d' % j] + run_tokens(full) + ['c%d:%d:1' % (j, full[j])], full)
    # --- random long histories: six objects, PGNs incl. boundaries, operations on dead objects / live slots (ignored), runs in between
    pool = [0, 0, 0, 1, 59904, 60928, 126208, 127250, 127250, 127250, 129029, 129029, 130816, BIG]
    for _ in range(3000 if thorough else 400):
        n = r.randint(5, 150) if r.random() < 0.9 else r.randint(150, 600)
        few = r.random() < 0.5
        mypool = r.sample(pool, 3) if few else pool
        toks = []
        for _ in range(n):
            x = r.random()
            i = r.randrange(NPOOL)
            if x < 0.22:
                p = r.choice(mypool)
                toks.append(r.choice(['c%d:%d' % (i, p), 'c%d:%d:1' % (i, p), 'c%d:%d:2' % (i, p)]))
            elif x < 0.47:
                toks.append('a%d:%d' % (i, r.randint(1, 2)))
            elif x < 0.60:
                toks.append(r.choice(['d%d', 'd%d:1', 'd%d:2']) % i)
            elif x < 0.70:
                toks.append('x%d' % i)
            elif x < 0.75:
                toks.append('k%d:%d' % (r.randint(1, 2), r.randint(0, 1)))
            else:
                toks.append('r%d:%d' % (r.randint(1, 2), r.choice(mypool + [0, 2, 128000])))
        cases.append('H ' + ' '.join(toks + run_tokens(mypool)))
    return cases


def oracle(case, res):
    """independent reference: a map handler -> (PGN, bus) and a callback flag per bus; every RunMessageHandlers must call
    exactly the handlers attached to that bus with PGN 0 or the message's PGN, each once, and the callback once iff set"""
    if res.startswith('crash'):
        return 'memory:%s' % res
    if res == 'badcase':
        return None
    toks = case.split()[1:]
    parts = res.split('|')
    got_runs = parts[0].split()
    objs = {}                      # id -> [pgn, bus or 0]
    cb = {1: False, 2: False}
    gi = 0
    for t in toks:
        f = t[1:].split(':')
        c = t[0]
        if c == 'c':
            i = int(f[0])
            if i not in objs:
                objs[i] = [int(f[1]), int(f[2]) if len(f) > 2 else 0]
        elif c == 'a':
            i = int(f[0])
            if i in objs:
                objs[i][1] = int(f[1])
        elif c == 'd':
            i = int(f[0])
            if i in objs:
                objs[i][1] = 0
        elif c == 'x':
            objs.pop(int(f[0]), None)
        elif c == 'k':
            cb[int(f[0])] = f[1] != '0'
        elif c == 'r':
            b, m = int(f[0]), int(f[1])
            if gi >= len(got_runs):
                return 'dispatch:no output for %s' % t
            g = got_runs[gi]; gi += 1
            got = [] if g == '-' else g.split(',')
            if any(x.endswith('!') for x in got):
                return 'message:%s handed a different message to %s' % (t, g)
            exp = (['cb'] if cb[b] else []) + [str(i) for i, (p, ab) in sorted(objs.items()) if ab == b and (p == 0 or p == m)]
            if sorted(got) != sorted(exp):
                miss = [x for x in exp if got.count(x) < 1]
                dup = sorted({x for x in got if got.count(x) > 1})
                extra = sorted({x for x in got if x not in exp})
                return 'dispatch:%s (history %s) called [%s], required exactly once each [%s]; missed %s twice %s wrong %s' % (
                    t, ' '.join(toks[:toks.index(t)])[-200:], g, ','.join(exp) or '-', miss, dup, extra)
            # proved order: callback first, all-PGN handlers before PGN-specific ones
            if 'cb' in got and got[0] != 'cb':
                return 'order:%s callback not first in %s' % (t, g)
            ps = [objs[int(x)][0] for x in got if x != 'cb']
            if any(ps[j] != 0 and ps[j + 1] == 0 for j in range(len(ps) - 1)):
                return 'order:%s all-PGN handler called after a PGN-specific one in %s' % (t, g)
    if gi != len(got_runs):
        return 'dispatch:%d outputs for %d run operations' % (len(got_runs), gi)
    # the proved list invariant on the final state
    if len(parts) >= 3:
        if 'LEAK' in parts[2]:
            return 'inv:a handler list is not empty after destroying every handler'
        lists = parts[1].split()
        for b in (1, 2):
            ent = [] if lists[b - 1] == '-' else [x.split('@') for x in lists[b - 1].split(',')]
            if 'LOOP' in lists[b - 1]:
                return 'inv:list of bus %d is cyclic' % b
            ids = [int(x[0]) for x in ent]
            pg = [int(x[1]) for x in ent]
            if sorted(ids) != sorted(i for i, (p, ab) in objs.items() if ab == b) or len(set(ids)) != len(ids):
                return 'inv:list of bus %d holds %s, attached are %s' % (b, ids, sorted(i for i, (p, ab) in objs.items() if ab == b))
            if any(pg[j] > pg[j + 1] for j in range(len(pg) - 1)) or any(objs[i][0] != p for i, p in zip(ids, pg)):
                return 'inv:list of bus %d not sorted by PGN: %s' % (b, lists[b - 1])
        tab = parts[2].split()[:NPOOL]
        for i, x in enumerate(tab):
            want = 'x' if i not in objs else '%d:%d' % (objs[i][0], objs[i][1])
            if x != want:
                return 'inv:object %d records %s, expected %s' % (i, x, want)
    return None


def check(run, replay=None):
    cases = vlib.read_replay(replay) if replay else vlib.corpus_lines('C14') + gen(run.seed, run.tier)
    run.cov['rule'] = ('ALL histories of 1..L state-changing operations {construct (plain / with bus 1 / with bus 2), attach to bus 1 / 2 (incl. attaching again to the same '
                       'bus), detach (also through the other bus object, also when not attached), destroy} on two bus objects, up to bus and equal-PGN handler symmetry, half of '
                       'them with the plain callback set; quick: handler sets {0,0,127250}, {0,127250,127250} with L=5, {127250,127250,129029}, {0,127250,129029}, '
                       '{0,0,127250,127250} with L=4; thorough: two-handler sets {0,0}, {0,127250}, {127250,127250} with L=7, the three-handler sets with L=6/5, four-handler sets '
                       'with L=5/4; ALL attach/detach histories of length 1..3 (4 thorough) over the five handlers {0,0,127250,127250,129029}; all 120 insertion orders of those '
                       'five followed by each single detach / move to the other bus / destroy and re-create; random histories of 5..600 operations over six objects with PGNs '
                       'incl. 0, 1, 2^32-1 and operations on destroyed objects. Every history ends with RunMessageHandlers on both buses for PGN 0, every handler PGN and PGNs '
                       'below/between/above. Extracted model (with the abstract machine run alongside), C++ and the Python oracle are compared on every call list, the final '
                       'lists and the object table; non-trivial = distinct history')
    shared = bool(replay) and any(l.startswith('# family: rx-shared-') for l in open(replay))
    if shared or not replay:
        # "each received message reaches the handlers exactly once" at reassembly level: the cases and the oracle of C02 (every delivery is
        # the reassembly of frames received before it, each frame used once; within the slot capacity the deliveries are those of an unbounded
        # reference receiver, in order) - interleaved senders, losses, ISO-TP announcements in the middle of a fast packet, application PGN lists
        import p_C02
        scases = cases if shared else p_C02.gen(run.seed, run.tier)[::(3 if run.tier == 'quick' else 7)]
        for fs in ('w64', 'w32'):
            vlib.correspond(run, 'rx-shared-' + fs, 'h_node', fs, 'NODE', scases, p_C02.oracle, p_C02.nontrivial, known=p_C02.known, model_args=[fs])
        if shared:
            return
    vlib.correspond(run, 'handlers', 'h_handlers', 'w64', 'C14', cases, oracle, None)
    # second sentence of the property: node-level delivery (messages the library consumes are still passed on, each message once,
    # TP control/data frames never), through the shared node harness and model
    if not replay or any(c.startswith('NODE') for c in cases):
        import c14_node
        ncases = [c for c in cases if c.startswith('NODE')] if replay else c14_node.gen_node(run.seed, run.tier)
        for fs in ('w64', 'w32'):
            vlib.correspond(run, 'delivery-' + fs, 'h_node', fs, 'NODE', ncases, c14_node.oracle_node, None, model_args=[fs])
