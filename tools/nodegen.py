# Frame / history generators for the node harness (shared by the node-level property checks)
from nodesim import own_addr
import random

MODES = [1, 1, 1, 2, 2, 0, 3, 4]


def can_id(prio, pgn, src, dst):
    pf = (pgn >> 8) & 0xff
    if pf < 240:
        return (prio & 7) << 26 | (pgn & 0x3ff00) << 8 | dst << 8 | src
    return (prio & 7) << 26 | pgn << 8 | src


def rx(idv, data, ln=None, garbage=None):
    """R op: data = valid bytes; the remaining buffer bytes are driver garbage"""
    data = list(data)[:8]
    ln = len(data) if ln is None else ln
    buf = data + [(garbage if garbage is not None else 0) for _ in range(8 - len(data))]
    return 'R %x %d %s' % (idv, ln, bytes(buf).hex())


def fp_frames(r, sid, payload, announce=None):
    n = len(payload) if announce is None else announce
    frames = [[sid << 5, n & 255] + list(payload[:6])]
    rest = list(payload[6:])
    k = 1
    while rest:
        frames.append([(sid << 5 | k) & 255] + rest[:7])
        rest = rest[7:]
        k += 1
    for f in frames:
        while len(f) < 8:
            f.append(0xff)
    return frames


def sender_stream(r, pgn, src, dst, payload, prio=None, sid=None, fast=True):
    """frames (as R ops) of one well-formed message"""
    prio = r.choice([2, 3, 6]) if prio is None else prio
    idv = can_id(prio, pgn, src, dst)
    if not fast:
        return [rx(idv, payload[:8], garbage=r.choice([0, 0xff, 0x5a]))]
    sid = r.randrange(8) if sid is None else sid
    return [rx(idv, f) for f in fp_frames(r, sid, payload)]


def tp_rts(pgn, src, dst, nbytes, maxp=255, bam=False, prio=7):
    npk = (nbytes + 6) // 7
    d = [32 if bam else 16, nbytes & 255, (nbytes >> 8) & 255, npk & 255, maxp, pgn & 255, (pgn >> 8) & 255, (pgn >> 16) & 255]
    return rx(can_id(prio, 60416, src, 255 if bam else dst), d)


def tp_dt(src, dst, k, chunk, prio=7):
    d = [k & 255] + list(chunk)
    while len(d) < 8:
        d.append(0xff)
    return rx(can_id(prio, 60160, src, dst), d)


def tp_cm(src, dst, ctrl, b1, b2, b3, b4, pgn, prio=7):
    return rx(can_id(prio, 60416, src, dst), [ctrl, b1 & 255, b2 & 255, b3 & 255, b4 & 255, pgn & 255, (pgn >> 8) & 255, (pgn >> 16) & 255])


def iso_request(src, dst, pgn, ln=3, prio=6):
    return rx(can_id(prio, 59904, src, dst), [pgn & 255, (pgn >> 8) & 255, (pgn >> 16) & 255][:ln], garbage=0xff)


def claim(src, name, dst=255, ln=8):
    return rx(can_id(6, 60928, src, dst), list(name.to_bytes(8, 'little'))[:ln])


def backlog(r, k, significant):
    """ops: k ordinary single frames waiting in the driver in front of the significant frame(s), then polls - one ParseMessages call
    takes at most 20 frames, the rest stays in the driver for the next call (k around 20 puts the significant frame on either side)"""
    fill = [rx(can_id(r.choice([2, 3, 6]), r.choice([127250, 127488, 129025, 130306]), r.choice([50, 51, 60]), 255), [r.randrange(256) for _ in range(8)]) for _ in range(k)]
    return fill + list(significant) + ['P', 'T 5', 'P', 'T 260', 'P', 'T 5', 'P']


FAST_PGNS = [126996, 126998, 126464, 129029, 127489, 128275, 129540, 130816, 130900, 126720]
SINGLE_PGNS = [127250, 127488, 129025, 130306, 59392, 65300, 61184, 126992]
REQ_PGNS = [60928, 126464, 126996, 126998, 127250, 129029, 59904, 0, 130816, 127500, 130060, 65240, 126993, 126208, 0xffffff]


def cfg_line(r, ndev=None, mode=None, cold=None, hb=None, extra=''):
    ndev = r.choice([1, 1, 2, 3, 9]) if ndev is None else ndev
    mode = r.choice(MODES) if mode is None else mode
    src0 = r.choice([0, 22, 100, 240 - ndev, 252 - ndev, 250, 254 if ndev == 1 else 30])
    t0 = r.choice([5000, 4294966000, 4294967200, 2147483000, 2147484500, 10 ** 12, 70000])
    s = 'NODE mode=%d ndev=%d src=%d q=%d slots=%d t0=%d' % (mode, ndev, src0, r.choice([40, 40, 3, 1, 10]), r.choice([5, 5, 1, 2, 8]), t0)
    if (r.random() < 0.3) if cold is None else cold:
        s += ' cold=1'
    if (r.random() < 0.3) if hb is None else hb:
        s += ' hb=1'
    if r.random() < 0.3:
        s += ' iso=' + ','.join(str(p) for p in r.sample([127250, 129029, 127500, 130060, 65300, 126993], 3))
    if r.random() < 0.15:
        s += ' ok=1'
    if r.random() < 0.2:
        s += ' fp1=65300,120000'
    if r.random() < 0.3:
        s += ' tx0=129029,127489 rx0=127250,129026'
    if r.random() < 0.1 and ' tx0=' not in s:
        # long application lists: the PGN list answers (126464) are cut at 74 entries = 223 bytes
        s += ' tx0=%s rx0=%s' % (','.join(str(127000 + j) for j in range(r.choice([63, 64, 65, 90]))), ','.join(str(128000 + j) for j in range(r.choice([66, 67, 68, 85]))))
    if r.random() < 0.15:
        s += ' early=1'          # Open() before the configuration calls (effective for opened starts only)
    return s + extra, ndev, src0, mode


def random_history(r, n_ops=40, group_function=False):
    line, ndev, src0, mode = cfg_line(r)
    own = [own_addr(src0, i) for i in range(ndev)]
    peers = [50, 51, 52, own[0], 254, 255, 0, 251, 23]
    ops = []
    for _ in range(n_ops):
        x = r.random()
        if x < 0.12:
            ops.append('T %d' % r.choice([0, 1, 2, 49, 50, 51, 99, 100, 101, 200, 250, 251, 1000, 60000, r.randint(0, 300)]))
        elif x < 0.3:
            ops.append('P')
        elif x < 0.36:
            p = r.random()
            ops.append('A ' + ''.join('1' if r.random() < p else '0' for _ in range(r.randint(0, 12))))
        elif x < 0.44:
            pgn = r.choice(FAST_PGNS + SINGLE_PGNS + [60928, 59904, 0, 59905])
            n = r.choice([0, 3, 8, 9, 20, 100, 223])
            tp = 1 if r.random() < 0.3 else 0
            ops.append('S %d %d %d %d %d %d %s' % (r.randrange(-1, ndev + 1), r.choice([2, 3, 6, 7]), pgn, r.choice([0, 15, 252]), r.choice([255, 50, own[0]]), tp,
                                                    bytes(r.randrange(256) for _ in range(n)).hex() or '-'))
        elif x < 0.5:
            ops.append('F')
        elif x < 0.58:
            # address claim traffic: lower / higher / equal NAME, from our address or another, NAME 0 and all-ones, short frames
            nm = r.choice([0, 1, 0xc0328200ffc00001, 0xc0328200ffc00002, 0xc0328200ffc00000, 0xffffffffffffffff, r.getrandbits(64)])
            ops.append(claim(r.choice(own + [50, 254]), nm, ln=r.choice([8, 8, 8, 7, 0])))
        elif x < 0.68:
            dst = r.choice(own + [255, 255, 77])
            ops.append(iso_request(r.choice(peers), dst, r.choice(REQ_PGNS + [r.randrange(1 << 24)]) if (group_function or True) else 0, ln=r.choice([3, 3, 3, 2, 8, 0])))
        elif x < 0.78:
            pgn = r.choice(FAST_PGNS)
            src = r.choice(peers)
            dst = r.choice(own + [255]) if ((pgn >> 8) & 0xff) < 240 else 255
            n = r.choice([1, 5, 6, 7, 13, 14, 20, 100, 223])
            fr = sender_stream(r, pgn, src, dst, bytes(r.randrange(256) for _ in range(n)))
            y = r.random()
            if y < 0.2 and len(fr) > 1:
                del fr[r.randrange(len(fr))]          # lost frame
            elif y < 0.3:
                fr = fr[:r.randint(1, len(fr))]       # sender stops
            elif y < 0.35 and len(fr) > 2:
                i = r.randrange(1, len(fr)); fr[i - 1], fr[i] = fr[i], fr[i - 1]
            ops += fr
            if r.random() < 0.5:
                ops.append('P')
        elif x < 0.84:
            pgn = r.choice(SINGLE_PGNS)
            dst = r.choice(own + [255]) if ((pgn >> 8) & 0xff) < 240 else 255
            ops += sender_stream(r, pgn, r.choice(peers), dst, bytes(r.randrange(256) for _ in range(r.randint(0, 8))), fast=False)
        elif x < 0.94:
            # ISO-TP traffic towards us / broadcast, valid and malformed
            src = r.choice([50, 51])
            dst = r.choice(own + [255, 77])
            pgn = r.choice([130816, 65240, 126996, 127250, 129029, 0])
            n = r.choice([9, 14, 20, 40, 222, 223, 224, 300, 0, 5])
            y = r.random()
            if y < 0.5:
                payload = bytes(r.randrange(256) for _ in range(min(n, 223)))
                if pgn == 65240:
                    payload = r.choice([0xc0328200ffc00001, 0xc0328200ffc00002, 5]).to_bytes(8, 'little') + bytes([r.choice(own + [40, 254, 255, 252, 251, 0])])
                    n = 9
                ops.append(tp_rts(pgn, src, dst, n, maxp=r.choice([255, 1, 3, 5, 0]), bam=(dst == 255)))
                ops.append('P')
                npk = (len(payload) + 6) // 7
                order = list(range(1, npk + 1))
                z = r.random()
                if z < 0.15 and npk > 1:
                    order.pop(r.randrange(npk))
                elif z < 0.25 and npk > 1:
                    order.insert(r.randrange(npk), r.choice(order))
                for k in order:
                    ops.append(tp_dt(src, dst, k, payload[(k - 1) * 7:k * 7]))
                    if r.random() < 0.4:
                        ops.append('P')
                    if r.random() < 0.05:
                        ops.append('T %d' % r.choice([50, 101, 300]))
                    if r.random() < 0.04:
                        ops.append(claim(r.choice(own), 0))       # address loss in the middle of the session
            elif y < 0.75:
                ops.append(tp_cm(src, dst, r.choice([16, 17, 19, 32, 255, 0, 18]), r.randrange(256), r.randrange(256), r.randrange(256), r.randrange(256), pgn))
            else:
                ops.append(tp_dt(src, dst, r.randrange(256), bytes(r.randrange(256) for _ in range(7))))
        else:
            # raw random frame
            ops.append('R %x %d %s' % (r.getrandbits(29), r.randint(0, 8), bytes(r.randrange(256) for _ in range(8)).hex()))
    if r.random() < 0.7:
        ops.append('P')
    return line + ' | ' + ' ; '.join(ops)


def api_op(r, ndev, own):
    """one public call of the application (harness ops Q / I / D / X; Model/ApiDefs.v)"""
    idev = r.choice(list(range(ndev)) * 3 + [-1, ndev, ndev + 3])
    x = r.random()
    if x < 0.14:
        return 'Q ac %d %d %d' % (r.choice([255, 255, 50, own[0]]), idev, r.choice([0, 0, 1, 2, 50, 300]))
    if x < 0.26:
        return 'Q pi %d' % idev
    if x < 0.38:
        return 'Q ci %d' % idev
    if x < 0.48:
        return 'Q tx %d %d %d' % (r.choice([255, 50, 77]), idev, r.choice([0, 0, 0, 1]))
    if x < 0.58:
        return 'Q rx %d %d %d' % (r.choice([255, 50, 77]), idev, r.choice([0, 0, 0, 1]))
    if x < 0.68:
        return 'Q hb %d' % r.choice([0, 1, 1])
    if x < 0.72:
        return 'Q hd %d' % idev
    if x < 0.76:
        return 'Q hi %d %d' % (r.choice([0, 1000, 5000, 30000, 60000, 655320, 700000, 4294967295, 4294967294]), r.choice([-1, -1, 0, idev]))
    if x < 0.88:
        return 'I %d %d %d %d' % (idev, r.choice([255, 0, 1, 7, 8, 254]), r.choice([255, 0, 1, 31, 32, 200]), r.choice([255, 0, 1, 15, 16, 240]))
    if x < 0.96:
        return 'D %d %d %d %d %d %d' % (idev, r.choice([4294967295, 0, 1, 2097151, 2097152, 123456]), r.choice([255, 0, 130, 254]), r.choice([255, 0, 25, 127, 128]),
                                        r.choice([65535, 0, 2046, 2047, 2048, 275]), r.choice([255, 0, 4, 7, 8, 15]))
    if x < 0.975:
        return 'X'
    if x < 0.978:
        return 'W %s %d %s' % (r.choice('tr'), idev, ','.join(str(p) for p in r.sample(FAST_PGNS + SINGLE_PGNS + [65300, 130900, 127500, 129540, 130577, 128275], r.randint(0, 7))) or '-')
    if x < 0.982:
        return 'O %d %d' % (r.randrange(5), r.randrange(2))
    if x < 0.985:
        hx = lambda n: bytes(r.choice(b'ABCabc0123 -./') for _ in range(n)).hex() or '-'
        return 'K %s %s %s %s %s' % (r.choice('sp'), hx(r.choice([0, 5, 31, 32, 33])), hx(r.choice([0, 7, 32])), hx(r.choice([0, 3, 32, 40])), hx(r.choice([0, 8, 32])))
    if x < 0.99:
        return 'L %d %s' % (r.randrange(4), ','.join(str(p) for p in r.sample(FAST_PGNS + SINGLE_PGNS + [65300, 130900, 127500], r.randint(0, 3))) or '-')
    return 'M %d %d' % (r.choice([0, 1, 2, 3, 4]), r.choice([own[0], 30, 251, 100, 254]))


def random_history_api(r, n_ops=40):
    """random_history with public calls mixed in (about one op in four)"""
    case = random_history(r, n_ops)
    head, ops = case.split(' | ', 1)
    cfg = dict(kv.split('=', 1) for kv in head.split()[1:] if '=' in kv)
    ndev, src0 = int(cfg.get('ndev', 1)), int(cfg.get('src', 22))
    own = [own_addr(src0, i) for i in range(ndev)]
    out = []
    for o in ops.split(' ; '):
        out.append(o)
        if r.random() < 0.3:
            out.append(api_op(r, ndev, own))
    return head + ' | ' + ' ; '.join(out)
