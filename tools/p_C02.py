# C02 - received frames are reassembled into exactly the messages that were sent: generator, independent oracle, correspondence
# (node harness, both timer builds).  The oracle is written from the property text:
#  (a) SAFETY, every case: every delivery is justified by frames fed before it - a first frame with the delivery's priority, PGN, source and
#      destination announcing its length, followed by continuation frames of the same PGN, source and destination with consecutive sequence
#      bytes, whose data is the payload; every frame justifies at most one delivery; never more than 223 bytes;
#      single-frame PGNs: one frame, length = DLC, payload = the DLC valid bytes.
#  (b) COMPLETENESS, cases within capacity: the deliveries are exactly those of the reference receiver of c02_gen.Ideal, in order, at the
#      poll that consumes the completing frame.
import random
import vlib
from nodesim import parse_case, parse_result, ref_class
import c02_gen as G

MAX_POLL = 20          # ParseMessages handles at most 20 frames per call (documented behaviour, part of the property's quantifier)

def frames_of(ops):
    out = []
    for k, o in enumerate(ops):
        if o and o[0] == 'R':
            buf = list(bytes.fromhex(o[3]))[:8]
            buf += [0] * (8 - len(buf))
            out.append((k, int(o[1], 16), int(o[2]), buf))
    return out


def justify(d, frames, upto, used, cfg, same_dst=True):
    """search an index sequence justifying delivery d among frames[0:upto]; returns list of frame positions or None"""
    _, pri, pgn, src, dst, ln, data = d
    cls = G.pgn_class(pgn, cfg)
    cands = []
    if cls in ('single', None):
        for i in range(upto - 1, -1, -1):
            k, idv, dlc, buf = frames[i]
            if i in used:
                continue
            if G.decode_id(idv) == (pri, pgn, src, dst) and dlc == ln and buf[:dlc] == data:
                return [i]
        if cls == 'single':
            return None
    if ln > 223:
        return None
    # fast packet: first frame candidates, latest first
    budget = [20000]
    dec = [G.decode_id(f[1]) for f in frames[:upto]]

    def extend(seq, have, b0):
        if have >= ln:
            return seq
        budget[0] -= 1
        if budget[0] < 0:
            return 'budget'
        k = len(seq)
        for j in range(seq[-1] + 1, upto):
            if j in used:
                continue
            p2, g2, s2, d2 = dec[j]
            if g2 != pgn or s2 != src or (same_dst and d2 != dst):
                continue
            _, _, dlc, buf = frames[j]
            if buf[0] != b0 + k:
                continue
            chunk = buf[1:dlc][:223 - have]
            seg = data[have:have + len(chunk)]
            if chunk[:len(seg)] != seg:
                continue
            r = extend(seq + [j], have + len(chunk), b0)
            if r:
                return r
        return None

    for i in range(upto - 1, -1, -1):
        if i in used or dec[i] != (pri, pgn, src, dst):
            continue
        _, _, dlc, buf = frames[i]
        if buf[0] & 31 != 0 or buf[1] != ln:
            continue
        chunk = buf[2:dlc]
        if chunk[:ln] != data[:len(chunk)]:
            continue
        r = extend([i], len(chunk), buf[0])
        if r == 'budget':
            return 'budget'
        if r:
            return r
    return None


def oracle(case, res):
    if res.startswith('crash'):
        return 'memory:' + res
    cfg, ops = parse_case(case)
    per_op, state = parse_result(res)
    frames = frames_of(ops)
    # option calls at run time (before any frame): SetHandleOnlyKnownMessages decides what is handled; the forwarding options do not
    for o in ops:
        if o and o[0] == 'R':
            break
        if o and o[0] == 'O' and len(o) >= 3 and o[1] == '0':
            cfg = dict(cfg)
            cfg['ok'] = 1 if o[2] == '1' else 0
    ideal = G.Ideal(cfg)
    now = cfg.get('t0', 0)
    fed = 0          # frames fed so far
    consumed = 0
    used = set()
    loose_from = None
    ndlv = 0
    for k, o in enumerate(ops):
        evs = per_op[k] if k < len(per_op) else []
        dl = [e for e in evs if e[0] == 'dlv']
        if not o:
            continue
        if o[0] == 'T':
            now += int(o[1])
        elif o[0] == 'R':
            fed += 1
        if o[0] != 'P':
            if dl:
                return 'spurious:op %d (%s) delivered %d message(s) outside ParseMessages' % (k, o[0], len(dl))
            continue
        # --- reference receiver consumes up to MAX_POLL frames
        exp = []
        take = min(MAX_POLL, fed - consumed)
        was_strict = ideal.strict
        for i in range(consumed, consumed + take):
            _, idv, dlc, buf = frames[i]
            exp += ideal.frame(idv, dlc, buf, now)
        consumed += take
        # --- (a) safety
        for d in dl:
            ndlv += 1
            if d[5] > 223 or d[5] < 0:
                return 'overlong:op %d delivered a message of %d bytes (pgn %d src %d)' % (k, d[5], d[2], d[3])
            if len(d[6]) != d[5]:
                return 'length:op %d delivery says %d bytes, carries %d' % (k, d[5], len(d[6]))
            j = justify(d, frames, consumed, used, cfg)
            if j == 'budget':
                continue
            if j is None:
                if justify(d, frames, consumed, set(), cfg):
                    return 'reuse:op %d delivery pgn %d src %d dst %d len %d is only justified by frames that already justified another delivery' % (k, d[2], d[3], d[4], d[5])
                if justify(d, frames, consumed, used, cfg, same_dst=False):
                    return 'mixed-dst:op %d delivery pgn %d src %d dst %d len %d combines frames addressed to different destinations' % (k, d[2], d[3], d[4], d[5])
                if justify(d, frames, fed, used, cfg):
                    return 'early:op %d delivery pgn %d src %d uses frames ParseMessages should not have read yet' % (k, d[2], d[3])
                return 'unjustified:op %d delivery pri %d pgn %d src %d dst %d len %d data %s is not the reassembly of any received frame sequence' % (
                    k, d[1], d[2], d[3], d[4], d[5], bytes(d[6]).hex()[:60])
            used.update(j)
        # --- (b) completeness
        if was_strict and ideal.strict:
            got = [tuple(d[1:6]) + (tuple(d[6]),) for d in dl]
            want = [tuple(e[:5]) + (tuple(e[5]),) for e in exp if e is not None]
            if got != want:
                miss = [w for w in want if w not in got]
                extra = [g for g in got if g not in want]
                key = 'complete-dst' if 'cross-dst' in ideal.features else 'complete'
                return '%s:op %d (poll): %d delivered, %d expected; missing %s extra %s [slots=%d features=%s]' % (
                    key, k, len(got), len(want), str([(m[1], m[2], m[3], m[4]) for m in miss])[:200], str([(m[1], m[2], m[3], m[4]) for m in extra])[:200],
                    ideal.slots, ','.join(sorted(ideal.features)))
    return None


def known(case, what):
    for k in vlib.known_findings('C02'):
        if what.startswith(k['key']):
            return k['line']
    return None


def gen(seed, tier):
    r = random.Random(seed * 7919 + 2)
    thorough = tier != 'quick'
    mul = 50 if thorough else 1
    cases = []
    for _ in range(1250 * mul):
        cases.append(G.random_stream(r))
    for _ in range(60 * mul):
        cases.append(G.random_stream(r, big=True))
    # every length 0..223 (fast packet, padded and true-DLC last frames) and 0..8 (single frame)
    for pgn, short in ((129029, False), (126720, True), (130816, False)):
        for lo in range(0, 224, 16):
            cases.append(G.all_lengths_case(r, pgn, True, lo, min(224, lo + 16), slots=r.choice([1, 5]), mode=r.choice([0, 2]), short=short))
    for pgn in (127250, 61184, 65300):
        cases.append(G.all_lengths_case(r, pgn, False, 0, 9))
    for _ in range(40 * mul):
        cases.append(G.overlong_case(r))
    for _ in range(120 * mul):
        cases.append(G.dlc_case(r))
    for t0 in G.ORIGINS:
        for dt in (99, 100, 101):
            for slots in (1, 3):
                cases.append(G.eviction_case(r, dt, t0, slots))
    for _ in range(120 * mul):
        cases.append(G.eviction_case(r))
    for _ in range(100 * mul):
        cases.append(G.more_senders_than_slots(r))
    for _ in range(12 * mul):
        cases.append(G.late_sizing_case(r))
    for _ in range(60 * mul):
        cases.append(G.bam_occupancy_case(r))
    for _ in range(30 * mul):
        cases.append(G.own_bam_case(r))
    for _ in range(100 * mul):
        cases.append(G.restart_case(r))
    for _ in range(60 * mul):
        cases.append(G.cross_destination_case(r))
    for _ in range(6 * mul):
        cases.append(G.stale_duplicate_case(r))
    if thorough:
        for slots in (1, 2, 5):
            cases += G.exhaustive_two_senders(r, slots)
        cases += G.exhaustive_two_senders(r, 0)     # both senders use the same PGN (distinct sources), one slot
    return cases


def nontrivial(case, mres):
    return 'dlv:' in mres


def check(run, replay=None):
    cases = vlib.read_replay(replay) if replay else vlib.corpus_lines('C02') + gen(run.seed, run.tier)
    run.cov['rule'] = ('per case one listening node (mode 0 ListenOnly / 2 ListenAndNode, own address 22, 1..8 reassembly slots, clock origins 5000, 2^31+-k, 2^32+-k, 2^33-50, 10^12) fed '
                       'with the interleaved frame streams of 1..8 well-formed senders (1..2 PGNs each: broadcast/addressable fast packet incl. mandatory, proprietary and application-list '
                       'PGNs, single frame incl. proprietary and application-list; payload lengths 0..223, every length once per family case) with loss patterns none/single/burst/tail/head, '
                       'duplicated and swapped frames, restarted messages, true-DLC last frames, DLC 0..7 on fast-packet PGNs with chosen garbage, announced lengths 224..255, polls at random '
                       'points (<= 20 frames per poll), ticks around the 100 ms slot reuse (99/100/101), more senders than slots, ISO-TP announcements occupying slots (from bystanders, and from the sender of a fast packet in the middle of it), messages of one '
                       'sender to different destinations; thorough adds all interleavings of 2 senders x 3 frames x all 64 drop patterns for 1,2,5 slots and for a shared PGN.  Oracle: '
                       'every delivery justified by frames fed before it, each frame used once, <= 223 bytes (all cases); deliveries = those of an unbounded reference receiver, in order '
                       '(cases within capacity).  Model and C++ (both scheduler builds) compared on every event and on the slot table.  non-trivial = case with at least one delivery')
    for fs in ('w64', 'w32'):
        vlib.correspond(run, 'rx-' + fs, 'h_node', fs, 'NODE', cases, oracle, nontrivial, known=known, model_args=[fs])
