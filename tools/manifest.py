#!/usr/bin/python3
# Regenerates /verif/MANIFEST.json from the table below (kept here so that the manifest is always valid and consistent).
import json, os
V = os.path.dirname(os.path.dirname(os.path.abspath(__file__)))
TB = ('Coq 8.16.1 kernel (coqc, full .vo builds, vm_compute; no native_compute); no axioms declared by the development (Print Assumptions of every property theorem is parsed on every run and '
      'must be closed or list only named standard-library axioms); extraction with ExtrOcamlBasic only (no Extract Constant/Inductive of our own; Z/positive/nat stay inductive) + OCaml 4.13 driver; '
      'the correspondence harness (g++ 12 -O1, ASan+UBSan+float-cast-overflow, exact-size heap buffers) and its generators; the hand-written model is tied to /repo/src by that correspondence, '
      'which is differential testing. ')
CLAIMED = {
 'C05': dict(text='The setter/parser model is REGENERATED from the C++ on every run (tools/cxx2coq.py: clang AST -> field-level IR, 279 of 285 functions) and interpreted in Coq over the proved numeric primitives; generic theorems '
                  'roundtrip_sound / guard_sound / locality (proved once, bit-level abstraction) turn one computed boolean per pair into the round-trip statement for all in-range arguments; 316 generated obligations are '
                  're-checked by vm_compute on every run, so a changed resolution, signedness, mask, order or missing PGN guard in the source breaks an obligation.  The translator is tied to the code by bit-exact '
                  'correspondence of every translated function (payload, return value, every parsed output incl. IEEE bit patterns).',
             note=TB + 'Trusted: the translator (cross-checked by the correspondence).  20 pairs with variable strings / conditional fields / repeated records and the 6 untranslated functions (five Append*, SetN2kPGN126996Progmem) '
                  'are covered by correspondence + oracle only.  Text-field content is C16.  Half-step bound in exact arithmetic (C06).  Four open known findings (PGN 127489 status 2, windlass event masks) with machine-checked '
                  'rt_check = false Examples.',
             design='6 C05', technique='Coq proof: generic theorems + per-pair obligations over a model regenerated from source by a translator; bit-exact correspondence'),
 'C15': dict(text='For the 32 listed PGNs the reference layout table (transcribed from the published definitions, DESIGN.md Appendix A -> Spec/RefLayouts.v, 165 fields) is compared with the REGENERATED setter IR by the proved generic '
                  'theorem layout_sound: one computed layout_matches obligation per PGN gives, for all in-range arguments, that every reference field sits at its bit position with its width, byte order, signedness and resolution; '
                  'the C++ setter bytes are additionally compared with the table run as an encoder; the enumerators an application names for the enumerated fields are compared with the published codes '
                  '(coq/Spec/RefEnums.v, 14 enumerations) on every run; the NAME of PGN 60928 as a node builds it from run-time configuration calls in either order is decoded against the published bit layout.',
             note=TB + 'Oracle = my transcription of the public layouts.  7 fields (126464 list, 126993 interval in ms, five 129029 fields) are outside the bit-level theorem and compared on the C++ output only.',
             design='6 C05/C15', technique='Coq proof: generic layout theorem + per-PGN obligations over the regenerated model; reference-encoder comparison'),
 'C09': dict(text='Theorems about gf_lib (Model/GroupFnDefs.v), the model of the PGN 126208 handlers (decision + execution through rsend), for every payload up to 223 bytes: exactly one answer to the requester for addressed '
                  'Request/Command/Read/Write, none for Acknowledge/replies/broadcast commands; Acknowledge codes equal an independent reference function; the requested PGN is sent iff every selection pair matches (60928, '
                  '126464, 126996, 126998); commands to 60928/126998 take effect and are read back through the ISO request path; heartbeat request limits.  Model tied to ~1000 lines of C++ by correspondence on node histories.',
             note=TB + 'Three open known findings (Command acknowledged for PGNs it cannot execute; refused command applied; malformed description accepted).  UCS-2 selection strings and cut pairs: correspondence only.',
             design='6 C09', technique='Coq proof over executable model + extracted-model/implementation correspondence'),
 'C07': dict(text='node_safe: for every group-function reaction satisfying an explicit contract (proved for the no-op instance and for the library model gf_lib), every cold node and EVERY operation list (arbitrary frames, DLC 0..8, '
                  'polls, ticks, sends): the model never indexes Devices[]/N2kCANMsgBuf[] out of range (sticky r_oob flag), never delivers more than 223 bytes, keeps its slot and queue invariants; one poll consumes at most 20 '
                  'frames; fuelled loops are fuel-independent.  The device-list half is heap_safe (no use of a freed entry, no index outside Sources[], every history), re-exported as C07_devlist_heap_safe.  Tied to the C++ by protocol-grammar fuzz, complete group-function traffic and device-list histories under ASan/UBSan with the library arrays relocated between inaccessible pages.',
             note=TB + 'Partial by nature: the theorem is about the abstract memory of the model; real memory safety of the C++ is evidenced by the sanitizer correspondence on the sampled histories, not proved.  The 20-frames-per-poll bound is stated for an open node: while the node waits out its open delay, Open() empties the driver queue on purpose (a loop that ends when the driver has no frame left; modelled as such).',
             design='6 C07', technique='Coq invariant proof over executable model + sanitizer-backed extracted-model/implementation correspondence'),
 'C08': dict(text='Theorems for all 2^24 requested PGNs (one quantifier), every requester and device: addressed requests to a device on the bus are answered with the claim / both PGN lists / product / configuration information '
                  '(payloads equal to reference layouts written from the published definitions) or the handler\'s choice or exactly one NAK to the requester; broadcast requests never originate a NAK; nothing while the claim is '
                  'pending; dispatch by destination; retry timing of refused information answers; the configuration information reported after SetConfigurationInformation is the reference layout of the configured strings cut to 70 characters (set_conf_info_content).  Tied to the C++ by correspondence; independent reference machine as oracle.',
             note=TB + 'Hypotheses named in Spec/IsoSpec.v (on_bus, driver_accepts, protocol_pgns_single, info_fits); the refuted unhypothesised readings (address above 251, NAK dropped when the queue is full) are machine-checked witnesses.',
             design='6 C08', technique='Coq proof over executable model + extracted-model/implementation correspondence'),
 'C18': dict(text='Theorems for every message history about a Gallina model of tN2kDeviceList (object-id heap with explicit freed state): no use of a freed entry, no index outside Sources[] (the C07 half); at most one entry '
                  'per non-zero NAME; by-NAME and by-source look-ups agree with an abstract NAME->address mirror for every undisplaced NAME; PGN lists and (ASCII) configuration information are reported back, the updated flag is '
                  'raised on every change; the product-information clause is refuted for the parked-device history (known finding) and proved without it; pacing_shift: the ISO requests the list sends are the same, message by message, for every clock origin (mod 2^32).  Model tied to the C++ by correspondence on message histories, each pacing history run from 11 clock origins.',
             note=TB + 'Known finding parked-device (machine-checked refutation C18_info_prod_refuted + replay).  The clock-origin dependence of the request pacing (D-20) was repaired in /repo (e1ce509) and is now a theorem (C18_pacing_shift).  '
                  'UCS-2 configuration strings and product-string extraction are tied by correspondence only; LP64 build.',
             design='6 C18', technique='Coq proof over executable model + extracted-model/implementation correspondence'),
 'C14': dict(text='Theorems for every history of create/attach/detach/destroy over two bus objects: the pointer-list model of AttachMsgHandler/DetachMsgHandler keeps both lists sorted, duplicate-free and consistent with each '
                  'handler\'s bus; RunMessageHandlers calls the callback once and exactly the attached handlers with PGN 0 or the message PGN, each once (refinement to a finite-map machine, plus the call order); destroyed or '
                  'detached handlers are never called; re-attaching moves.  Model, abstract machine and C++ compared on exhaustive bounded histories and random long ones.',
             note=TB + 'The clause about messages the library consumes itself / TP frames not being passed on is carried by the node model (rx_loop delivers every ready slot; TP.CM/TP.DT never yield one), see C07/C10.  '
                  'Not covered: a handler detaching or deleting itself inside HandleMsg (outside the property\'s quantifier; observed to skip later handlers).',
             design='6 C14', technique='Coq refinement proof (pointer list -> finite map) + extracted-model/implementation correspondence'),
 'C16': dict(text='Theorems about a Gallina model of the text primitives of N2kMsg.cpp: AddAISStr/AddVarStr never write beyond the 223-byte payload or read beyond the terminator for any string and any maximum, AddStr when the '
                  'maximum fits; the variable string field is well formed (length/type bytes consistent, every counted byte written); the sized readers never write beyond the destination and always terminate it; round trips for '
                  'fixed, AIS (independent alphabet mapping) and variable ASCII/BMP text (astral characters replaced).  Model tied to the C++ by correspondence with exact-size heap strings and canaried destinations.',
             note=TB + 'Modelled: N2kMsg.cpp string functions; x86-64 (signed char, glibc toupper on negative char tolerated); the UsePgm variants of the add functions are run beside the plain ones and must give the same bytes (program memory is ordinary memory on this host).',
             design='6 C16', technique='Coq proof over executable model + extracted-model/implementation correspondence'),
 'C17': dict(text='Theorems about a Gallina model of SendInActisenseFormat and tActisenseReader: every well-formed message (1..223 bytes, any escape density, any header) encodes to a frame that fits the buffer and is decoded '
                  'as exactly that one message after any byte prefix that does not end mid-escape; the reader never writes outside its buffers on any byte stream from any reachable state; it reports only on a consistent frame '
                  '(length, data length, checksum); ESC STX resynchronises independently of stale buffer content; ReadOut=false is equivalent.  Model tied to the C++ by correspondence on encode, decode (with every split point) and round trips.',
             note=TB + 'Modelled: N2kMsg.cpp (SendInActisenseFormat) and ActisenseReader.cpp; the forwarding path through tNMEA2000 calls the same encoder and is not separately modelled; x86-64 (signed char).',
             design='6 C17', technique='Coq proof over executable model + extracted-model/implementation correspondence'),
 'C01': dict(text='Theorems about the model of the send path: the 29-bit identifier carries priority, PGN, source and (PDU1) destination for all 2^17 PGNs x priorities x addresses (algebraic, no enumeration) and is refused '
                  'exactly for addressable PGNs with a low byte; the fast-packet frames of every payload up to 223 bytes decode to the payload under a reference decoder with correct counters, length byte and 0xFF padding; '
                  'sequence ids of declared PGNs are consecutive for every send history; classification agrees with an independent reference table; refusals are silent; an accepted message reaches the driver as exactly '
                  'those frames.  The PGN tables and constants are regenerated from the C++ on every run; model and C++ are compared on every driver frame, result and internal state in both scheduler builds.',
             note=TB + 'Known finding (machine-checked refutation C01_seq_unrestricted_refuted + replayed on the C++): sequence ids break once undeclared fast-packet PGNs are sent.  ISO-TP carriage is C10; queueing is C11.  '
                  'The translator tools/gen_tables.py (C preprocessor + pattern parser, cross-checked on every run by executing the compiled classification functions over every PGN below 2^24) is trusted for the tables; the reference classification Spec/PgnClassRef.v is my transcription.',
             design='6 C01', technique='Coq proof over executable model (tables regenerated from source) + extracted-model/implementation correspondence'),
 'C11': dict(text='Refinement theorems: one SendFrames/SendFrame of the ring model is one step of a FIFO list machine of capacity max-1 for every driver answer stream and every ring size >= 2; lifted to all operation '
                  'sequences (run_refines) with the corollary that accepted frames followed by the pending frames are exactly the frames whose send returned true, in order (no loss, duplicate or overtaking).  '
                  'Lifted to the whole node (C11_node_*): for EVERY operation of the node model - receive, poll, timers, application sends, ISO-TP, group functions with the library handlers, every public '
                  'call - the effect on send ring, driver and driver calls is a run of queue operations (node_step_qtrace), so over every history the driver calls are those of the list FIFO (node_run_fifo), '
                  'nothing accepted is lost or duplicated (node_no_loss_no_dup) and a refused frame is the next one offered (node_retry).  '
                  'Model and C++ compared on every CANSendFrame call under exhaustive accept/refuse patterns, random long histories and run-time mode switches with a backlog.',
             note=TB + 'Modelled: CANSendFrameBuf ring of NMEA2000.cpp; the driver is an answer stream (its re-scripting by the test environment, OAccept, is stated separately).  Driver-side buffering of concrete CAN drivers is out of scope.',
             design='6 C11', technique='Coq refinement proof (ring -> FIFO list machine) + extracted-model/implementation correspondence'),
 'C20': dict(text='Refinement theorems, for every operation sequence, every size up to 65535 and every priority count: the model of tRingBuffer answers exactly like a FIFO of capacity size-1 and the model of '
                  'tPriorityRingBuffer exactly like the span list machine (per-priority order, lowest priority first, refusal at span = size-1, holes not compacted); the span machine is shown to keep a live head and '
                  'per-priority FIFO order.  Model, extracted specification and C++ are compared per operation on exhaustive small scopes and long random sequences every run.',
             note=TB + 'Modelled, not verified: RingBuffer.tpp itself (values are uint32_t in the harness; memcpy of T is modelled as value copy).',
             design='6 C20', technique='Coq refinement proof (ring -> list machine) + extracted-model/implementation correspondence'),
 'C19': dict(text='Theorems for all strings / all messages about a hand-written Gallina model of Seasmart.cpp (import never reads past the terminator, export size rule, import(export m)=m, import soundness), '
                  'model tied to the current source by running extracted model and sanitizer build on the same generated cases every run.',
             note=TB + 'Modelled, not verified: the C++ itself (LP64, strtol/isxdigit/strncmp semantics as modelled in Model/SeasmartDefs.v).',
             design='6 C19', technique='Coq proof over executable model + extracted-model/implementation correspondence'),
 'C06': dict(text='Theorems for all codes / widths / offsets about a Gallina model of the numeric field primitives of N2kMsg.cpp (byte round trips incl. sign extension, range test and saturation, NA, '
                  'bounds rule of the getters, truncation of the 8-byte setter, exact rounding on half-integers); the three IEEE operations around a field are modelled by an unproved soft-float '
                  'validated bit-for-bit against the hardware on every run.',
             note=TB + 'Partial: IEEE rounding of v/precision, val+-0.5 and code*precision (Model/SoftFloat.v) is validated by correspondence only; the half-step bound is proved in exact arithmetic.',
             design='6 C06', technique='Coq proof over executable model + bit-exact extracted-model/implementation correspondence'),
 'C10': dict(text='Theorems about the ISO-TP part of the node model for every payload 9..223: RTS announces size, ceil(size/7) packets and the PGN; a CTS from the destination sends exactly min(grant, remaining) reference packets '
                  '(numbered from 1, 7 bytes, 0xFF padded), for ANY grant list 0..255 each packet exactly once; control frames from third stations change nothing; EndOfMsgAck/Abort/timeout end the session (exact expiry in both '
                  'scheduler builds) and later transfers proceed; BAM packets at least 50 ms apart; the receiver answers RTS with CTS / Abort (too long, unknown, no slot), appends in-sequence packets, acknowledges and delivers '
                  'exactly once with the embedded PGN; a gap frees the session and nothing of it is delivered; an abandoned session does not capture a later transfer; library-to-library transfer over a FIFO link delivers exactly '
                  'the payload (tp_lib_to_lib, every length).  Tied to the C++ by correspondence on sessions with dropped/duplicated/reordered frames and by a library-to-library co-simulation of two C++ nodes.',
             note=TB + 'Two defects found by refuted statements were repaired in /repo (b807027 foreign control frames, 7b28730 stale receive session); the statements are now proved positively.  Sizes outside 9..223 and the '
                  'per-CTS limit byte of the RTS (ignored by the library) are outside the property.',
             design='6 C10', technique='Coq proof over executable model + extracted-model/implementation correspondence'),
 'C03': dict(text='Generic theorems about an abstract network of claimants (library instances with several devices, foreign ISO 11783-5 nodes, bus without loop-back, multiset delivery = every interleaving): under node hypotheses R1..R5 '
                  'the invariant pairwise_cover holds in every reachable world, addresses are unique at quiescence (quiescent_unique) and a device yields only to a lower NAME (lower_name_wins).  Library theorems on the node model: '
                  'HandleISOAddressClaim satisfies R1..R5 (arbitration), the address search visits every address once before the null address (exhausted_run), the transmitted source is the reported one, every own-address change raises '
                  'the address-changed indication; library_node_hyps instantiates the generic theorems for networks of library and reference nodes.  Tied to the C++ by correspondence of a multi-node harness (h_net: several '
                  'tNMEA2000 instances + reference nodes) with the network model, plus exhaustive schedule exploration of the model network for 2..4 participants.  converges: every schedule of deliveries terminates (lexicographic measure), instantiated for library + reference nodes (library_converges, library_ends_unique): every schedule reaches a quiescent world with unique addresses.',
             note=TB + 'Partial: the instantiation is claim-level; claim_frame_dispatch proves that a claim frame in the driver queue of an open node with a free slot reaches handle_claim, the remaining link (nothing else in ParseMessages writes the '
                  'device address; a claim frame needs a free reassembly slot) is by correspondence.  Open known finding commanded-address:sibling-collision (D-04; machine-checked C03_commanded_collision_refuted), so library_quiescent_unique is proved for commanded addresses that avoid sibling '
                  'devices.  One defect repaired in /repo (7691b01: SetMode assigned addresses above 251).  Hypothesis: distinct NAMEs.',
             design='6 C03', technique='Coq invariant proof (generic network + instantiation with the node model) + extracted-model/implementation correspondence on a multi-node harness'),
 'C04': dict(text='Theorems about one step of the node from an ARBITRARY state, for every group-function reaction satisfying a send-side contract: a listen-only node never calls the driver; a node that is not open calls it '
                  'only in the Open() call that completes after the 200 ms settle delay (settle_delay from every cold node, both scheduler builds); every step refines an abstract machine in which a frame is handed to SendFrame '
                  'only in a state where it is entitled (node open, not listen-only, source = current address of a device whose claim is not pending and <= 251, or PGN 60928), everything else the driver sees is a flush of '
                  'the queue; application sends in the forbidden states return false and leave queue and driver untouched.  Tied to the C++ by correspondence on claim-window histories; oracle independent of the model.',
             note=TB + 'Open known findings claim-window:queued-frame-flushed / former-address:queued-frame-flushed (D-05): the wire-level reading is machine-checked false (C04_wire_level_refuted) because frames queued earlier are '
                  'flushed inside the window; wire_level is proved under the hypothesis that the queue holds no such frame.  Same root cause through a run-time SetMode(listen-only) with a backlog: known finding '
                  'listen-only:queued-frame-flushed (C04_runtime_listen_only_backlog_refuted; the listen-only statements carry the premise "send queue empty, as from construction").  Hypothesis clock_ok (64-bit clock below 2^63).  Debug modes dm_ClearText/dm_Actisense out of scope.  '
                  'gf contract proved for the no-op instance and for the library handlers (C04_gf_lib_ok).',
             design='6 C04', technique='Coq refinement proof (node step -> send-entitlement machine) + extracted-model/implementation correspondence'),
 'C02': dict(text='rx_no_corruption: for every group-function reaction satisfying a frame contract (proved for the library handlers), every clean node and EVERY operation list (any interleaving, any losses, any number of senders '
                  'and slots, any clock), each non-TP delivery is justified by an increasing run of arrived frames (one first frame, continuation frames with the same PGN/source/destination and consecutive sequence bytes, '
                  'announced length reached exactly at the last frame, payload/priority/addresses taken from them) and no frame justifies two deliveries; runs_are_sent ties such runs to ONE sent message unless 8 messages of '
                  'the PGN were started in between; rx_complete / rx_complete_run: from an idle table, with no more (PGN,source,destination) keys than slots, every complete in-order run is delivered whatever is interleaved - in one loop, and over whole histories (frames spread over any number of polls, arbitrary clock steps: no eviction can occur under the key bound); '
                  'over-long announcements never delivered; single frames delivered with DLC; supersede (always the slot of the key) and out-of-sequence discard.  Model tied to the C++ by correspondence on frame streams '
                  'incl. all interleavings of 2 senders x 3 frames x 64 drop patterns (thorough).',
             note=TB + 'The stale-slot defect found by the refuted completeness statement was repaired in /repo (797643b) and completeness is now proved.  rx_complete_run assumes the node stays open (stays_open) and counts the keys of all frames of the history against the slots; beyond that bound '
                  'the step theorems compose under the 100 ms slot-age hypothesis.  Exactly-once is given as at-most-once (NoDup of justifications) plus delivery; no ordering statement; ISO-TP deliveries are C10.',
             design='6 C02', technique='Coq invariant proof over executable model + extracted-model/implementation correspondence'),
 'C12': dict(text='Theorems about the heartbeat part of the node model: the next time is always the least grid point offset+k*period after now (late polling delays, never shifts); for every poll pattern a heartbeat is sent at '
                  'the first poll at or after each grid point; the interval field is the configured interval in 10 ms units for the whole settable range 1000..655320 ms and the sequence counter runs 0..252 and wraps, for '
                  'every history; clipping of application values; re-enabling and Open() resynchronise the scheduler; nodes that are not active bus devices (modes, unopened, claim pending) send none.',
             note=TB + 'Two defects found by the proofs were repaired in /repo (9a9419c re-enable, e3d90bc resync after SetSyncOffset).  The group-function path to the interval is C09.  Driver acceptance is a hypothesis of hb_schedule '
                  '(a refused heartbeat is not retried: it is skipped, as in the code).',
             design='6 C12', technique='Coq proof over executable model + extracted-model/implementation correspondence'),
 'C13': dict(text='node_shift_run: for every group-function reaction that commutes with a clock shift, every cold node and every operation list, the run with the clock origin moved by any d (both scheduler builds; 32-bit '
                  'wrap and the 64-bit roll counter included, polls at most 2^32-1 ms apart) yields the same events, and the final states are related by the shift; primitives (N2kIsTimeBefore, N2kHasElapsed, tN2kScheduler, '
                  'tN2kSyncScheduler, slot ageing, N2kMillis64) are shift-invariant and timers armed before the wrap fire on time.  Metamorphic correspondence: every generated history is run at several origins in the C++ '
                  'and in the model and the relative-time traces compared; the device-list request pacing is covered by C18_pacing_shift and its histories run from 11 origins (family devlist-pacing).',
             note=TB + 'Defects found and repaired: e3d90bc (heartbeat before Open scheduled on the absolute clock), b8b21e9 (SendHeartbeat(bool) before Open() decided "due" against the absolute clock); the device-list pacing dependence (D-20) was repaired (e1ce509) and is proved under C18 (C18_pacing_shift).  Hypothesis: consecutive clock reads less than '
                  '2^32 ms apart (otherwise the roll counter of N2kMillis64 misses a wrap; stated in millis64_gap).',
             design='6 C13', technique='Coq relational (two-run) invariant proof over executable model + metamorphic extracted-model/implementation correspondence'),
}
# the public-call layer (Model/ApiDefs.v): what the lifted theorems add, per property
API_TEXT = {
 'C02': ' The same statements are proved over histories that also contain the application\'s public calls (Model/ApiDefs.v: senders, Restart, SetMode, run-time setters; api_rx_no_corruption, api_rx_complete_run), '
        'with the calls that change the classification (list setters; for completeness also SetHandleOnlyKnownMessages) excluded and the unrestricted forms refuted by witnesses.',
 'C04': ' Every public call of the application except SetMode after initialisation (which re-addresses without announcing: api_set_mode_not_a_run) is a run of the same machine (api_produced_frames_entitled); listen-only, not-open and '
        'settle-delay statements hold for histories with these calls.  A CANOpen() that takes time or fails is outside the model: the oracle-only family settle-blocking judges the implementation there.',
 'C07': ' api_node_safe extends node_safe to histories with the public calls of the application (any device index, any argument within the C types).',
 'C12': ' The application\'s own heartbeat calls are covered (Spec/ApiHbSpec.v): silent on nodes that are not active bus devices, the unforced call is the poll\'s heartbeat step, forced heartbeats carry sequence 255, the configured '
        'interval and leave counter, period and offset alone while moving to the next grid point.',
 'C13': ' api_node_shift_run: the same for histories with the public calls of the application.',
}
for _k, _v in API_TEXT.items():
    CLAIMED[_k]['text'] += _v
def main():
    props = [json.loads(l) for l in open(os.path.join(V, 'properties.jsonl'))]
    done = [p for p in CLAIMED if os.path.exists(os.path.join(V, 'tools', 'p_%s.py' % p)) and os.path.exists(os.path.join(V, 'coq', 'Props', 'Properties_%s.v' % p)) and CLAIMED[p].get('ready', True)]
    m = {"version": 1, "setup_cmd": "./check --setup",
         "hooks": {"guard": "NMEA2000_VERIF",
                   "enable": "no source hooks: harnesses compile /repo/src as it is (g++ -fno-access-control, virtual clock through -DESP_PLATFORM + harness/fake_esp or the harness' millis())",
                   "baseline_off_cmd": "cmake --build /repo/_build && ctest --test-dir /repo/_build -j8 --timeout 900",
                   "source_commits": [], "add_only": True},
         "engines": [{"name": "N2kV", "path": "coq/", "serves_properties": sorted(done), "kind_free_text": "Coq 8.16 library: Model (executable Gallina), Spec (statements), Proofs, Props (property theorems + Print Assumptions), Extract"},
                     {"name": "correspondence", "path": "tools/ harness/ ocaml/", "serves_properties": sorted(done), "kind_free_text": "generators, sanitizer harnesses built from /repo/src, extracted-model drivers, property oracles"}],
         "checks": [], "not_applicable": []}
    for p in props:
        pid = p['id']
        if pid in done:
            c = CLAIMED[pid]
            m['checks'].append({"property_id": pid, "quick_cmd": "./check %s --tier quick" % pid, "thorough_cmd": "./check %s --tier thorough" % pid,
                                "evidence_file": "evidence/%s.json" % pid, "replay_cmd_template": "./check %s --replay {path}" % pid, "engine": "N2kV",
                                "level_claimed": {"category": "proof", "text": c['text'], "design_ref": c['design']}, "level_note": c['note'], "technique": c['technique']})
        else:
            m['not_applicable'].append({"property_id": pid, "reason": "not claimed yet: model/theorems/correspondence for this property are not built in this revision (build order in DESIGN.md section 9); the technique applies, the work is pending"})
    json.dump(m, open(os.path.join(V, 'MANIFEST.json'), 'w'), indent=1)
    print('claimed:', sorted(done))
if __name__ == '__main__':
    main()
