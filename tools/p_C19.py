# C19 - Seasmart ($PCDIN) export / import : generator, property oracle, correspondence
import random, re
import vlib

HEXU = '0123456789ABCDEF'


def sentence(pgn, ts, src, data, lower=False):
    b = '$PCDIN,%06X,%08X,%02X,%s' % (pgn, ts, src, ''.join('%02X' % x for x in data))
    if lower:
        b = '$PCDIN,' + b[7:].lower()
    ck = 0
    for c in b[1:]:
        ck ^= ord(c)
    return (b + '*%02X' % ck).encode('latin1')


def rand_msg(r):
    n = r.choice([0, 1, 2, 7, 8, 9, 100, 222, 223, r.randint(0, 223), r.randint(0, 223), r.randint(0, 40)])
    pgn = r.choice([0, 1, 0xFFFFFF, 0x01F119, 59904, 126996, r.randrange(1 << 24), r.randrange(1 << 17)])
    ts = r.choice([0, 1, 0xFFFFFFFF, 0x7FFFFFFF, 0x80000000, r.randrange(1 << 32)])
    src = r.choice([0, 15, 251, 254, 255, r.randrange(256)])
    mode = r.random()
    if mode < 0.2:
        data = [r.choice([0, 0xFF, 0x2A, 0x2C, 0x10]) for _ in range(n)]
    else:
        data = [r.randrange(256) for _ in range(n)]
    return pgn, ts, src, data


def gen(seed, tier):
    r = random.Random(seed * 1000003 + 19)
    scale = 1 if tier == 'quick' else 40
    cases = []
    imp = lambda b: cases.append('IMP ' + (bytes(b).hex() if len(b) else '-'))
    # --- export: every length against buffer sizes around the exact requirement
    for n in range(0, 224):
        pgn, ts, src, _ = rand_msg(r)
        data = [r.randrange(256) for _ in range(n)]
        need = 30 + 2 * n
        for size in sorted({0, 1, need - 2, need - 1, need, need + 1, need + 2, r.randint(0, need + 40)}):
            if size >= 0 and (tier != 'quick' or n % 7 == 0 or n > 216 or n < 9 or size in (need - 1, need)):
                cases.append('EXP %d %d %d %d %s' % (pgn, ts, src, size, bytes(data).hex() or '-'))
        cases.append('RT %d %d %d %s' % (pgn, ts, src, bytes(data).hex() or '-'))
    for _ in range(300 * scale):
        pgn, ts, src, data = rand_msg(r)
        cases.append('RT %d %d %d %s' % (pgn, ts, src, bytes(data).hex() or '-'))
    # --- import: valid sentences (upper and lower case), then every truncation and single-character corruption
    base = []
    for k in range(20 * scale):
        pgn, ts, src, data = rand_msg(r)
        if k % 5 == 0:
            data = data[:r.randint(0, 6)]
        s = sentence(pgn, ts, src, data, lower=(k % 3 == 1))
        base.append(s)
        imp(s)
    for s in base[:(12 if tier == 'quick' else 200)]:
        short = s if len(s) < 70 else s[:40] + s[-20:]   # truncations of the long middle are all alike
        for cut in range(len(s) + 1):
            if len(s) < 90 or cut < 45 or cut > len(s) - 25 or cut % 16 == 0:
                imp(s[:cut])
        for _ in range(40):
            pos = r.randrange(len(s))
            kind = r.random()
            b = bytearray(s)
            if kind < 0.35:
                b[pos] = r.choice([0x2C, 0x2A, 0x24, 0x47, 0x67, 0x30, 0x46, 0x66, 0x80, 0xFF, 0x20, r.randint(1, 255)])
            elif kind < 0.55:
                del b[pos]
            elif kind < 0.75:
                b.insert(pos, r.choice([0x2C, 0x2A, 0x30, 0x41, 0x61, 0x7A, r.randint(1, 255)]))
            elif kind < 0.85:
                b[pos] = b[pos] ^ 0x20       # case flip
            else:
                # drop a separator or the '*'
                seps = [i for i, c in enumerate(b) if c in (0x2C, 0x2A)]
                del b[r.choice(seps)]
            imp(bytes(b))
        # field corruptions WITH a recomputed checksum (a sentence whose only fault is a non-hexadecimal field must still be refused):
        # blanks, signs, 0x prefixes, letters just outside the hex range, separators inside fields
        star = s.rindex(b'*')
        for _ in range(30):
            b = bytearray(s[:star])
            pos = r.randrange(7, len(b))
            kind = r.random()
            if kind < 0.6:
                b[pos] = r.choice(b' +-xXgG@`/:;.\t_') if r.random() < 0.8 else r.randint(1, 255)
            elif kind < 0.8 and pos + 1 < len(b):
                b[pos:pos + 2] = r.choice([b'0x', b'0X', b' 1', b'+1', b'-1', b'\t1', b'1 ', b'1+'])
            else:
                b[pos] = b[pos] ^ 0x20
            ck = 0
            for c in b[1:]:
                ck ^= c
            imp(bytes(b) + b'*%02X' % ck)
        # wrong / lower-case checksum, text after the checksum
        imp(s[:-2] + b'00'); imp(s[:-2] + s[-2:].lower()); imp(s + b'\r\n'); imp(s + b'*00'); imp(s[:-3]); imp(s[:-3] + b',' + s[-2:])
    # over-long data (224..260 bytes) and odd digit counts
    for n in [224, 225, 230, 260] + ([300, 1000] if tier != 'quick' else []):
        imp(sentence(1, 2, 3, [r.randrange(256) for _ in range(n)]))
    for n in [0, 1, 2, 222, 223]:
        s = sentence(129029, 77, 3, [r.randrange(256) for _ in range(n)])
        star = s.rindex(b'*')
        imp(s[:star] + b'A' + s[star:]); imp(s[:star - 1] + s[star:]) if n else None
        # ... and the same with the checksum recomputed over the odd-length field (the sentence's only fault is the odd count; seed C19-19)
        for body in [s[:star] + x for x in (b'A', b'0', b'f', b'G', b' ')] + ([s[:star - 1]] if n else []):
            ck = 0
            for c in body[1:]:
                ck ^= c
            imp(body + b'*%02X' % ck)
    # prefix variations
    for pre in [b'', b'$', b'$PCDI', b'$PCDIN', b'$PCDIN,', b'$PCDIN*', b'$PCDINx01F119,00000000,0F,*00', b'$PCDIN,*', b'$pcdin,01F119,00000000,0F,*3B',
                b'$PCDIN,0', b'$PCDIN,01', b'$PCDIN,01F1', b'$PCDIN,01F119', b'$PCDIN,01F119,', b'$PCDIN,01F119,0000000', b'$PCDIN,01F119,00000000',
                b'$PCDIN,01F119,00000000,', b'$PCDIN,01F119,00000000,0', b'$PCDIN,01F119,00000000,0F', b'$PCDIN,01F119,00000000,0F,',
                b'$PCDIN,01F119,00000000,0F,2A', b'$PCDIN,01F119,00000000,0F,2A*', b'$PCDIN,01F119,00000000,0F,2A*5', b'$PCDIN,01F119;00000000;0F;2A*5A',
                b'$PCDIN,01F119,00000000,0F*2A', b'$PCDIN,01F119,00000000,0F,**', b'*', b'**********************************']:
        imp(pre)
    # random strings
    alphabet = b'$PCDIN,*0123456789ABCDEFabcdef'
    for _ in range(300 * scale):
        n = r.choice([r.randint(0, 12), r.randint(0, 60), r.randint(20, 40)])
        if r.random() < 0.5:
            imp(bytes(r.choice(alphabet) for _ in range(n)))
        else:
            imp(b'$PCDIN,' + bytes(r.choice(alphabet) if r.random() < 0.9 else r.randint(1, 255) for _ in range(n)))
    return cases


SENT = re.compile(rb'^\$PCDIN,([0-9A-Fa-f]{6}),([0-9A-Fa-f]{8}),([0-9A-Fa-f]{2}),((?:[0-9A-Fa-f]{2})*)\*([0-9A-Fa-f]{2})', re.S)


def oracle(case, res):
    """the property, applied to what the implementation did (independent of the Coq model)"""
    t = case.split()
    if res.startswith('crash'):
        return 'memory:%s %s' % (t[0], res)
    if t[0] == 'IMP':
        s = bytes.fromhex(t[1]) if len(t) > 1 and t[1] != '-' else b''
        if res == 'false':
            return None
        m = SENT.match(s)
        if not res.startswith('true '):
            return 'import-result:%s' % res
        if not m:
            return 'import-sound:accepted a string that is not a $PCDIN sentence'
        _, pgn, ts, src, data = res.split()
        data = '' if data == '-' else data
        if len(m.group(4)) // 2 > 223:
            return 'import-sound:more than 223 data bytes accepted'
        ck = 0
        for c in s[1:s.index(b'*')]:
            ck ^= c
        if int(m.group(5), 16) != ck:
            return 'import-sound:checksum does not match but sentence accepted'
        if (int(pgn), int(ts), int(src), data.lower()) != (int(m.group(1), 16), int(m.group(2), 16), int(m.group(3), 16), m.group(4).decode().lower()):
            return 'import-sound:returned fields differ from the hexadecimal fields'
        return None
    if t[0] == 'EXP':
        pgn, ts, src, size = int(t[1]), int(t[2]), int(t[3]), int(t[4])
        data = bytes.fromhex(t[5]) if t[5] != '-' else b''
        n = len(data)
        if size < 30 + 2 * n:
            return None if res == 'ret 0 untouched' else 'export-size:buffer too small but something written or non-zero return (%s)' % res[:60]
        exp = sentence(pgn, ts, src, data) + b'\0'
        if len(exp) != 30 + 2 * n:
            return 'oracle-internal'
        return None if res == 'ret %d %s' % (29 + 2 * n, exp.hex()) else 'export-size:wrong sentence or length'
    if t[0] == 'RT':
        data = t[4].lower()
        return None if res == 'rt true %s %s %s %s' % (t[1], t[2], t[3], data) else 'roundtrip:import(export m) differs from m'
    return None


def nontrivial(case, mres):
    t = case.split()
    if t[0] == 'IMP':
        return len(t) > 1 and t[1].startswith(b'$PCDIN,'.hex())
    return True


def check(run, replay=None):
    cases = vlib.read_replay(replay) if replay else vlib.corpus_lines('C19') + gen(run.seed, run.tier)
    run.cov['rule'] = ('cases = committed corpus + export for every payload length 0..223 against buffer sizes around 30+2n + export/import round trips '
                       '+ valid sentences with every truncation and 40 single-character corruptions each + malformed prefixes + random strings over the sentence alphabet; '
                       'non-trivial = distinct case text that is an export/round trip or an import string starting with "$PCDIN," (reaches field parsing)')
    run.assumptions += ['LP64 build (strtol of 8 hex digits does not saturate)', 'C strings are modelled as byte lists without NUL; char signedness irrelevant to results (checked by correspondence with bytes >= 0x80)']
    vlib.correspond(run, 'seasmart', 'h_smrt', 'w64', 'C19', cases, oracle, nontrivial)
