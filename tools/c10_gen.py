# C10 - ISO transport protocol: case generator.  A "script" is a list of steps; a step is a list of ops that ends at a point where the
# library must have been polled before the peer can continue (the peer waits for the library's answer).  Scripts of several parties are
# interleaved step-wise.  The reference peer below is a plain ISO 11783-3 / J1939-21 node; where it has to anticipate what the library
# answers (how many packets a CTS of the library grants) it uses LIB_GRANT, which only has to be right for the scripts to be valid
# sessions - the oracle in p_C10.py never uses it.
from nodesim import own_addr
import random
from nodegen import can_id, rx, tp_rts, tp_dt, tp_cm, sender_stream, claim, iso_request

TP_PGNS_ADDR = [130816, 65280, 126208, 61184, 127232]      # PGNs with a zero low byte: can go to a specific destination
TP_PGNS_BCAST = [129029, 126996, 130817, 127489, 65300]
RX_PGNS = [130816, 130817, 126996, 129029, 127489, 127250, 99840, 61184, 65240 + 16]      # not 126208: a reassembled group function goes to the group function handlers (C09)
BOUNDARY_LENS = [9, 13, 14, 15, 21, 22, 222, 223]
T0S = [5000, 70000, 2 ** 32 - 60, 2 ** 32 - 30, 2 ** 32 - 51, 2 ** 32 - 101, 2 ** 32 - 1 - 50, 2 ** 31 - 40, 2 ** 32 + 5, 10 ** 12, 2 ** 33 - 20]


def LIB_GRANT(npk_announced):
    return max(1, min(npk_announced & 255, 5))


def npk_of(n):
    return (n + 6) // 7


def chunk(payload, k):
    c = list(payload[7 * (k - 1):7 * k])
    return c + [0xff] * (7 - len(c))


def rnd_payload(r, n):
    return bytes(r.randrange(256) for _ in range(n))


def cfg(r, ndev=1, mode=None, src0=None, slots=5, t0=None, extra=''):
    mode = r.choice([1, 1, 2]) if mode is None else mode
    src0 = r.choice([0, 22, 100, 240]) if src0 is None else src0
    t0 = r.choice(T0S) if t0 is None else t0
    return 'NODE mode=%d ndev=%d src=%d q=40 slots=%d t0=%d%s' % (mode, ndev, src0, slots, t0, extra), [own_addr(src0, i) for i in range(ndev)]


def flat(steps):
    return [o for s in steps for o in s]


def interleave(r, scripts, poll_merge=0.3):
    """random interleaving of the scripts' steps; every step is followed by a poll unless merged with the next one"""
    scripts = [list(s) for s in scripts if s]
    ops = []
    while scripts:
        s = r.choice(scripts)
        step = s.pop(0)
        ops += step
        if not s:
            scripts.remove(s)
        if not (step and step[-1] == 'P') and not (scripts and r.random() < poll_merge and not any(o.startswith('S ') for o in step)):
            ops.append('P')
    if not ops or ops[-1] != 'P':
        ops.append('P')
    return ops


# ---------------------------------------------------------------------------------------------------------------------------
# the library receives: the peer is the originator
def recv_script(r, src, dst, pgn, payload, bam=False, maxp=255, per_step=None, jitter=False, announce_npk=None):
    """steps of one complete valid session towards the library: RTS, then the packets each CTS of the library allows"""
    n = len(payload)
    npk = npk_of(n)
    steps = [[tp_rts(pgn, src, 255 if bam else dst, n, maxp=maxp, bam=bam)]]
    if bam:
        k = 1
        while k <= npk:
            m = npk if per_step is None else min(per_step, npk - k + 1)
            st = []
            for j in range(k, k + m):
                st.append(tp_dt(src, 255, j, payload[7 * (j - 1):7 * j]))
            if jitter:
                st.insert(0, 'T %d' % r.choice([50, 51, 60, 100, 200]))
            steps.append(st)
            k += m
        return steps
    g = LIB_GRANT(npk)
    k = 1
    while k <= npk:
        m = min(g, npk - k + 1)
        st = [tp_dt(src, dst, j, payload[7 * (j - 1):7 * j]) for j in range(k, k + m)]
        if per_step is not None and per_step < m:
            # the window is delivered over several polls
            for a in range(0, m, per_step):
                sub = st[a:a + per_step]
                if jitter:
                    sub = ['T %d' % r.choice([0, 1, 10, 40, 90])] + sub
                steps.append(sub)
        else:
            if jitter:
                st = ['T %d' % r.choice([0, 1, 10, 40, 90, 150])] + st
            steps.append(st)
        k += m
    return steps


# ---------------------------------------------------------------------------------------------------------------------------
# the library sends: the peer is the responder
def send_op(idev, pgn, dst, payload, pri=6, tp=1):
    return 'S %d %d %d 0 %d %d %s' % (idev, pri, pgn, dst, tp, bytes(payload).hex() or '-')


def cts(peer, own, g, nxt, pgn):
    return tp_cm(peer, own, 17, g, nxt, 255, 255, pgn)


def endack(peer, own, n, pgn):
    return tp_cm(peer, own, 19, n & 255, n >> 8, npk_of(n), 255, pgn)


def abort(peer, own, pgn, reason=1):
    return tp_cm(peer, own, 255, reason, 255, 255, 255, pgn)


def send_script(r, idev, own, peer, pgn, payload, windows=None, pause=0.0, gap=None, pri=6):
    """steps: SendMsg, then CTS frames whose grants follow [windows] (cycled), optional CTS(0) pauses, EndOfMsgAck at the end.
    gap: ticks inserted before an answer (must stay below the library's timeouts for the session to be valid)"""
    n = len(payload)
    npk = npk_of(n)
    steps = [[send_op(idev, pgn, peer, payload, pri=pri)]]
    sent = 0
    i = 0
    windows = windows or [r.choice([1, 2, 3, 5, 8, 16, 32, 255])]
    while sent < npk:
        st = []
        if gap:
            st.append('T %d' % r.choice(gap))
        if r.random() < pause:
            st.append(cts(peer, own, 0, r.choice([sent + 1, 255, 0]), pgn))
            steps.append(st)
            continue
        g = windows[i % len(windows)]
        i += 1
        st.append(cts(peer, own, g, sent + 1, pgn))
        steps.append(st)
        sent += min(g, npk - sent)
    st = ['T %d' % r.choice(gap)] if gap else []
    steps.append(st + [endack(peer, own, n, pgn)])
    return steps


def bam_send_script(r, idev, pgn, payload, jit=None, pri=6):
    """SendMsg to 255, then polls separated by ticks until all packets must have left"""
    npk = npk_of(len(payload))
    steps = [[send_op(idev, pgn, 255, payload, pri=pri)]]
    for _ in range(npk + 2):
        steps.append(['T %d' % r.choice(jit or [51, 52, 60, 75, 100, 130])])
    return steps


# ---------------------------------------------------------------------------------------------------------------------------
def mutate_all(ops):
    """every single dropped / duplicated / swapped-with-the-next received frame of an op list"""
    idx = [i for i, o in enumerate(ops) if o.startswith('R ')]
    out = []
    for a, i in enumerate(idx):
        out.append(('drop', ops[:i] + ops[i + 1:]))
        out.append(('dup', ops[:i + 1] + [ops[i]] + ops[i + 1:]))
        if a + 1 < len(idx):
            j = idx[a + 1]
            m = list(ops)
            m[i], m[j] = m[j], m[i]
            out.append(('swap', m))
    return out


def fp_traffic(r, own, k=3):
    """complete fast-packet messages and single frames from bystanders, as steps"""
    steps = []
    for _ in range(k):
        src = r.choice([60, 61, 62])
        if r.random() < 0.7:
            pgn = r.choice([129029, 127489, 128275, 130816, 126996])
            dst = 255 if ((pgn >> 8) & 0xff) >= 240 else r.choice(own + [255])
            fr = sender_stream(r, pgn, src, dst, rnd_payload(r, r.choice([5, 9, 20, 43, 100, 223])), prio=r.choice([2, 3, 6]))
            # one message is fed over a few steps so that other sessions interleave with it
            while fr:
                m = r.randint(1, 6)
                steps.append(fr[:m])
                fr = fr[m:]
        else:
            steps.append(sender_stream(r, r.choice([127250, 127488, 129025]), src, 255, rnd_payload(r, 8), fast=False))
    return steps


def fresh_recv(r, src, dst, pgn, n=None):
    p = rnd_payload(r, n or r.choice([9, 20, 37]))
    return flat([s + ['P'] for s in recv_script(r, src, dst, pgn, p)])


def fresh_send(r, idev, own, peer, pgn, n=None):
    p = rnd_payload(r, n or r.choice([9, 20, 37]))
    return flat([s + ['P'] for s in send_script(r, idev, own, peer, pgn, p, windows=[r.choice([2, 255])])])


def gen(seed, tier):
    r = random.Random(seed * 7919 + 10)
    thorough = tier != 'quick'
    cases = []

    def add(c, own_ops):
        cases.append(c + ' | ' + ' ; '.join(own_ops))

    lens = list(range(9, 224)) if thorough else sorted(set(BOUNDARY_LENS + [r.randint(9, 223) for _ in range(4)]))

    # --- A: library sends by RTS/CTS, every length, CTS windows 1..255 and pauses -------------------------------------------------
    for n in lens:
        for rep in range(2 if thorough else 1):
            ndev = r.choice([1, 1, 2])
            c, own = cfg(r, ndev=ndev)
            idev = r.randrange(ndev)
            peer = r.choice([50, 51, 0, 251])
            pgn = r.choice(TP_PGNS_ADDR)
            w = r.choice([[1], [255], [5], [2, 3], [r.randint(1, 255)], [r.randint(1, 40), r.randint(1, 255)], [32], [31], [33]])
            ops = flat([s + ['P'] for s in send_script(r, idev, own[idev], peer, pgn, rnd_payload(r, n), windows=w, pause=r.choice([0, 0, 0.3]),
                                                        gap=r.choice([None, [0, 1, 20, 49], [0, 30, 99], [49], [99]]))])
            # while the session is open a second transfer on this device is refused; afterwards a fresh one goes through
            k = r.randrange(1, len(ops))
            if r.random() < 0.5:
                ops.insert(k, send_op(idev, r.choice(TP_PGNS_ADDR), peer, rnd_payload(r, 12)))
            ops += fresh_send(r, idev, own[idev], r.choice([peer, 52]), r.choice(TP_PGNS_ADDR))
            add(c, ops)
    # all window sizes once for a long payload
    for g in (range(1, 256) if thorough else [1, 2, 4, 5, 6, 7, 31, 32, 33, 254, 255]):
        c, own = cfg(r)
        add(c, flat([s + ['P'] for s in send_script(r, 0, own[0], 50, 130816, rnd_payload(r, r.choice([223, 222, 100])), windows=[g])]))

    # --- B: library sends by BAM, poll jitter ----------------------------------------------------------------------------------
    for n in lens:
        c, own = cfg(r, ndev=r.choice([1, 2]))
        idev = r.randrange(len(own))
        pgn = r.choice(TP_PGNS_BCAST + TP_PGNS_ADDR)
        jit = r.choice([[51], [50, 51], [49, 50, 51, 52], [1, 10, 25, 49, 50, 51, 60, 120], [100, 200, 1000]])
        ops = flat(bam_send_script(r, idev, pgn, rnd_payload(r, n), jit=jit))
        ops = flat([[o, 'P'] if o.startswith('T ') else [o] for o in ops])
        if r.random() < 0.5:
            ops.insert(r.randrange(1, len(ops)), send_op(idev, 130816, r.choice([255, 50]), rnd_payload(r, 12)))   # (e) second transfer while the BAM runs
        if r.random() < 0.3:
            ops.insert(r.randrange(1, len(ops)), cts(50, own[idev], 5, 1, pgn))                                     # control frames for a broadcast session are ignored
        ops += ['T 200', 'P'] + flat([[o, 'P'] if o.startswith('T ') else [o] for o in flat(bam_send_script(r, idev, r.choice(TP_PGNS_BCAST), rnd_payload(r, 10), jit=[51, 60]))])
        add(c, ops)

    # --- C/D: library receives (RTS/CTS to one of its addresses, BAM), every length ----------------------------------------------
    for n in lens:
        for bam in (False, True):
            ndev = r.choice([1, 2, 3])
            c, own = cfg(r, ndev=ndev, slots=r.choice([5, 5, 2, 8]))
            dst = r.choice(own)
            src = r.choice([50, 51, 0, 251, 253])
            pgn = r.choice(RX_PGNS)
            steps = recv_script(r, src, dst, pgn, rnd_payload(r, n), bam=bam, maxp=r.choice([255, 255, 1, 2, 5, 0, 16]),
                                per_step=r.choice([None, None, 1, 2, 3]), jitter=r.random() < 0.4)
            ops = flat([s + ['P'] for s in steps])
            ops += fresh_recv(r, src, dst, r.choice([pgn, pgn, r.choice(RX_PGNS)]))
            add(c, ops)

    # --- E: concurrent sessions from several sources, both roles, fast-packet traffic in between --------------------------------
    for _ in range(40 if not thorough else 800):
        ndev = r.choice([1, 2, 3])
        c, own = cfg(r, ndev=ndev, slots=r.choice([8, 8, 12, 6]))
        scripts = []
        peers = r.sample([50, 51, 52, 53, 54, 0], r.randint(2, 4))
        if r.random() < 0.4 and 0 not in peers:
            peers[-1] = 0           # source address 0 is a legal sender (a freed slot carries source 0: seed C10-19)
        for p in peers:
            kind = r.random()
            n = r.choice(BOUNDARY_LENS + [r.randint(9, 223)])
            if kind < 0.5:
                scripts.append(recv_script(r, p, r.choice(own), r.choice(RX_PGNS), rnd_payload(r, n), per_step=r.choice([None, 1, 2])))
            elif kind < 0.75:
                scripts.append(recv_script(r, p, 255, r.choice(RX_PGNS), rnd_payload(r, n), bam=True, per_step=r.choice([1, 2, 4])))
            else:
                # the same peer runs an addressed session and a broadcast one at the same time (allowed: different connections)
                scripts.append(recv_script(r, p, r.choice(own), 130816, rnd_payload(r, n), per_step=r.choice([None, 2])))
                scripts.append(recv_script(r, p, 255, 130817, rnd_payload(r, r.choice([9, 30, 100])), bam=True, per_step=2))
        for idev in range(ndev):
            if r.random() < 0.7:
                if r.random() < 0.7:
                    scripts.append(send_script(r, idev, own[idev], r.choice(peers), r.choice(TP_PGNS_ADDR), rnd_payload(r, r.choice([9, 40, 223])),
                                               windows=[r.choice([1, 3, 5, 255])]))
                else:
                    scripts.append(bam_send_script(r, idev, r.choice(TP_PGNS_BCAST), rnd_payload(r, r.choice([9, 30])), jit=[51, 60, 80]))
        scripts.append(fp_traffic(r, own, k=r.randint(1, 4)))
        add(c, interleave(r, scripts))

    # --- E2: a short transfer of another source starts and ends while a long one of source 0 is running (the slot freed by the short one
    #         lies below the live one), both kinds, to the same destination ---------------------------------------------------------
    for _ in range(8 if not thorough else 120):
        c, own = cfg(r, ndev=r.choice([1, 2]), slots=r.choice([5, 8]))
        bam = r.random() < 0.5
        dst = 255 if bam else own[0]
        short = flat(recv_script(r, r.choice([5, 50]), dst, r.choice(RX_PGNS), rnd_payload(r, r.choice([9, 14])), bam=bam, per_step=None))
        long_ = recv_script(r, 0, dst, r.choice(RX_PGNS), rnd_payload(r, r.choice([40, 100, 223])), bam=bam, per_step=1)
        ops = list(short[:1]) + ['P'] + list(long_[0]) + ['P'] + short[1:] + ['P'] + flat([st + ['P'] for st in long_[1:]])
        add(c, ops)

    # --- F: every single dropped / duplicated / reordered frame of a valid session; afterwards a fresh transfer -------------------
    mut_lens = [9, 15, 36] if not thorough else [9, 14, 15, 22, 36, 50, 78]
    for n in mut_lens:
        # library receives
        for bam in (False, True):
            c, own = cfg(r, t0=r.choice([5000, 2 ** 32 - 30]))
            src, dst, pgn = 50, own[0], 130816
            base = flat([s + ['P'] for s in recv_script(r, src, dst, pgn, rnd_payload(r, n), bam=bam, per_step=r.choice([None, 1]))])
            for kind, ops in mutate_all(base):
                for same in ((True, False) if (thorough or n != 36) else (r.random() < 0.5,)):
                    ep = ['T %d' % r.choice([300, 2000]), 'P'] + fresh_recv(r, src, 255 if bam else dst, pgn if same else 130817)
                    if bam:
                        ep = ['T %d' % r.choice([300, 2000]), 'P'] + flat([s + ['P'] for s in recv_script(r, src, 255, pgn if same else 130817, rnd_payload(r, 20), bam=True)])
                    add(c, ops + ep)
        # library sends
        c, own = cfg(r, t0=r.choice([5000, 2 ** 32 - 30]))
        base = flat([s + ['P'] for s in send_script(r, 0, own[0], 50, 130816, rnd_payload(r, n), windows=[r.choice([2, 3])])])
        for kind, ops in mutate_all(base):
            add(c, ops + ['T %d' % r.choice([101, 300]), 'P'] + fresh_send(r, 0, own[0], 50, r.choice([130816, 65280])))

    # --- G: late answers, aborts, peers that never answer, transfers the library cannot hold ----------------------------------------
    for dt in [0, 1, 49, 50, 51, 52, 99, 100, 101, 150, 1250]:
        for t0 in ([5000, 2 ** 32 - 60, 2 ** 32 - 1 - 50, 2 ** 32 - 1 - 100] if not thorough else T0S + [2 ** 32 - 1 - 100]):
            c, own = cfg(r, t0=t0)
            p1, p2 = rnd_payload(r, 20), rnd_payload(r, 16)
            # no answer to the RTS for dt ms (polled / not polled before the late CTS), then the CTS arrives; then a new transfer
            for polled in (True, False):
                ops = [send_op(0, 130816, 50, p1), 'T %d' % dt] + (['P'] if polled else []) + [cts(50, own[0], 2, 1, 130816), 'P',
                       send_op(0, 130816, 51, p2), 'T 300', 'P'] + fresh_send(r, 0, own[0], 51, 130816)
                add(c, ops)
            # the second CTS is late
            ops = [send_op(0, 130816, 50, p1), cts(50, own[0], 1, 1, 130816), 'P', 'T %d' % dt, 'P', cts(50, own[0], 2, 2, 130816), 'P', 'T 300', 'P'] + fresh_send(r, 0, own[0], 50, 130816)
            add(c, ops)
            # the EndOfMsgAck is late / never comes
            ops = [send_op(0, 130816, 50, p1), cts(50, own[0], 255, 1, 130816), 'P', 'T %d' % dt, 'P', endack(50, own[0], 20, 130816), 'P', send_op(0, 130816, 51, p2)]
            add(c, ops)
            # keep-alive pauses: CTS(0) every dt ms
            ops = [send_op(0, 130816, 50, p1)] + flat([['T %d' % dt, cts(50, own[0], 0, 255, 130816), 'P'] for _ in range(3)]) + [cts(50, own[0], 3, 1, 130816), 'P', endack(50, own[0], 20, 130816), 'P']
            add(c, ops)
    for _ in range(20 if not thorough else 300):
        c, own = cfg(r, ndev=r.choice([1, 2]))
        idev = r.randrange(len(own))
        p1 = rnd_payload(r, r.choice([9, 20, 100]))
        ops = [send_op(idev, 130816, 50, p1)]
        if r.random() < 0.5:
            ops += [cts(50, own[idev], r.choice([1, 2]), 1, 130816), 'P']
        x = r.random()
        if x < 0.35:
            ops += [abort(50, own[idev], 130816, r.choice([1, 2, 3])), 'P']                       # the peer aborts
        elif x < 0.5:
            ops += [endack(50, own[idev], len(p1), 130816), 'P']                                  # acknowledges early
        elif x < 0.65:
            ops += [cts(50, own[idev], 3, r.choice([3, 0, 255, 7]), 130816), 'P']                 # asks for a packet that is not next
        elif x < 0.8:
            ops += [cts(50, own[idev], 3, 1, 130817), 'P']                                        # another PGN
        else:
            ops += ['T %d' % r.choice([20, 60, 120]), 'P']                                        # never answers
        ops += ['T %d' % r.choice([0, 10, 60, 120, 300]), 'P', send_op(idev, 65280, 51, rnd_payload(r, 10)), 'T 300', 'P'] + fresh_send(r, idev, own[idev], 52, 130816)
        add(c, ops)
    # a third station's control frames while a session with someone else is open
    for ctrl in ('cts', 'abort', 'ack'):
        for t0 in (5000, 2 ** 32 - 30):
            c, own = cfg(r, t0=t0)
            p1 = rnd_payload(r, 20)
            f = {'cts': cts(51, own[0], 2, 1, 130816), 'abort': abort(51, own[0], 130816), 'ack': endack(51, own[0], 20, 130816)}[ctrl]
            add(c, [send_op(0, 130816, 50, p1), f, 'P', cts(50, own[0], 5, 1, 130816), 'P', endack(50, own[0], 20, 130816), 'P'])
    # transfers the library cannot hold: too long, unknown PGN when only known messages are handled, no free slot
    for size in [224, 225, 255, 256, 300, 1785, 65535]:
        c, own = cfg(r)
        add(c, [tp_rts(130816, 50, own[0], size), 'P', tp_dt(50, own[0], 1, b'1234567'), 'P'] + fresh_recv(r, 50, own[0], 130816))
        add(c, [tp_rts(130816, 50, 255, size, bam=True), 'P', tp_dt(50, 255, 1, b'1234567'), 'P'] + fresh_recv(r, 50, own[0], 130816))
    for pgn in (99840, 126996, 129029, 130816):
        c, own = cfg(r, extra=' ok=1')
        add(c, fresh_recv(r, 50, own[0], pgn) + fresh_recv(r, 51, own[0], 130816))
    for nsl in (1, 2, 3):
        for _ in range(3 if not thorough else 20):
            c, own = cfg(r, slots=nsl, ndev=r.choice([1, 2]))
            srcs = r.sample([50, 51, 52, 53, 54], nsl + 1)
            pl = [rnd_payload(r, 20) for _ in srcs]
            ops = []
            for s_, p_ in zip(srcs, pl):
                ops += [tp_rts(130816, s_, r.choice(own), 20), 'P']         # nsl + 1 sources ask at the same time
            ops += ['T %d' % r.choice([0, 50, 99])]
            for k in (1, 2, 3):
                for s_, p_ in zip(srcs[:nsl], pl):
                    ops += [tp_dt(s_, own[0] if len(own) == 1 else r.choice(own), k, p_[7 * (k - 1):7 * k])]
                ops += ['P']
            add(c, ops)

    # an originator that gives up (goes silent / aborts / loses its last packets) and later starts another transfer to the same device
    for how in ('silent', 'abort', 'partial'):
        for n2 in ([9, 20, 21, 40] if not thorough else [9, 13, 14, 15, 20, 21, 22, 40, 223]):
            for same in (True, False):
                c, own = cfg(r, t0=r.choice([5000, 2 ** 32 - 30]))
                p1 = rnd_payload(r, 20)
                ops = [tp_rts(130816, 50, own[0], 20), 'P']
                if how == 'partial':
                    ops += [tp_dt(50, own[0], 1, p1[0:7]), 'P']
                if how == 'abort':
                    ops += [abort(50, own[0], 130816, 3), 'P']
                ops += ['T %d' % r.choice([300, 1250, 5000]), 'P'] + fresh_recv(r, 50, own[0], 130816 if same else 130817, n=n2)
                add(c, ops)
    # --- H: the library's address is taken away in the middle of a session --------------------------------------------------------
    for _ in range(6 if not thorough else 60):
        c, own = cfg(r, ndev=r.choice([1, 2]), src0=r.choice([22, 100]))
        if r.random() < 0.5:
            ops = flat([s + ['P'] for s in recv_script(r, 50, own[0], 130816, rnd_payload(r, 60), per_step=2)])
        else:
            ops = flat([s + ['P'] for s in send_script(r, 0, own[0], 50, 130816, rnd_payload(r, 60), windows=[2])])
        ops.insert(r.randrange(2, len(ops)), claim(own[0], 0))
        ops += ['T 300', 'P'] + fresh_recv(r, 51, own[-1], 130816)
        add(c, ops)

    # --- I: peers that do not follow the protocol (the checks that remain are memory safety and agreement with the model) ----------
    for _ in range(30 if not thorough else 600):
        c, own = cfg(r, ndev=r.choice([1, 2]), slots=r.choice([1, 2, 5]), mode=r.choice([0, 1, 2, 3, 4]))
        ops = []
        for _k in range(r.randint(5, 30)):
            src = r.choice([70, 71, own[0]])
            dst = r.choice(own + [255, 77])
            pgn = r.choice([130816, 65240, 0, 127250, 60416, 60160])
            x = r.random()
            if x < 0.3:
                ops.append(tp_cm(src, dst, r.choice([16, 32]), r.choice([0, 5, 8, 9, 20, 223, 224]), r.choice([0, 0, 1]), r.choice([0, 1, 3, 255]), r.choice([0, 255]), pgn))
            elif x < 0.45:
                ops.append(tp_cm(src, dst, r.choice([17, 19, 255, 0, 18]), r.randrange(256), r.randrange(256), r.randrange(256), r.randrange(256), pgn))
            elif x < 0.8:
                ops.append(rx(can_id(7, 60160, src, dst), [r.choice([0, 1, 2, 3, 255])] + list(rnd_payload(r, 7)), ln=r.choice([8, 8, 8, 1, 3, 0])))
            elif x < 0.9:
                ops.append(send_op(r.randrange(len(own)), r.choice([130816, 129029, 127250]), r.choice([255, 70]), rnd_payload(r, r.choice([0, 5, 8, 9, 30])), tp=1))
            else:
                ops.append('T %d' % r.choice([1, 50, 101, 1000]))
            if r.random() < 0.5:
                ops.append('P')
        ops.append('P')
        add(c, ops)
    # driver back-pressure during a CTS burst (queue of 1..3 frames): the burst fails in the middle, the session is ended
    for _ in range(6 if not thorough else 60):
        c, own = cfg(r)
        c = c.replace('q=40', 'q=%d' % r.choice([1, 2, 3, 4]))
        ops = [send_op(0, 130816, 50, rnd_payload(r, 60)), 'A ' + ''.join(r.choice('01') for _ in range(r.randint(1, 12))), cts(50, own[0], 8, 1, 130816), 'P', 'A', 'F', 'P',
               'T 300', 'P'] + fresh_send(r, 0, own[0], 50, 130816)
        add(c, ops)
    # --- J: one station carries the SAME PGN to the same destination by transport protocol and as a fast packet at the same time: the two
    #        reassemblies are separate connections (keyed by PGN, source, destination AND carriage), both messages arrive
    for _ in range(10 if not thorough else 150):
        c, own = cfg(r, ndev=r.choice([1, 2]), slots=r.choice([5, 8, 2, 3]))
        p = r.choice([50, 51])
        pgn = r.choice([130816, 130817, 129029, 127489, 126996])
        bam = ((pgn >> 8) & 0xff) >= 240 or r.random() < 0.3
        dst = 255 if bam else r.choice(own)
        tp = recv_script(r, p, dst, pgn, rnd_payload(r, r.choice([9, 20, 37, 100, 223])), bam=bam, per_step=r.choice([None, 1, 2]))
        fr = sender_stream(r, pgn, p, dst, rnd_payload(r, r.choice([5, 9, 20, 43, 100])), prio=r.choice([3, 6]))
        fps = []
        while fr:
            m = r.randint(1, 3)
            fps.append(fr[:m])
            fr = fr[m:]
        scripts = [tp, fps] if r.random() < 0.8 else [tp, fps, fp_traffic(r, own, k=1)]
        add(c, interleave(r, scripts) + fresh_recv(r, p, r.choice(own), 130816))

    # --- K: a transfer of our own in flight (BAM, answered or unanswered RTS) while other deferred work of the same device comes and goes:
    #        ISO requests whose answers the driver refuses (product / configuration information is retried 187 + 8/10 * source ms later),
    #        address claim requests; the transfer must go on / be abandoned on time, and a later transfer must start
    for _ in range(12 if not thorough else 200):
        c, own = cfg(r, ndev=r.choice([1, 1, 2]), src0=r.choice([0, 5, 22]))
        c = c.replace('q=40', 'q=%d' % r.choice([3, 5, 8, 40]))
        idev = r.randrange(len(own))
        kind = r.choice(['bam', 'bam', 'rts-silent', 'rts'])
        n = r.choice([30, 60, 100, 223])
        ops = []
        if kind == 'bam':
            ops += [send_op(idev, r.choice(TP_PGNS_BCAST), 255, rnd_payload(r, n)), 'P']
        else:
            ops += [send_op(idev, 130816, 50, rnd_payload(r, n)), 'P']
        # deferred answers: the driver refuses the next frames, then accepts again
        for _k in range(r.randint(1, 3)):
            ops += ['T %d' % r.choice([0, 5, 20, 49])]
            ops += ['A ' + '0' * r.choice([1, 2, 8, 30]), iso_request(r.choice([60, 61]), own[idev], r.choice([126996, 126998, 126996, 60928, 126464])), 'P', 'A']
        if kind == 'rts' and r.random() < 0.7:
            ops += [cts(50, own[idev], r.choice([1, 2, 5]), 1, 130816), 'P']
        t = 0
        while t < r.choice([400, 900, 2200]):
            dt = r.choice([1, 10, 25, 51, 60, 100, 190])
            t += dt
            ops += ['T %d' % dt, 'P']
        ops += fresh_send(r, idev, own[idev], 51, 130816)
        add(c, ops)
    return cases
