# C01 - framing of sent messages: generator, independent oracle, correspondence (node harness, both timer builds)
import random
import vlib
from nodesim import *

LENS = [0, 1, 2, 5, 6, 7, 8, 9, 12, 13, 14, 20, 21, 27, 100, 216, 217, 222, 223]
PGNS_SINGLE = [59392, 59904, 60928, 61184, 126992, 126993, 127245, 127250, 127257, 127488, 127505, 128259, 128267, 129025, 129026, 130306, 130312, 130316, 65280, 65300, 65535]
PGNS_FAST = [126208, 126464, 126996, 126998, 126720, 127489, 127506, 128275, 129029, 129038, 129284, 129540, 129794, 130074, 130323, 130577, 130816, 130900, 131071]
PGNS_ODD = [0, 1, 255, 256, 59393, 59905, 60929, 61183, 61185, 61439, 61440, 65239, 65240, 65279, 126719, 126721, 130815, 131000, 70000, 100000, 123456, 131072 - 1, 60160, 60416]


def msg(r, idev, pgn, n, pri=None, tp=0, src=None, dst=None):
    pri = r.choice([0, 1, 2, 3, 6, 7]) if pri is None else pri
    src = r.choice([0, 15, 100, 251, 252, 254, 255]) if src is None else src
    dst = r.choice([0, 22, 37, 251, 255]) if dst is None else dst
    data = bytes(r.randrange(256) for _ in range(n))
    return 'S %d %d %d %d %d %d %s' % (idev, pri, pgn, src, dst, tp, data.hex() or '-')


def gen(seed, tier):
    r = random.Random(seed * 65537 + 1)
    thorough = tier != 'quick'
    cases = []
    reps = 6 if not thorough else 60
    for _ in range(reps):
        for ndev in ([1, 2, 9] if not thorough else range(1, 10)):
            mode = r.choice([1, 1, 2, 3, 4, 0])
            src0 = r.choice([0, 22, 100, 243 - ndev, 251 - ndev + 1]) if ndev > 1 else r.choice([0, 22, 251, 250])
            cfg = 'NODE mode=%d ndev=%d src=%d q=40 t0=%d' % (mode, ndev, src0, r.choice([5000, 4294966000, 2147484000, 10 ** 12]))
            extra = ''
            kind = r.random()
            applist = [65300, 65301, 130900, 120000, 70000]
            cfgd = {}
            if kind < 0.25:
                cfgd['fp1'] = r.sample(applist, 2)
                extra = ' fp1=%s' % ','.join(str(p) for p in cfgd['fp1'])
            elif kind < 0.4:
                cfgd['fp0'] = r.sample(applist + [129029, 127489], 3)
                extra = ' fp0=%s' % ','.join(str(p) for p in cfgd['fp0'])
            txdev = r.randrange(ndev)
            txl = r.sample([129029, 127489, 128275, 130577, 65300, 127250, 130816], 3)
            wellbehaved = r.random() < 0.6      # the application declares every fast-packet PGN it sends (the property's premise for sequence ids)
            ops = []
            used = {}
            for pgn in r.sample(PGNS_SINGLE, 6) + r.sample(PGNS_FAST, 6) + r.sample(PGNS_ODD, 5) + r.sample(applist, 2):
                for n in r.sample(LENS, 4 if not thorough else 8):
                    if wellbehaved and ref_class(pgn, cfgd) != 'fast':
                        n = min(n, 8)            # a well-behaved application does not push a single-frame PGN through the fast-packet path
                    idev = r.choice([0, ndev - 1, r.randrange(ndev), -1, ndev, ndev + 3]) if r.random() < 0.3 else r.randrange(ndev)
                    # a message that carries the ISO-TP mark but fits one frame of a single-frame PGN leaves as that one frame (seed C01-19)
                    marked = 1 if (n <= 8 and ref_class(pgn, cfgd) == 'single' and r.random() < 0.15) else 0
                    ops.append(msg(r, idev, pgn, n, pri=(r.choice([128, 200, 255, 8, 15]) if r.random() < 0.03 else None), tp=marked))
                    if 0 <= idev < ndev or idev < 0:
                        used.setdefault(max(idev, 0), set()).add(pgn)
            decl = [p for p in txl if ref_class(p, cfgd) == 'fast'] + [126996, 126464]
            for _k in range(22):
                ops.append(msg(r, txdev, r.choice(decl), r.choice([3, 6, 7, 20, 223])))
            r.shuffle(ops) if r.random() < 0.5 else None
            for i in range(ndev):
                l = (txl if i == txdev else [])
                if wellbehaved:
                    l = sorted(set(l) | {p for p in used.get(i, ()) if 0 < p < 131072})
                if l:
                    extra += ' tx%d=%s' % (i, ','.join(str(p) for p in l))
            cases.append(cfg + extra + ' | ' + ' ; '.join(ops))
    # sequence-id stealing by undeclared PGNs (D-02 region): a device with no application list
    ops = [msg(r, 0, p, 10, dst=255) for p in (130816, 130817, 130818, 130819)] + [msg(r, 0, 126996, 20, dst=255), msg(r, 0, 130820, 9, dst=255), msg(r, 0, 126996, 20, dst=255), msg(r, 0, 126996, 20, dst=255)]
    cases.append('NODE mode=1 ndev=1 src=22 q=40 t0=5000 | ' + ' ; '.join(ops))
    # sequence ids across sends that are NOT fast-packet transmissions: refused during the device's claim window, carried by ISO-TP,
    # refused for an unencodable destination - the next fast packet of the PGN carries the next id (seed C01-12)
    for _ in range(8 if not thorough else 80):
        ndev = r.choice([1, 2, 3])
        txdev = r.randrange(ndev)
        X, Y = r.sample([129029, 127489, 130577, 128275, 129540], 2)
        cfg = 'NODE mode=%d ndev=%d src=%d q=40 t0=%d tx%d=%d,%d' % (r.choice([1, 2]), ndev, r.choice([22, 100]), r.choice([5000, 4294966000, 10 ** 12]), txdev, X, Y)
        ops = [msg(r, txdev, X, 20, src=15, dst=255), msg(r, txdev, Y, 9, src=15, dst=255), msg(r, txdev, X, 7, src=15, dst=255)]
        for _k in range(r.randint(2, 4)):
            z = r.random()
            if z < 0.4:
                ops += ['C %d' % txdev, 'T %d' % r.choice([0, 10, 100, 200]), msg(r, txdev, X, r.choice([6, 20, 100]), src=15, dst=255), msg(r, txdev, Y, 9, src=15, dst=255), 'T 300']
            elif z < 0.7:
                ops += [msg(r, txdev, X, r.choice([9, 14, 20]), tp=1, src=15, dst=255)] + ['T 60', 'P'] * 6      # the BAM session (<= 3 packets) ends before the next one
            elif z < 0.85:
                ops += [msg(r, ndev + 1, X, 20, src=15, dst=255), msg(r, txdev, 0, 20, src=15, dst=255)]
            else:
                # the application declares its transmit list again at run time (ExtendTransmitMessages keeps a pointer; same PGNs, any order):
                # the sequence ids go on (seed C01-15)
                ops += ['W t %d %s' % (txdev, r.choice(['%d,%d' % (X, Y), '%d,%d' % (Y, X), '%d,%d,127250' % (X, Y)]))]
            ops += [msg(r, txdev, X, r.choice([7, 20, 223]), src=15, dst=255), msg(r, txdev, Y, 13, src=15, dst=255), msg(r, txdev, X, 8, src=15, dst=255)]
        ops += ['W t %d %s' % (txdev, r.choice(['%d,%d' % (X, Y), '%d,%d' % (Y, X)])), msg(r, txdev, X, 20, src=15, dst=255), msg(r, txdev, Y, 9, src=15, dst=255),
                msg(r, txdev, X, 7, src=15, dst=255)]
        ops += ['T 1300', 'P', 'P']
        cases.append(cfg + ' | ' + ' ; '.join(ops))
    # the application declares / replaces its PGN lists at run time (Set/Extend...Messages are plain setters): the classification of the
    # NEXT message follows the lists as they are then, also for a PGN that was just sent under the old lists (seed C01-11)
    for _ in range(6 if not thorough else 60):
        p = r.choice([65300, 65301, 130900, 70000])
        cfg = 'NODE mode=1 ndev=1 src=22 q=40 t0=5000'
        ops = [msg(r, 0, p, 8, src=15, dst=255), msg(r, 0, p, 3, src=15, dst=255), 'L 3 %d,127250' % p, msg(r, 0, p, 8, src=15, dst=255), msg(r, 0, p, 3, src=15, dst=255),
               'L 3 65535', msg(r, 0, p, 5, src=15, dst=255), 'L 2 %d' % p, msg(r, 0, p, 5, src=15, dst=255), msg(r, 0, 129029, 8, src=15, dst=255), 'L 2 129029', msg(r, 0, 129029, 8, src=15, dst=255),
               'L 1 %d' % p, msg(r, 0, p, 4, src=15, dst=255), 'L 2 65534', msg(r, 0, p, 4, src=15, dst=255)]
        # Extend first, Set afterwards: the two lists are independent, a later Set does not drop the declared extension (seed C01-17)
        ops += ['L 3 %d' % p, 'L 2 129029', msg(r, 0, p, 5, src=15, dst=255), msg(r, 0, p, 0, src=15, dst=255), 'L 1 %d' % (p + 1), 'L 0 127250',
                msg(r, 0, p + 1, 8, src=15, dst=255), msg(r, 0, p, 8, src=15, dst=255)]
        cases.append(cfg + ' | ' + ' ; '.join(ops))
    # every length 0..223 once for a single-frame and a fast-packet PGN
    for pgn in (127250, 129029, 65300, 126720):
        ops = [msg(r, 0, pgn, n, pri=3, dst=255 if pgn != 126720 else 40) for n in range(0, 224)]
        cases.append('NODE mode=1 ndev=1 src=22 q=40 t0=5000 | ' + ' ; '.join(ops))
    return cases


def oracle(case, res):
    if res.startswith('crash'):
        return 'memory:' + res
    cfg, ops = parse_case(case)
    per_op, state = parse_result(res)
    ndev, src0, mode = cfg['ndev'], cfg['src'], cfg['mode']
    seq = {}        # (dev, pgn) -> number of fast-packet messages sent so far
    undeclared_used = set()
    now = 0
    claim_until = {}
    for k, (o, evs) in enumerate(zip(ops, per_op)):
        if o and o[0] == 'T':
            now += int(o[1])
        elif o and o[0] == 'C' and mode in (1, 2) and 0 <= int(o[1]) < ndev:
            claim_until[int(o[1])] = now + 250          # StartAddressClaim: the device is silent (except for claims) for 250 ms
        elif o and o[0] == 'L' and len(o) >= 3:
            cfg = dict(cfg)
            cfg[('sf0', 'sf1', 'fp0', 'fp1')[int(o[1])]] = [int(x) for x in o[2].split(',') if x and x != '-']
        elif o and o[0] == 'W' and len(o) >= 4 and o[1] == 't' and 0 <= int(o[2]) < ndev:
            cfg = dict(cfg)
            cfg['tx%d' % int(o[2])] = [int(x) for x in o[3].split(',') if x and x != '-']
        if not o or o[0] != 'S':
            continue
        idev, pri, pgn, msrc, mdst, tp = int(o[1]), int(o[2]), int(o[3]), int(o[4]), int(o[5]), o[6] == '1'
        data = list(bytes.fromhex(o[7])) if o[7] != '-' else []
        txs = [e for e in evs if e[0] == 'tx']
        ress = [e for e in evs if e[0] == 'res']
        if len(ress) != 1:
            return 'result:op %d has %d results' % (k, len(ress))
        ok = ress[0][1]
        dev = idev if idev >= 0 else 0
        esrc = own_addr(src0, idev) if 0 <= idev < ndev else msrc
        edst = mdst if pdu1(pgn) else 255
        must_refuse = (idev >= ndev or pgn == 0 or (pdu1(pgn) and (pgn & 0xff) != 0) or (esrc > 251 and pgn != 60928) or mode == 0)
        cu = claim_until.get(dev)
        if cu is not None and pgn != 60928 and not must_refuse:
            if now < cu:
                must_refuse = True                      # inside the claim window (C04); the instants cu, cu+1 differ between the scheduler builds
            elif now <= cu + 1:
                continue
        if must_refuse:
            if ok or txs:
                return 'refusal:op %d (pgn %d src %d idev %d mode %d) should be refused but res=%s frames=%d' % (k, pgn, esrc, idev, mode, ok, len(txs))
            continue
        if not ok:
            return 'accept:op %d (pgn %d len %d) refused although encodable and entitled' % (k, pgn, len(data))
        cls0 = ref_class(pgn, cfg) if pri < 128 else 'single'
        if tp and not (len(data) <= 8 and cls0 == 'single'):
            # ISO-TP carriage (C10): the only frame of this call is the TP.CM (BAM / RTS) from this source; no fast-packet sequence id is used
            if len(txs) != 1 or ((txs[0][1] >> 8) & 0x1ff00) != 60416 or (txs[0][1] & 0xff) != esrc:
                return 'tp:op %d flagged for ISO-TP but the call did not hand exactly one TP.CM from %d to the driver' % (k, esrc)
            continue
        cid = ref_can_id(pri, pgn, esrc, edst)
        for e in txs:
            if e[1] != cid:
                return 'canid:op %d frame id %x, expected %x (pri %d pgn %d src %d dst %d)' % (k, e[1], cid, pri, pgn, esrc, edst)
            if not e[4]:
                return 'driver:frame refused by an accepting driver'
        cls = ref_class(pgn, cfg) if pri < 128 else 'single'
        single_possible = len(data) <= 8
        if cls == 'single' and single_possible:
            if len(txs) != 1 or txs[0][2] != len(data) or txs[0][3] != data:
                return 'single:op %d pgn %d len %d sent as %d frame(s) dlc %s' % (k, pgn, len(data), len(txs), txs[0][2] if txs else '-')
            continue
        if cls is None and single_possible and len(txs) == 1 and txs[0][2] == len(data) and txs[0][3] == data:
            continue            # unknown PGN sent as a single frame: fine
        if tp:
            # ISO-TP carriage (C10): first frame is a TP.CM from this source
            if not txs or ((txs[0][1] >> 8) & 0x1ff00) != 60416:
                return 'tp:op %d flagged for ISO-TP but first frame is not TP.CM' % k
            continue
        # fast packet
        if any(e[2] != 8 for e in txs) or not txs:
            return 'fastpacket:op %d pgn %d len %d: frames with DLC != 8 or none' % (k, pgn, len(data))
        try:
            sid, payload = ref_fp_decode([e[3] for e in txs])
        except (ValueError, IndexError) as ex:
            return 'fastpacket:op %d pgn %d len %d: %s' % (k, pgn, len(data), ex)
        if payload != data:
            return 'fastpacket:op %d payload differs' % k
        declared = pgn in declared_fast(cfg, dev)
        if not declared:
            undeclared_used.add(dev)
        n = seq.get((dev, pgn), 0)
        seq[(dev, pgn)] = n + 1
        if declared and sid != n % 8:
            if dev in undeclared_used:
                return 'seqid-undeclared:declared PGN %d got sequence id %d instead of %d after undeclared fast-packet PGNs were sent from device %d' % (pgn, sid, n % 8, dev)
            return 'seqid:op %d declared PGN %d got sequence id %d, expected %d' % (k, pgn, sid, n % 8)
    return None


def known(case, what):
    for k in vlib.known_findings('C01'):
        if what.startswith(k['key']):
            return k['line']
    return None


def check(run, replay=None):
    cases = vlib.read_replay(replay) if replay else vlib.corpus_lines('C01') + gen(run.seed, run.tier)
    run.cov['rule'] = ('per case one node (modes 0..4, 1..9 devices, address ranges incl. 251/252/254, application fast-packet lists replacing/extending the defaults, declared transmit lists) and a list of '
                       'application sends over PGN classes (system, mandatory, default single/fast, proprietary ranges, unknown, PDU1 with low byte, 0) x lengths 0..223 (all lengths once for 4 PGNs) x '
                       'priorities x device index (valid, -1, out of range); runs of declared fast-packet PGNs for the sequence ids; accepting driver.  Model, C++ (both scheduler builds) compared on every '
                       'driver frame, result and internal state; family queued-*: the same comparison with a refusing driver and more than 256 frames waiting; non-trivial = distinct case (every case has >= 8 sends)')
    for fs in (() if (replay and any(l.startswith('# family: queued-') for l in open(replay))) else ('w64', 'w32')):
        vlib.correspond(run, 'send-' + fs, 'h_node', fs, 'NODE', cases, oracle, None, known=known, model_args=[fs])
    # the send path behind a busy driver: with more than 256 frames waiting (7..9 devices x 40 slots, or an explicit large buffer) the
    # driver must still see exactly the frames of the accepted messages, in order - the large-queue histories of the C11 generator under
    # the C11 FIFO oracle (the framing of each message is checked by that oracle's reference encoder)
    qreplay = bool(replay) and any(l.startswith('# family: queued-') for l in open(replay))
    if qreplay or not replay:
        import random, p_C11
        qcases = cases if qreplay else p_C11.large_queue_cases(random.Random(run.seed * 31337 + 1), run.tier != 'quick')
        for fs in ('w64', 'w32'):
            vlib.correspond(run, 'queued-' + fs, 'h_node', fs, 'NODE', qcases, p_C11.oracle, None, model_args=[fs])
