# C10 - ISO transport protocol transfers complete intact or abort cleanly: generator (c10_gen.py), reference checker written from the
# property text (ISO 11783-3 / J1939-21 as the property summarises it), correspondence of model and C++ on the node harness, and a
# library-to-library co-simulation on the C++.
#
# The reference checker walks through the operations of a case with the virtual clock and, for every operation, derives from the
# property what a conforming node does towards every station ("stream"): which TP.CM / TP.DT frames it sends there and what it delivers
# from there.  Where the property leaves freedom (priority, how many packets a CTS of the library grants, the abort reason, whether a
# session whose timer expires exactly now is already abandoned) the checker accepts every allowed behaviour and follows the one it observes.
import random
import vlib
from nodesim import parse_case, parse_result, ref_class, pdu1
import c10_gen
import nodesim

TP_CM, TP_DT = 60416, 60160
MAX_HOLD = 223                 # "every payload the library can hold (9..223 bytes)"
T_RTS, T_CTS, T_BAM = 50, 100, 50
READ_PER_POLL = 20             # frames one ParseMessages call takes from the driver (harness knowledge, not a property)
SLOT_IDLE = 100                # a reassembly buffer idle for this long may be taken over when all are busy

# confirmed defects reported to the lead and not yet decided would be listed here (key -> line); suppressed by key only.
# The two findings of the first round (stale-session, foreign-cts) are repaired in /repo (7b28730, b807027, 797643b): their witnesses are
# regression cases in replays/corpus/C10 and their keys are ordinary violations again.
PENDING_KNOWN = {}


def dec_id(idv):
    pf, src, prio = (idv >> 16) & 0xff, idv & 0xff, (idv >> 26) & 7
    if pf < 240:
        return prio, (idv >> 8) & 0x3ff00, src, (idv >> 8) & 0xff
    return prio, (idv >> 8) & 0x3ffff, src, 255


def npk_of(n):
    return (n + 6) // 7


def chunk7(payload, k):
    c = list(payload[7 * (k - 1):7 * k])
    return c + [0xff] * (7 - len(c))


def le3(b):
    return b[0] | b[1] << 8 | b[2] << 16


class Fail(Exception):
    pass


class Ref:
    def __init__(s, cfg):
        s.cfg = cfg
        s.now = cfg['t0']
        s.ndev = cfg['ndev']
        s.own = [(cfg['src'] + i) & 255 for i in range(s.ndev)]
        s.nslots = cfg.get('slots', 5) or 5
        s.only_known = cfg.get('ok', 0) == 1
        s.judging = cfg['mode'] in (1, 2)      # other modes do not take part in the protocol: nothing is required of them here
        s.rxq = []
        s.snd = [None] * s.ndev                # outgoing session per device
        s.rcv = {}                             # (src, dst) -> incoming session
        s.fp = {}                              # (pgn, src, dst) -> [announced, bytes so far] of fast packets in reassembly
        s.fp_done = set()                      # (pgn, src, payload) of complete fast-packet / single-frame messages: their delivery is C02's business
        s.tp_pgns = set()
        s.void = set()                         # stations whose traffic is no longer judged (they left the protocol)
        s.foreign = False                      # a control frame from a station that is not the destination touched an open outgoing session
        s.zombies = 0                          # sessions that were replaced by a session with another PGN while they may still hold a buffer

    # ------------------------------------------------------------------------------------------------------------------
    def key(s, base):
        return 'foreign-cts' if s.foreign else base

    def busy_upper(s):
        return len([1 for v in s.rcv.values() if v['state'] in ('open', 'aborted', 'unjudged')]) + len(s.fp) + s.zombies

    def busy_sure(s):
        return len([1 for v in s.rcv.values() if v['state'] == 'open' and s.now - v['last'] < SLOT_IDLE])

    def pressure(s):
        """all reassembly buffers may be busy: idle sessions may be displaced from now on"""
        if s.busy_upper() >= s.nslots:
            for v in s.rcv.values():
                if s.now - v['last'] >= SLOT_IDLE and v['state'] == 'open':
                    v['state'] = 'unjudged'
                    s.void.add(v['src'])

    # ------------------------------------------------------------------------------------------------------------------
    def op_send(s, o, evs):
        idev, pri, pgn, mdst, tp = int(o[1]), int(o[2]), int(o[3]), int(o[5]), o[6] == '1'
        data = list(bytes.fromhex(o[7])) if o[7] != '-' else []
        txs = [e for e in evs if e[0] == 'tx']
        res = [e for e in evs if e[0] == 'res']
        if not (tp and 9 <= len(data) <= MAX_HOLD and 0 <= idev < s.ndev and pgn != 0 and pgn < 0x20000 and not (pdu1(pgn) and pgn & 0xff)):
            if tp and 0 <= idev < s.ndev and any(dec_id(e[1])[1] == TP_CM for e in txs):
                s.judging = False          # a transport session outside 9..223 bytes was started: not covered by the property
            return
        if not s.judging:
            return
        if len(res) != 1:
            raise Fail('result:SendMsg produced %d results' % len(res))
        ok = res[0][1]
        n, npk = len(data), npk_of(len(data))
        sess = s.snd[idev]
        if sess is not None and not sess['maybe']:
            if ok or txs:
                raise Fail(s.key('second-transfer') + ':device %d has a transfer open (PGN %d, %d/%d packets) but a second SendMsg returned %s and sent %d frames' % (idev, sess['pgn'], sess['sent'], sess['npk'], ok, len(txs)))
            return
        if sess is not None and not ok and not txs and not sess['expired_polled']:
            sess['maybe'] = False           # it was still open
            return
        if not ok or len(txs) != 1:
            why = 'the previous session timed out / was ended' if sess is not None else 'no transfer is open on the device'
            raise Fail(s.key('later-transfer') + ':%s, but SendMsg (PGN %d, %d bytes, to %d) returned %s and sent %d frames' % (why, pgn, n, mdst, ok, len(txs)))
        _, fpgn, fsrc, fdst = dec_id(txs[0][1])
        d = txs[0][3]
        if fpgn != TP_CM or txs[0][2] != 8 or len(d) != 8 or not txs[0][4]:
            raise Fail('announce:first frame of a transport session is not an 8 byte TP.CM: %x %s' % (txs[0][1], bytes(d).hex()))
        if fsrc != s.own[idev]:
            raise Fail('announce:TP.CM sent from %d, the device has address %d' % (fsrc, s.own[idev]))
        want_bam = mdst == 255 or (pgn & 0xff) != 0
        if d[0] == 16 and fdst != 255:
            bam = False
            if want_bam:
                raise Fail('announce:message for the global address announced by RTS to %d' % fdst)
            if fdst != mdst:
                raise Fail('announce:RTS sent to %d, the message is for %d' % (fdst, mdst))
        elif d[0] == 32 and fdst == 255:
            bam = True
            if pdu1(pgn) and mdst != 255:
                raise Fail('announce:message for %d announced by BAM' % mdst)
        else:
            raise Fail('announce:control byte %d to %d' % (d[0], fdst))
        if bam and d[4] != 0xff:
            raise Fail('announce:reserved byte of the BAM is %02x' % d[4])
        if d[1] | d[2] << 8 != n or d[3] != npk or le3(d[5:8]) != pgn:
            raise Fail('announce:announced %d bytes %d packets PGN %d for a message of %d bytes (%d packets) PGN %d' % (d[1] | d[2] << 8, d[3], le3(d[5:8]), n, npk, pgn))
        s.snd[idev] = {'pgn': pgn, 'dst': fdst, 'payload': data, 'npk': npk, 'sent': 0, 'armed': s.now, 'tmo': T_BAM if bam else T_RTS, 'bam': bam,
                       'maybe': False, 'expired_polled': False}
        s.foreign = False

    # ------------------------------------------------------------------------------------------------------------------
    def dt_frame(s, sess, k):
        return ('dt', sess['dst'], k, chunk7(sess['payload'], k))

    def op_poll(s, evs):
        """returns nothing; raises Fail.  Expected events are built per stream and compared with what was observed."""
        exp = {}            # stream -> list of expectation items; an item is (kind, ...) or ('opt', [items]) = all of them or none
        voided = set()

        def put(stream, item):
            exp.setdefault(stream, []).append(item)

        # 1. timers of outgoing sessions
        for i in range(s.ndev):
            sess = s.snd[i]
            if sess is None:
                continue
            el = s.now - sess['armed']
            if sess['bam']:
                if el > T_BAM:
                    sess['sent'] += 1
                    put(('bam', i), ('dt', 255, sess['sent'], chunk7(sess['payload'], sess['sent'])))
                    sess['armed'] = s.now
                    if sess['sent'] == sess['npk']:
                        s.snd[i] = None
                elif el == T_BAM:
                    put(('bam', i), ('optdt', i))
            else:
                if el > sess['tmo']:
                    sess['maybe'] = True
                    sess['expired_polled'] = True
                elif el == sess['tmo']:
                    sess['maybe'] = True
        # 2. received frames, in order
        frames, s.rxq = s.rxq[:READ_PER_POLL], s.rxq[READ_PER_POLL:]
        # which PGNs travel by transport protocol and which deliveries belong to bystander traffic must be known before the events are sorted
        fpcopy = {k: [v[0], list(v[1])] for k, v in s.fp.items()}
        for idv, ln, buf in frames:
            _, pgn, src, dst = dec_id(idv)
            if pgn == TP_CM and buf[0] in (16, 32):
                s.tp_pgns.add(le3(buf[5:8]))
            elif pgn not in (TP_CM, TP_DT):
                s.other_frame(pgn, src, dst, ln, buf, fpcopy, False)
        obs = s.split_streams(evs)
        cursor = {k: 0 for k in obs}

        def peek(stream):
            l = obs.get(stream, [])
            c = cursor.get(stream, 0)
            return l[c] if c < len(l) else None

        def take(stream):
            e = peek(stream)
            if e is not None:
                cursor[stream] = cursor.get(stream, 0) + 1
            return e

        # BAM streams first (they are produced before the frames are read)
        for st, items in list(exp.items()):
            for it in items:
                if it[0] == 'optdt':
                    i = it[1]
                    sess = s.snd[i]
                    e = peek(st)
                    if e is not None:
                        sess['sent'] += 1
                        s.expect_dt(take(st), 255, sess['sent'], chunk7(sess['payload'], sess['sent']), 'bam')
                        sess['armed'] = s.now
                        if sess['sent'] == sess['npk']:
                            s.snd[i] = None
                else:
                    e = take(st)
                    if e is None:
                        raise Fail('bam-stalled:broadcast session: more than %d ms since the last packet and a poll, but data packet %d was not sent' % (T_BAM, it[2]))
                    s.expect_dt(e, it[1], it[2], it[3], 'bam')
        for f in frames:
            s.rx_frame(f, peek, take)
        # 3. everything observed must have been accounted for
        for st, l in obs.items():
            c = cursor.get(st, 0)
            if c < len(l) and s.judging and not (st[0] == 'peer' and st[1] in s.void):
                e = l[c]
                if e[0] == 'dlv':
                    raise Fail(s.key(s.dlv_key(e)) + ':delivery that no complete, in-order session accounts for: PGN %d from %d to %d, %d bytes %s' % (e[2], e[3], e[4], e[5], bytes(e[6]).hex()))
                if e[0] == 'dt':
                    if st[0] == 'bam':
                        raise Fail('bam-spacing:broadcast data packet %d sent although fewer than %d ms passed since the previous packet of the session (or no session is open)' % (e[2], T_BAM))
                    raise Fail(s.key('dt-not-cleared') + ':data packet %d sent to %d that no clear-to-send of an open session allows' % (e[2], e[1]))
                raise Fail(s.key('cm-unexpected') + ':TP.CM %s to %d that nothing asked for' % (bytes(e[3]).hex(), e[1]))

    def dlv_key(s, e):
        for v in s.rcv.values():
            if v['src'] == e[3] and v.get('shadowed'):
                return 'stale-session'
        return 'corrupt-delivery'

    def split_streams(s, evs):
        """tx events of the transport PGNs and deliveries of transport PGNs, grouped by the station they concern"""
        obs = {}
        for e in evs:
            if e[0] == 'tx':
                _, pgn, src, dst = dec_id(e[1])
                if pgn == TP_DT:
                    item = ('dt', dst, e[3][0] if e[3] else -1, e[3][1:], src, e[2], e[4])
                elif pgn == TP_CM:
                    item = ('cm', dst, src, e[3], e[2], e[4])
                else:
                    continue
                st = ('bam', s.own.index(src)) if dst == 255 and src in s.own else ('peer', dst)
                obs.setdefault(st, []).append(item)
            elif e[0] == 'dlv':
                if e[2] not in s.tp_pgns or (e[2], e[3], bytes(e[6])) in s.fp_done:
                    continue
                obs.setdefault(('peer', e[3]), []).append(e)
        return obs

    def expect_dt(s, e, dst, k, data7, what):
        if e is None or e[0] != 'dt':
            raise Fail(s.key('dt-missing') + ':%s: data packet %d to %d expected, observed %s' % (what, k, dst, e))
        if e[1] != dst or e[2] != k or list(e[3]) != list(data7) or e[5] != 8:
            raise Fail(s.key('dt-content') + ':%s: expected data packet %d to %d with %s, observed packet %d to %d with %s (dlc %d)' % (what, k, dst, bytes(data7).hex(), e[2], e[1], bytes(e[3]).hex(), e[5]))

    # ------------------------------------------------------------------------------------------------------------------
    def rx_frame(s, f, peek, take):
        idv, ln, buf = f
        prio, pgn, src, dst = dec_id(idv)
        st = ('peer', src)
        if pgn == 60928 and src in s.own:
            s.judging = False            # somebody claims one of our addresses: the device moves; sessions are not judged any more
            return
        if pgn not in (TP_CM, TP_DT):
            s.other_frame(pgn, src, dst, ln, buf, s.fp, True)
            return
        dev = s.own.index(dst) if dst in s.own else None
        if ln != 8:
            s.void.add(src)
        if src in s.void:
            if pgn == TP_CM and buf[0] in (17, 19, 255) and dev is not None and s.snd[dev] is not None:
                s.judging = False        # a station that left the protocol interferes with an outgoing session
            return
        if not s.judging:
            return
        if pgn == TP_CM:
            ctrl, tpgn = buf[0], le3(buf[5:8])
            if ctrl in (16, 32):
                s.rx_open(src, dst, dev, ctrl, buf, tpgn, st, peek, take)
            elif ctrl == 17:
                s.rx_cts(src, dev, buf, tpgn, st, peek, take)
            elif ctrl in (19, 255):
                s.rx_ack_abort(src, dst, dev, ctrl, tpgn)
            else:
                pass                     # reserved control bytes: nothing may happen; leftovers are reported by the stream check
            return
        # TP.DT
        sess = s.rcv.get((src, dst))
        if sess is None or sess['state'] in ('dead', 'done'):
            return
        if sess['state'] in ('unjudged', 'aborted'):
            s.void.add(src)
            return
        k = buf[0]
        if k == sess['got'] + 1:
            sess['chunks'].append(buf[1:8])
            sess['got'] += 1
            sess['last'] = s.now
            if sess['got'] == sess['npk']:
                payload = [b for c in sess['chunks'] for b in c][:sess['size']]
                want = [('dlv', payload)] + ([('ack',)] if sess['answered'] else [])
                sess['state'] = 'done'
                for _ in range(len(want)):
                    e = peek(st)
                    if e is not None and e[0] == 'dlv' and ('dlv', payload) in want:
                        if (e[2], e[3], e[4], e[5], list(e[6])) != (sess['pgn'], src, dst, sess['size'], payload):
                            raise Fail(s.skey(sess, 'corrupt-delivery') + ':session PGN %d from %d to %d of %d bytes %s completed, but PGN %d from %d to %d, %d bytes %s was delivered'
                                       % (sess['pgn'], src, dst, sess['size'], bytes(payload).hex(), e[2], e[3], e[4], e[5], bytes(e[6]).hex()))
                        want.remove(('dlv', payload))
                        take(st)
                    elif e is not None and e[0] == 'cm' and ('ack',) in want:
                        d = e[3]
                        if not (e[2] == dst and d[0] == 19 and d[1] | d[2] << 8 == sess['size'] and d[3] == sess['npk'] and d[4] == 0xff and le3(d[5:8]) == sess['pgn'] and e[4] == 8):
                            raise Fail(s.skey(sess, 'endack') + ':all %d packets (%d bytes, PGN %d) received from %d: expected EndOfMsgAck, observed TP.CM %s from %d' % (sess['npk'], sess['size'], sess['pgn'], src, bytes(d).hex(), e[2]))
                        want.remove(('ack',))
                        take(st)
                    else:
                        if ('dlv', payload) in want:
                            raise Fail(s.skey(sess, 'not-delivered') + ':all %d packets of the session PGN %d from %d to %d arrived in order but the payload was not delivered (next event %s)' % (sess['npk'], sess['pgn'], src, dst, e))
                        raise Fail(s.skey(sess, 'endack') + ':all packets received from %d but no EndOfMsgAck was sent' % src)
            elif sess['answered'] and sess['got'] == sess['granted']:
                e = take(st)
                if e is None or e[0] != 'cm' or e[3][0] != 17:
                    raise Fail(s.skey(sess, 'cts-missing') + ':%d of %d packets received from %d, all that were cleared: a further CTS is due, observed %s' % (sess['got'], sess['npk'], src, e))
                s.check_cts(e, sess, dst, sess['got'] + 1)
            elif sess['answered'] and sess['got'] > sess['granted']:
                s.void.add(src)          # the originator sends more than it was cleared for
        else:
            # lost / repeated / out-of-order packet: the session ends; an abort may be sent; nothing is delivered from it
            e = peek(st)
            if e is not None and e[0] == 'cm' and e[3][0] == 255 and e[3][2:5] == [255, 255, 255] and le3(e[3][5:8]) == sess['pgn']:
                take(st)
                if not sess['answered']:
                    raise Fail('cm-unexpected:Abort sent for a broadcast session')
            sess['state'] = 'dead'

    def skey(s, sess, base):
        return 'stale-session' if sess.get('shadowed') else base

    def check_cts(s, e, sess, dst, nxt):
        d = e[3]
        if not (e[2] == dst and d[0] == 17 and d[1] >= 1 and d[2] == nxt and d[3] == 0xff and d[4] == 0xff and le3(d[5:8]) == sess['pgn'] and e[4] == 8 and e[5]):
            raise Fail(s.skey(sess, 'cts-content') + ':expected a CTS from %d for PGN %d granting >= 1 packets from packet %d, observed TP.CM %s from %d' % (dst, sess['pgn'], nxt, bytes(d).hex(), e[2]))
        sess['granted'] = nxt - 1 + d[1]

    def rx_open(s, src, dst, dev, ctrl, buf, tpgn, st, peek, take):
        size, npk = buf[1] | buf[2] << 8, buf[3]
        s.tp_pgns.add(tpgn)
        bam = ctrl == 32
        old = s.rcv.get((src, dst))
        if (bam and dst != 255) or (not bam and dst == 255) or not (9 <= size) or (size <= MAX_HOLD and npk != npk_of(size)) or tpgn == 0:
            s.void.add(src)              # not a session the property speaks about
            s.rcv[(src, dst)] = {'state': 'unjudged', 'src': src, 'last': s.now, 'pgn': tpgn}
            return
        s.pressure()
        # with "handle only known messages" a PGN of the standard lists must be accepted and one that is in no list refused; for proprietary
        # PGNs it depends on the application's lists, which the checker does not interpret
        if not s.only_known or tpgn in nodesim.REF_FAST or tpgn in nodesim.REF_SINGLE:
            known = True
        else:
            known = None if ref_class(tpgn, s.cfg) is not None else False
        cannot = True if (size > MAX_HOLD or known is False) else (None if known is None else False)
        replaces = old is not None and old['state'] in ('open', 'aborted', 'unjudged') and old.get('pgn') == tpgn
        shadowed = old is not None and old['state'] in ('open', 'aborted') and old.get('pgn') != tpgn
        new = {'state': 'open', 'src': src, 'pgn': tpgn, 'size': size, 'npk': npk, 'got': 0, 'chunks': [], 'granted': 0, 'answered': (not bam) and dev is not None,
               'last': s.now, 'shadowed': shadowed}
        if old is not None and old['state'] in ('open', 'aborted', 'unjudged') and old.get('pgn') != tpgn:
            s.zombies += 1
        if not bam and dev is None:
            # a session between two other stations: nothing is required of us
            s.void.add(src)
            new['state'] = 'unjudged'
            s.rcv[(src, dst)] = new
            return
        if bam:
            if cannot:
                new['state'] = 'dead'
            elif not replaces and s.busy_upper() >= s.nslots:
                new['state'] = 'unjudged'
                s.void.add(src)
            s.rcv[(src, dst)] = new
            return
        e = take(st)
        if e is None or e[0] != 'cm' or e[2] != dst:
            raise Fail('rts-unanswered:RTS from %d to %d (PGN %d, %d bytes) got no TP.CM answer (observed %s)' % (src, dst, tpgn, size, e))
        d = e[3]
        is_abort = d[0] == 255 and d[2:5] == [255, 255, 255] and le3(d[5:8]) == tpgn
        if cannot is None:
            s.void.add(src)
            new['state'] = 'unjudged'
            s.rcv[(src, dst)] = new
            return
        if cannot:
            if not is_abort:
                raise Fail('not-aborted:RTS for %d bytes / PGN %d that the library cannot hold was answered with %s instead of an abort' % (size, tpgn, bytes(d).hex()))
            new['state'] = 'dead'
            s.rcv[(src, dst)] = new
            return
        if is_abort:
            if replaces or s.busy_upper() < s.nslots:
                raise Fail('rts-refused:RTS from %d (PGN %d, %d bytes) aborted although at most %d of %d reassembly buffers are in use' % (src, tpgn, size, s.busy_upper(), s.nslots))
            new['state'] = 'dead'
            s.rcv[(src, dst)] = new
            return
        if not replaces and s.busy_sure() >= s.nslots:
            raise Fail('not-aborted:RTS from %d accepted although all %d reassembly buffers hold sessions that were active less than %d ms ago' % (src, s.nslots, SLOT_IDLE))
        s.check_cts(e, new, dst, 1)
        s.rcv[(src, dst)] = new

    def rx_cts(s, src, dev, buf, tpgn, st, peek, take):
        if dev is None:
            return
        sess = s.snd[dev]
        if sess is None or sess['bam']:
            return
        if src != sess['dst']:
            s.foreign = True
            return
        g, nxt = buf[1], buf[2]
        if tpgn != sess['pgn'] or (g > 0 and nxt != sess['sent'] + 1):
            sess['maybe'] = True         # the session may end here; no data may be sent
            return
        if g == 0:
            if sess['maybe']:
                return
            sess['armed'], sess['tmo'] = s.now, T_CTS
            return
        k = min(g, sess['npk'] - sess['sent'])
        if sess['maybe']:
            e = peek(('peer', sess['dst']))
            if k == 0:
                return                   # nothing to send either way: stays undetermined
            if e is None or e[0] != 'dt':
                s.snd[dev] = None        # it had been abandoned
                return
            sess['maybe'] = False
            sess['expired_polled'] = False
        for j in range(sess['sent'] + 1, sess['sent'] + k + 1):
            s.expect_dt(take(('peer', sess['dst'])), sess['dst'], j, chunk7(sess['payload'], j), 'CTS from %d granting %d from %d (PGN %d, %d packets)' % (src, g, nxt, tpgn, sess['npk']))
        sess['sent'] += k
        sess['armed'], sess['tmo'] = s.now, T_CTS

    def rx_ack_abort(s, src, dst, dev, ctrl, tpgn):
        # originator aborts a session towards us
        r = s.rcv.get((src, dst))
        if ctrl == 255 and r is not None and r['state'] == 'open' and r.get('pgn') == tpgn:
            r['state'] = 'aborted'
        if dev is None:
            return
        sess = s.snd[dev]
        if sess is None or sess['bam']:
            return
        if src != sess['dst']:
            s.foreign = True
            return
        if tpgn != sess['pgn']:
            sess['maybe'] = True
            return
        s.snd[dev] = None

    def other_frame(s, pgn, src, dst, ln, buf, fp, account):
        """bystander traffic: only what is needed to know how many reassembly buffers may be busy, and which deliveries are not ours to judge"""
        cls = ref_class(pgn, s.cfg)
        if cls == 'fast':
            if ln >= 2 and buf[0] & 0x1f == 0:
                if account:
                    s.pressure()
                need = buf[1]
                got = list(buf[2:ln])
                if len(got) >= need:
                    s.fp_done.add((pgn, src, bytes(got[:need])))
                    fp.pop((pgn, src, dst), None)
                else:
                    fp[(pgn, src, dst)] = [need, got]
            else:
                cur = fp.get((pgn, src, dst))
                if cur is not None:
                    cur[1] += list(buf[1:ln])
                    if len(cur[1]) >= cur[0]:
                        s.fp_done.add((pgn, src, bytes(cur[1][:cur[0]])))
                        del fp[(pgn, src, dst)]
        else:
            if account:
                s.pressure()
            s.fp_done.add((pgn, src, bytes(buf[:ln])))

    # ------------------------------------------------------------------------------------------------------------------
    def step(s, o, evs):
        if not o:
            return
        if o[0] == 'T':
            s.now += int(o[1])
        elif o[0] == 'A':
            if len(o) > 1 and '0' in o[1]:
                s.judging = False        # driver back-pressure: queueing is C11's subject
        elif o[0] == 'R':
            buf = list(bytes.fromhex(o[3]))
            s.rxq.append((int(o[1], 16), int(o[2]), buf + [0] * (8 - len(buf))))
        elif o[0] == 'S':
            s.op_send(o, evs)
        elif o[0] == 'P':
            s.op_poll(evs)
        elif o[0] in ('C', 'H'):
            s.judging = False
        if o[0] not in ('S', 'P', 'F') and any(e[0] in ('tx', 'dlv') for e in evs):
            raise Fail('spontaneous:operation %s produced bus traffic or deliveries' % o[0])


def oracle(case, res):
    if res.startswith('crash'):
        return 'memory:' + res
    cfg, ops = parse_case(case)
    per_op, state = parse_result(res)
    ref = Ref(cfg)
    for k, (o, evs) in enumerate(zip(ops, per_op)):
        try:
            ref.step(o, evs)
        except Fail as f:
            key, _, txt = str(f).partition(':')
            return '%s:op %d (%s) t=%d: %s' % (key, k, ' '.join(o)[:60], ref.now, txt)
        if not ref.judging:
            return None
    return None


def known(case, what):
    for k in vlib.known_findings('C10') + [{'key': kk, 'line': ll} for kk, ll in PENDING_KNOWN.items()]:
        if what.startswith(k['key'] + ':'):
            return k['line']
    return None


def nontrivial(case, mres):
    return 'tx:' in mres or 'dlv:' in mres


# ---------------------------------------------------------------------------------------------------------------------------
# library to library on the C++: two harness processes, frames carried over by the checker round by round
def lib_to_lib(run, lens, fs):
    hexe, err = vlib.build_harness('h_node', fs)
    if hexe is None:
        run.broken.append('harness h_node does not build (%s): %s' % (fs, (err or '')[-800:]))
        return
    r = random.Random(run.seed * 13 + 5)
    jobs = []
    for n in lens:
        bam = r.random() < 0.3
        payload = bytes(r.randrange(256) for _ in range(n))
        pgn = r.choice([129029, 126996]) if bam else r.choice([130816, 61184, 65280])
        t0 = r.choice([5000, 2 ** 32 - 40, 10 ** 12])
        jobs.append({'n': n, 'bam': bam, 'payload': payload, 'pgn': pgn,
                     'A': ['NODE mode=1 ndev=1 src=22 q=40 slots=5 t0=%d | ' % t0, ['S 0 6 %d 0 %d 1 %s' % (pgn, 255 if bam else 44, payload.hex())]],
                     'B': ['NODE mode=2 ndev=1 src=44 q=40 slots=5 t0=%d | ' % t0, []], 'seenA': 0, 'seenB': 0, 'done': False})
    for rnd in range(80):
        live = [j for j in jobs if not j['done']]
        if not live:
            break
        lines = []
        for j in live:
            lines.append(j['A'][0] + ' ; '.join(j['A'][1]))
            lines.append(j['B'][0] + ' ; '.join(j['B'][1] or ['P']))
        out = vlib.run_impl(hexe, lines)
        for j, ra, rb in zip(live, out[0::2], out[1::2]):
            if ra.startswith('crash') or rb.startswith('crash'):
                j['done'] = True
                j['fail'] = 'memory:crash'
                continue
            ea = [e for op in parse_result(ra)[0] for e in op if e[0] == 'tx' and e[4]]
            eb = [e for op in parse_result(rb)[0] for e in op if e[0] == 'tx' and e[4]]
            newa, newb = ea[j['seenA']:], eb[j['seenB']:]
            j['seenA'], j['seenB'] = len(ea), len(eb)
            j['dlv'] = [e for op in parse_result(rb)[0] for e in op if e[0] == 'dlv' and e[2] == j['pgn']]
            j['stateA'] = ra.rsplit('|', 1)[1]
            if not newa and not newb:
                if j.get('idle', 0) >= (3 if not j['bam'] else 2) and ' tp=0 ' in j['stateA']:
                    j['done'] = True
                j['idle'] = j.get('idle', 0) + 1
                # nothing in flight: let time pass (broadcast sessions advance by timer)
                j['A'][1] += ['T 51', 'P']
                j['B'][1] += ['T 51', 'P']
                continue
            j['idle'] = 0
            j['B'][1] += ['R %x %d %s' % (e[1], e[2], bytes(e[3]).hex()) for e in newa] + ['P']
            j['A'][1] += ['R %x %d %s' % (e[1], e[2], bytes(e[3]).hex()) for e in newb] + ['P']
    bad = 0
    for j in jobs:
        want = [('dlv', 7, j['pgn'], 22, 255 if j['bam'] else 44, j['n'], list(j['payload']))]
        got = [tuple(e[:6]) + (list(e[6]),) for e in j.get('dlv', [])]
        if j.get('fail') or got != want or not j['done']:
            bad += 1
            if bad == 1:
                rp = vlib.write_replay(run.pid, 'lib2lib-%s-%d' % (fs, j['n']), {'property': run.pid, 'family': 'lib-to-lib-' + fs, 'failed': 'library-to-library transfer',
                                       'what': 'payload of %d bytes (%s): receiver delivered %s; sender state %s' % (j['n'], 'BAM' if j['bam'] else 'RTS/CTS', str(got)[:300], j.get('stateA', ''))},
                                       [j['A'][0] + ' ; '.join(j['A'][1]), j['B'][0] + ' ; '.join(j['B'][1])])
                run.violation(rp)
    run.add_cases('lib-to-lib-' + fs, 2 * len(jobs), ['l2l-%s-%d' % (fs, j['n']) for j in jobs], [])
    run.cov['families']['lib-to-lib-' + fs].update({'transfers': len(jobs), 'failed': bad, 'flagset': fs})


def check(run, replay=None):
    cases = vlib.read_replay(replay) if replay else vlib.corpus_lines('C10') + c10_gen.gen(run.seed, run.tier)
    run.cov['rule'] = ('two-party and multi-party transport sessions on the node harness, library as originator (RTS/CTS and BAM) and as responder, payload lengths 9..223 '
                       '(thorough: every length in every role; quick: 9,13,14,15,21,22,222,223 + random), CTS windows 1..255 and 0 (pause), answers delayed by 0/1/49/50/51/52/99/100/101/150/1250 ms '
                       'with and without a poll in between, peers that abort / acknowledge early / ask for a wrong packet / another PGN / never answer, control frames from a third station, BAM with poll '
                       'jitter around 50 ms, concurrent sessions from 2..4 sources to 1..3 devices interleaved with fast-packet and single-frame traffic, EVERY single dropped / duplicated / swapped '
                       'received frame of valid sessions (3 lengths quick, 7 thorough; both roles; RTS and BAM) each followed by a fresh transfer with the same and with another PGN, transfers the '
                       'library cannot hold (224..65535 bytes, unknown PGN with only-known handling, 1..3 reassembly buffers with one source too many), address loss in mid session, non-conforming '
                       'peers and driver back-pressure (model/implementation agreement and memory safety only), clock origins around 2^31, 2^32 (incl. the values whose timer sum is the "disabled" '
                       'sentinel) and 2^33, both scheduler builds.  Reference checker written from the property text; library-to-library transfers co-simulated on the C++.  non-trivial = case with bus traffic')
    for fs in ('w64', 'w32'):
        vlib.correspond(run, 'tp-' + fs, 'h_node', fs, 'NODE', cases, oracle, nontrivial, known=known, model_args=[fs])
    if not replay:
        lens = list(range(9, 224)) if run.tier != 'quick' else [9, 13, 14, 15, 21, 22, 36, 100, 222, 223]
        for fs in ('w64', 'w32'):
            lib_to_lib(run, lens, fs)
