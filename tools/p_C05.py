# C05 - every PGN setter/parser pair round-trips all field values: generator, property oracle, correspondence.
# The model is the IR interpreter (coq/Model/MsgExec.v) applied to the IR terms that tools/cxx2coq.py regenerates from the C++ on
# every run; the harness (harness/h_msgs.cpp + generated dispatch table) calls every real setter / parser / alias wrapper.
import os, sys, random, struct, math, json, re, glob, hashlib
from fractions import Fraction
import vlib
import cxx2coq

# regenerate coq/Gen/GenMessages.v, GenObligations.v, the dispatch table and the metadata BEFORE the proof build of ./check
# (vlib.coq_make only knows gen_tables until the one-line hook is added there; running it twice is harmless: write-if-changed, cached)
META = cxx2coq.main()
FNID = {f['id']: f for f in META['functions']}
FN = {f['name']: f for f in META['functions']}
NA = -1e9
NA_BITS = 'c1cdcd6500000000'
SENT_D = '40c81c8000000000'

# findings reported to the lead but not yet entered in known_findings.json (key = text before the first ':' of the oracle's message)
PENDING_KNOWN = {
    'PGN127489.Status2.Status.int': 'PGN 127489: SetN2kPGN127489 writes all 16 bits of discrete status 2, tN2kDD223::operator=(uint16_t) used by the parser keeps the low 8 (bits Manufacturer1..8 are lost, e.g. 0x0100 parses as 0)',
    'PGN128776.WindlassControlEvents.Events.int': 'PGN 128776: setter writes the whole events byte, tN2kDD478::SetEvents used by the parser keeps bit 0 only (2 parses as 0)',
    'PGN128777.WindlassOperatingEvents.Events.int': 'PGN 128777: setter writes 6 event bits, tN2kDD483::SetEvents used by the parser keeps 5 (32 parses as 0)',
    'PGN128778.WindlassMonitoringEvents.Events.int': 'PGN 128778: setter writes the whole events byte, tN2kDD477::SetEvents used by the parser keeps the low 3 bits (8 parses as 0)',
}


def db(x):
    return struct.pack('>d', x).hex()


def bd(h):
    return struct.unpack('>d', bytes.fromhex(h))[0]


def pbits(p):
    return struct.unpack('>d', struct.pack('>Q', p))[0]


def lo_(n, s):
    return -(1 << (8 * n - 1)) if s else 0


def orc_(n, s):
    return ((1 << (8 * n - 1)) if s else (1 << (8 * n))) - 2


# ------------------------------------------------------------------------------------------------ value pools
AIS_SAFE = ' !"#$%&\'()*+,-./0123456789:;<=>?ABCDEFGHIJKLMNOPQRSTUVWXYZ[\\]^_'
ASCII = ''.join(chr(c) for c in range(0x20, 0x7f))


def enum_bits(x):
    vals = x.get('values')
    if not vals:
        return None
    m = max(vals)
    return max(1, m.bit_length())


def int_range(x):
    """values the C++ type can legally hold (for enumerations: the range of enumeration values)"""
    ct = x['ct']
    if ct['b']:
        return 0, 1
    eb = enum_bits(x)
    if eb is not None and not ct['s']:
        return 0, (1 << eb) - 1
    if ct['s']:
        return -(1 << (ct['w'] - 1)), (1 << (ct['w'] - 1)) - 1
    return 0, (1 << ct['w']) - 1


def field_width(x):
    """width in bits of the field the setter gives an unsigned integer argument (None: argument does not reach the payload)"""
    lo, hi = int_range(x)
    b = x.get('bits')
    if b is None:
        return None
    return min(b, hi.bit_length())


def int_pool(r, x, thorough):
    lo, hi = int_range(x)
    pool = {lo, hi, 0 if lo <= 0 else lo, min(hi, 1), max(lo, hi - 1)}
    for v in x.get('values') or []:
        if lo <= v <= hi:
            pool.add(v)
    w = hi.bit_length()
    fw = field_width(x)
    if fw is not None and 0 < fw <= 6 and lo == 0:
        pool |= set(range(0, min(hi, (1 << fw) - 1) + 1))          # every bit pattern of a packed field
        if hi >= (1 << fw):
            pool |= {1 << fw, min(hi, (1 << fw) + 1)}               # first values that do not fit the field
    for j in range(w):
        if lo <= (1 << j) <= hi and (w <= 16 or j % 5 == 0 or j >= w - 2):
            pool.add(1 << j)
            pool.add((1 << j) - 1)
    if lo < 0:
        pool |= {-1, lo + 1, -2}
    pool |= {v for v in (0x55, 0xaa, 0x5555, 0xaaaa, 0x55555555, 0xaaaaaaaa, 254, 255, 0xfffe, 0x7fff, 0x8000, 0x7fffffff, 0x80000000, 0xfffffffe) if lo <= v <= hi}
    out = sorted(pool)
    for _ in range(12 if not thorough else 200):
        out.append(r.randint(lo, hi))
    return out


def dbl_pool(r, x, thorough):
    vals = [NA, 0.0, -0.0]
    for f in x.get('fields') or []:
        if 'p' not in f:
            continue
        n, s, p = f['n'], f['s'], pbits(f['p'])
        L, O = lo_(n, s), orc_(n, s)
        codes = {L, L + 1, -1, 0, 1, 2, O - 1, O - 2, (L + O) // 2, O // 3, O, O + 1, O + 2, L - 1, L - 2, 100, -100, 12345 % max(2, O)}
        for _ in range(10 if not thorough else 300):
            codes.add(r.randint(L, O - 1))
        for c in sorted(codes):
            c2 = c
            if n == 8 and abs(c) > (1 << 53):
                c2 = float(c)
            v = c2 * p
            vals.append(v)
            if r.random() < 0.3:
                vals.append((c + r.choice([0.25, -0.25, 0.5, -0.5, 0.49, 0.75])) * p)
        vals += [1e300, -1e300, math.inf, -math.inf, math.nan, math.nextafter(NA, 0), 1e-300]
    if not x.get('fields'):
        vals += [1.0, -1.0, 123.456, 1e9, r.uniform(-1e6, 1e6)]
    return vals


def rand_text(r, n, alphabet):
    return ''.join(r.choice(alphabet) for _ in range(n))


def text_pool(r, x, thorough, pgn=None):
    cap = (x['arr'] - 1) if x.get('arr') else 400
    fl = [f for f in (x.get('fields') or []) if 'form' in f]
    ln = fl[0]['len'] if fl else 10
    form = fl[0]['form'] if fl else 'WStr'
    alpha = AIS_SAFE if form == 'WAISStr' else ASCII
    lens = sorted({0, 1, 2, max(0, ln - 1), ln, ln + 1, ln + 7, ln // 2})
    out = []
    for n in lens:
        if n <= cap:
            out.append(rand_text(r, n, alpha))
            out.append(rand_text(r, n, alpha))
    out.append(rand_text(r, min(cap, ln), 'abcxyz@~`{|}') if ln else '')         # characters an AIS field does not keep
    out.append(rand_text(r, min(cap, max(1, ln // 2)), alpha) + ' ')
    for _ in range(4 if not thorough else 40):
        out.append(rand_text(r, r.randint(0, min(cap, ln + 3)), alpha))
    out = [t.encode('latin1') for t in out]
    if form == 'WVarStr' and x.get('arr') and pgn in UNICODE_VARSTR:
        # text outside ASCII (carried as UCS-2): UTF-8 forms that end exactly at / just below the capacity of the application's buffer
        # with a 2- or 3-byte character, and mixtures
        for L in sorted({cap, cap - 1, cap - 2, cap // 2, 5}):
            for last in ('\u00e4', '\u6c34', '\u0416', '\u07ff'):
                n = L - len(last.encode())
                if n >= 0:
                    out.append((rand_text(r, n, 'ABCDEFGHIJKLMNOPQRSTUVWXYZ') + last).encode())
        for _ in range(3 if not thorough else 30):
            t = ''
            while len(t.encode()) < cap - 3 and r.random() < 0.9:
                t += r.choice(['a', 'B', '7', ' ', '\u00f6', '\u00c5', '\u6d77', '\u20ac', '\u0080', '\u03a9', '\u0416', '\u05e9', '\u0641', '\u07ff', '\u0800', '\ufffd'])
            out.append(t.encode())
    return out


def list_pool(r, x, thorough):
    out = [[], [59392], [126996, 126464, 60928]]
    for _ in range(6 if not thorough else 40):
        out.append([r.choice([r.randint(1, 0x1ffff), 0xffffff, 0x1000000 + r.randint(1, 99), r.randint(1, 255)]) for _ in range(r.randint(1, 20))])
    return out


def tok(x, v):
    k = x['kind']
    if k == 'int':
        return 'i%d' % v
    if k == 'double':
        return 'd' + db(v)
    if k == 'text':
        return 't' + (v.hex() if v else '-')
    if k == 'list':
        return 'l' + (','.join(str(e) for e in v) if v else '-')
    raise ValueError(k)


def pools_for(r, f, thorough):
    P = []
    for x in f['ins']:
        k = x['kind']
        if k == 'int':
            P.append(int_pool(r, x, thorough))
        elif k == 'double':
            P.append(dbl_pool(r, x, thorough))
        elif k == 'text':
            P.append(text_pool(r, x, thorough, f.get('pgn')))
        else:
            P.append(list_pool(r, x, thorough))
    return P


def tuples(r, f, count, thorough):
    """argument tuples aimed at every field: tuple k takes element k of every pool (so every boundary of every field occurs
    against ordinary and extreme neighbours), then random mixtures"""
    P = pools_for(r, f, thorough)
    if not P:
        return [[]]
    out = []
    longest = max(len(p) for p in P)
    for k in range(min(count, longest)):
        out.append([p[k % len(p)] for p in P])
    for k in range(min(count // 4, longest)):
        out.append([p[(k * 7 + i * 3) % len(p)] for i, p in enumerate(P)])
    while len(out) < count:
        out.append([r.choice(p) for p in P])
    return out


def parser_in_tuple(r, p, s_tuple, s):
    """input arguments of a parser (buffer sizes, indices)"""
    out = []
    for x in p['ins']:
        if x['kind'] != 'int':
            out.append(None)
            continue
        lo, hi = int_range(x)
        if re.search(r'size', x['name'], re.I):
            v = r.choice([64, 200, 36, 21, 8, 7, 2, 1, 33, 16, 0, 300])
        else:
            v = r.choice([0, 1, 2, 5, 17, 18, 19, 255])
        out.append(max(lo, min(hi, v)))
    return out


# ------------------------------------------------------------------------------------------------ generation
def pair_list():
    return [q for q in META['pairs'] if FNID[q['s']]['harness'] and FNID[q['p']]['harness']]


def gen(seed, tier):
    r = random.Random(seed * 7919 + 5)
    thorough = tier != 'quick'
    per = 200 if not thorough else 3000
    cases = []
    covered = set()
    for q in pair_list():
        s, p = FNID[q['s']], FNID[q['p']]
        for tup in tuples(r, s, per, thorough):
            pin = parser_in_tuple(r, p, tup, s)
            cases.append('R %s %s %d %s' % (s['name'], p['name'], len(tup), ' '.join([tok(x, v) for x, v in zip(s['ins'], tup)] + [tok(x, v) for x, v in zip(p['ins'], pin)])))
        covered.add(s['id'])
        covered.add(p['id'])
    # the one-bool-per-bit alias of PGN 127489 against the parser that returns the two status words: every flag alone, all but one, random
    fs = [f for f in META['functions'] if f['kind'] == 'S' and f['harness'] and all(b in [x['name'] for x in f['ins']] for b in STATUS1_BITS + STATUS2_BITS)]
    ps = [f for f in META['functions'] if f['kind'] == 'P' and f['harness'] and f.get('pgn') == 127489 and 'Status1.Status' in [o.get('name') for o in f.get('outs', [])]]
    for s in fs:
        names = [x['name'] for x in s['ins']]
        base = tuples(r, s, 1, thorough)[0]
        flags = STATUS1_BITS + STATUS2_BITS
        pats = [[b == f1 for b in flags] for f1 in flags] + [[b != f1 for b in flags] for f1 in flags] + [[r.random() < 0.5 for _ in flags] for _ in range(8)]
        for p in ps[:2]:
            for pat in pats:
                tup = list(base)
                for b, v in zip(flags, pat):
                    tup[names.index(b)] = 1 if v else 0
                pin = parser_in_tuple(r, p, tup, s)
                cases.append('R %s %s %d %s' % (s['name'], p['name'], len(tup), ' '.join([tok(x, v) for x, v in zip(s['ins'], tup)] + [tok(x, v) for x, v in zip(p['ins'], pin)])))
    for f in META['functions']:
        if f['kind'] == 'S' and f['harness'] and f['id'] not in covered:
            for tup in tuples(r, f, per, thorough):
                cases.append('S %s %s' % (f['name'], ' '.join(tok(x, v) for x, v in zip(f['ins'], tup))))
    return [c.rstrip() for c in cases]


def gen_setter_probes(seed, tier):
    """S cases whose payloads (taken from the implementation) seed the parser-only cases"""
    r = random.Random(seed * 104729 + 55)
    out = []
    for f in META['functions']:
        if f['kind'] == 'S' and f['harness'] and f.get('pgn') is not None:
            for tup in tuples(r, f, 3 if tier == 'quick' else 12, False)[:3 if tier == 'quick' else 12]:
                out.append((f, 'S %s %s' % (f['name'], ' '.join(tok(x, v) for x, v in zip(f['ins'], tup)))))
    return out


def has_varstr(p):
    return any(o['kind'] == 'text' for o in p.get('outs', [])) and p['name'] and any(re.search(r'129802|129041|129285|130323|126998|SafetyRelated|AtoN|Meteor|Configuration', p['name']) for _ in [0])


def gen_parser_cases(seed, tier, payloads):
    """payloads: pgn -> list of payload hex strings produced by the real setters.  Parser on the right PGN with truncated payloads and
    different garbage beyond the payload length, on other PGNs, on arbitrary bytes."""
    r = random.Random(seed * 15485863 + 505)
    thorough = tier != 'quick'
    cases = []
    allpgns = sorted(payloads.keys())
    for p in META['functions']:
        if p['kind'] != 'P' or not p['harness']:
            continue
        pgn = p.get('pgn')
        own = payloads.get(pgn, []) if pgn is not None else []
        if pgn is None:
            pgn = 0
        ins = lambda: ' '.join(tok(x, v) for x, v in zip(p['ins'], parser_in_tuple(r, p, None, None)))
        for h in own[:6 if not thorough else 40]:
            data = bytes.fromhex(h) if h != '-' else b''
            # other PGNs: same payload
            for other in [pgn + 1, pgn - 1, 0, r.choice(allpgns) if allpgns else 1, 0xffffffff, pgn + 65536, pgn ^ 0x100]:
                if other != pgn and other >= 0:
                    cases.append('P %s %d %d %s %s' % (p['name'], other, len(data), data.hex() or '-', ins()))
            # truncation and garbage: the same (pgn, payload prefix, arguments) with different bytes beyond the payload length
            lens = sorted({0, 1, 2, 3, len(data) // 2, max(0, len(data) - 1), len(data), max(0, len(data) - 2), r.randint(0, len(data))})
            for dl in lens:
                a = ins()
                pre = data[:dl]
                for g in (data[dl:], bytes(r.randrange(256) for _ in range(min(223 - dl, 12 + r.randint(0, 40)))), b'\xff' * min(223 - dl, 20), b'\x00' * min(223 - dl, 20), b''):
                    cases.append('P %s %d %d %s %s' % (p['name'], pgn, dl, (pre + g).hex() or '-', a))
        if not has_varstr(p):
            paired = any(q['p'] == p['id'] for q in META['pairs'])
            for _ in range((10 if paired else 110) if not thorough else 400):
                dl = r.choice([0, 1, 3, 7, 8, 9, 26, 43, r.randint(0, 223)])
                d = bytes(r.randrange(256) for _ in range(dl))
                if r.random() < 0.5 and dl >= 4:
                    d = bytes([0x89, 0x98]) + d[2:]          # Maretron proprietary header
                g = bytes(r.randrange(256) for _ in range(r.randint(0, 223 - dl)))
                a = ins()
                cases.append('P %s %d %d %s %s' % (p['name'], pgn, dl, (d + g).hex() or '-', a))
                cases.append('P %s %d %d %s %s' % (p['name'], pgn, dl, d.hex() or '-', a))
    return [c.rstrip() for c in cases]


# ------------------------------------------------------------------------------------------------ the property oracle
def parse_arg(t):
    k, b = t[0], t[1:]
    if k == 'i':
        return int(b)
    if k == 'd':
        return b
    if k == 't':
        return b'' if b == '-' else bytes.fromhex(b)
    if k == 'l':
        return [] if b == '-' else [int(x) for x in b.split(',')]
    raise ValueError(t)


def written(conds, s, sargs):
    """is a field that the setter writes inside conditionals part of the message for these arguments?"""
    if not conds:
        return True
    env = {i: v for i, v in enumerate(sargs) if isinstance(v, int)}
    for e, pol in conds:
        try:
            v = cxx2coq.pyeval(e, env)
        except Exception:
            return False
        if (v != 0) != pol:
            return False
    return True


def field_name(s, a):
    return re.sub(r'^N2kData\.', '', s['ins'][a]['name'])


# variable-length text of these PGNs may be carried as UCS-2: maximum counted in characters / in bytes of the field (N2kMessages.h, NMEA2000.h)
UNICODE_VARSTR = {130323: 'chars', 129285: 'chars', 126998: 'bytes'}


def text_expect(x, t, bufsize, pgn=None):
    """what a parser must return for text argument t of a setter, or None when the property says nothing (characters the field cannot carry)"""
    fl = [f for f in (x.get('fields') or []) if 'form' in f]
    if len(fl) != 1:
        return None
    form, ln = fl[0]['form'], fl[0]['len']
    if form == 'WVarStr' and any(c >= 0x80 for c in t) and not any(c < 0x20 or c == 0x7f for c in t):
        mode = UNICODE_VARSTR.get(int(pgn)) if pgn is not None and str(pgn).isdigit() else None
        try:
            chars = t.decode('utf-8')
        except UnicodeDecodeError:
            return None
        if mode is None or any(ord(c) > 0xffff or 0xd800 <= ord(c) < 0xe000 for c in chars) or len(chars) > 40:
            return None               # invalid / astral text and payload overflow belong to C16
        chars = chars[:(ln if mode == 'chars' else ln // 2)]
        if bufsize is not None:
            if bufsize == 0:
                return None
            while len(chars.encode()) > bufsize - 1:       # whole characters only
                chars = chars[:-1]
        return chars.encode()
    if any(c < 0x20 or c > 0x7e for c in t) or 0x40 in t:
        return None          # '@' is the AIS "no character" code: what a parser does with it belongs to C16
    if form == 'WAISStr':
        if any(chr(c) not in AIS_SAFE for c in t):
            return None
    if form == 'WStr' and 0xff in t:
        return None
    e = t[:ln]
    if bufsize is not None:
        if bufsize == 0:
            return None
        e = e[:bufsize - 1]
    return e


# ------------------------------------------------------------------------------------------------ repeated-record PGNs (setter + n appends)
P_1E4, P_1E2, P_1E5, P_1E7 = 4547007122018943789, 4576918229304087675, 4532020583610935537, 4502148214488346440
MAX_SAT = 18
# record layouts as published (field, kind): the oracle decodes the payload / judges the record parser with these, not with the library
REC = {
    129540: {'setters': ['SetN2kPGN129540', 'SetN2kGNSSSatellitesInView'], 'appends': ['AppendN2kPGN129540', 'AppendSatelliteInfo'],
             'hparsers': ['ParseN2kPGN129540', 'ParseN2kPGNSatellitesInView'], 'rparsers': ['ParseN2kPGN129540_o2', 'ParseN2kPGNSatellitesInView_o2'],
             'fields': [('int', 8), ('dbl', 2, True, P_1E4), ('dbl', 2, False, P_1E4), ('dbl', 2, True, P_1E2), ('dbl', 4, True, P_1E5), ('int', 4)]},
    129285: {'setters': ['SetN2kPGN129285_o2', 'SetN2kPGN129285', 'SetN2kRouteWPInfo'], 'appends': ['AppendN2kPGN129285', 'AppendN2kRouteWPInfo'],
             'hparsers': ['-'], 'rparsers': ['-'], 'fields': [('int', 16), ('text', 30), ('dbl', 4, True, P_1E7), ('dbl', 4, True, P_1E7)]},
    130074: {'setters': ['SetN2kPGN130074', 'SetN2kWaypointList'], 'appends': ['AppendN2kPGN130074', 'AppendN2kWaypointList'],
             'hparsers': ['-'], 'rparsers': ['-'], 'fields': [('int', 16), ('text', None), ('dbl', 4, True, P_1E7), ('dbl', 4, True, P_1E7)]},
}


def rec_pools(r, pgn, thorough):
    P = []
    for f in REC[pgn]['fields']:
        if f[0] == 'int':
            w = f[1]
            vals = [0, 1, (1 << w) - 1, (1 << w) - 2, 1 << (w - 1), 0x55 & ((1 << w) - 1)]
            if pgn == 129540 and w == 4:
                vals = list(range(16))
            elif pgn == 129540:
                vals += [255, 254, 32]
            P.append(('int', vals + [r.randrange(1 << w) for _ in range(6)]))
        elif f[0] == 'dbl':
            P.append(('double', dbl_pool(r, {'kind': 'double', 'fields': [{'n': f[1], 's': f[2], 'p': f[3]}]}, thorough)))
        else:
            lens = [0, 1, 2, 5, 8, 12, 29, 30, 31, 40] if f[1] else [0, 1, 2, 5, 8, 12, 30, 40]
            names = [rand_text(r, n, ASCII).encode() for n in lens for _ in range(2)]
            P.append(('text', names))
    return P


def gen_append(seed, tier):
    """setter, then n appends (n = 0, 1, 2, max-1, max, max+1, max+2 and random; names of varying length so that the payload limit is
    reached before / after the record limit), then the header parser and the record parser for every index up to beyond the count"""
    r = random.Random(seed * 2750159 + 5)
    thorough = tier != 'quick'
    cases = []
    for pgn, d in REC.items():
        fns = [FN.get(x) for x in d['setters'] + d['appends']]
        if any(f is None or not f['harness'] for f in fns):
            continue
        P = rec_pools(r, pgn, thorough)
        k = len(P)
        reps = (36 if pgn == 129540 else 26) * (1 if not thorough else 12)
        for rep in range(reps):
            sname, aname = d['setters'][rep % len(d['setters'])], d['appends'][(rep // 2) % len(d['appends'])]
            hp, rp = d['hparsers'][rep % len(d['hparsers'])], d['rparsers'][(rep // 3) % len(d['rparsers'])]
            s = FN[sname]
            htup = tuples(r, s, 3, False)[rep % 3]
            for j, x in enumerate(s['ins']):              # route names: ASCII, short and long
                if x['kind'] == 'text':
                    htup[j] = rand_text(r, r.choice([0, 1, 7, 29, 30, 31, 45]), ASCII).encode()
            if pgn == 129540:
                n = [0, 1, 2, 17, 18, 19, 20, 18, 18][rep % 9] if rep < 27 else r.randint(0, 20)
                namelen = None
            else:
                n = [0, 1, 2, 3, 9, 14, 17, 20, 24][rep % 9] if rep < 18 else r.randint(0, 24)
                namelen = [None, 0, 1, 30, 31, 60, 100, 190, 5][rep % 9]
            recs = []
            for i in range(n):
                rec = []
                for (kind, pool) in P:
                    v = pool[(rep * 7 + i * 3 + len(rec)) % len(pool)] if rep % 2 == 0 else r.choice(pool)
                    if kind == 'text' and namelen is not None:
                        v = rand_text(r, namelen if i % 3 else max(0, namelen - i), ASCII).encode()
                    if kind == 'text' and pgn != 129540 and rep % 13 == 5:
                        # mostly-ASCII names with one accented character are stored as UCS-2 (two bytes per character): longer than the setter's
                        # estimate, so that near the payload limit the append has to take back what it wrote
                        v = ('\u00e4' + rand_text(r, r.choice([13, 15, 17]) + (i % 3), ASCII)).encode('utf-8')
                    rec.append(tok({'kind': kind}, v))
                recs += rec
            nidx = min(n, 21) + 2 if rp != '-' else 0
            cases.append(('A %s %s %s %s %d %s %d %d %s %d' % (sname, aname, hp, rp, len(htup), ' '.join(tok(x, v) for x, v in zip(s['ins'], htup)), k, n,
                                                             ' '.join(recs), nidx)).replace('  ', ' '))
    return cases


def scaled_ok(v, got_bits, nb, sg, pr_bits):
    """None if got (double bits hex or raw double) is an acceptable reading of argument v in an nb-byte field of that resolution"""
    pr = pbits(pr_bits)
    if v == NA:
        return None if got_bits == NA_BITS else 'not available read as %s' % got_bits
    if math.isnan(v) or math.isinf(v):
        return None
    qv = Fraction(v) / Fraction(pr)
    L, O = lo_(nb, sg), orc_(nb, sg)
    if not (L <= qv <= O - 1):
        return None
    if got_bits in ('nan', NA_BITS):
        return 'in-range value %r read as %s' % (v, got_bits)
    rv = bd(got_bits)
    err = abs(Fraction(rv) - Fraction(v)) / abs(Fraction(pr))
    if err > Fraction(1, 2) + abs(qv) * Fraction(1, 2 ** 50) + Fraction(1, 10 ** 12):
        return '%r read as %r, off by %.6g steps' % (v, rv, float(err))
    return None


def code_to_bits(code, nb, sg, pr_bits):
    """what a reader of the published layout obtains from a raw little endian field"""
    na = ((1 << (8 * nb - 1)) if sg else (1 << (8 * nb))) - 1
    if sg and code >= (1 << (8 * nb - 1)):
        code -= 1 << (8 * nb)
    if code == na:
        return NA_BITS
    return db(code * pbits(pr_bits))


def read_varstr(data, o):
    if o + 2 > len(data):
        return None, o
    ln, ty = data[o], data[o + 1]
    if ln < 2 or o + ln > len(data):
        return None, o
    return (ty, bytes(data[o + 2:o + ln])), o + ln


def oracle_append(t, res):
    sname, aname, hp, rp = t[1], t[2], t[3], t[4]
    s = FN[sname]
    pgn = s.get('pgn')
    d = REC.get(pgn)
    if d is None:
        return None
    nh = int(t[5])
    hargs = [parse_arg(x) for x in t[6:6 + nh]]
    k, n = int(t[6 + nh]), int(t[7 + nh])
    rtok = t[8 + nh:8 + nh + n * k]
    recs = [[parse_arg(x) for x in rtok[i * k:(i + 1) * k]] for i in range(n)]
    parts = res.split(' | ')
    m = re.fullmatch(r'k\S+ A (\S+) S (\d+) (\d+) (\d+) (\d+) (\S+)', parts[0])
    if not m:
        return 'harness:unparsable result'
    steps = m.group(1)
    acc = [] if steps == '-' else [steps[2 * i:2 * i + 2] for i in range(n)]
    data = b'' if m.group(6) == '-' else bytes.fromhex(m.group(6))
    key = 'PGN%d.records' % pgn
    INFO['append_cases'] = INFO.get('append_cases', 0) + 1
    if any(a == '0!' for a in acc):
        return '%s.refused-append-changes-message:%s append %d returned false but changed the message' % (key, aname, acc.index('0!'))
    hnames = {x['name']: v for x, v in zip(s['ins'], hargs)}
    if pgn == 129540:
        for i, a in enumerate(acc):
            if i < MAX_SAT and a != '1+':
                return '%s.append-refused:%s refused record %d of at most %d' % (key, aname, i, MAX_SAT)
            if i >= MAX_SAT and a == '1+':
                return '%s.append-beyond-maximum:%s accepted record %d' % (key, aname, i)
        cnt = min(n, MAX_SAT)
        if len(data) != 3 + 12 * cnt:
            return '%s.length:%d records in %d bytes' % (key, cnt, len(data))
        for ptxt in parts[1:]:
            mm = re.fullmatch(r'(H|I(\d+)) P (\d)(.*)', ptxt)
            if not mm:
                return 'harness:unparsable result'
            outs = mm.group(4).split()
            if mm.group(1) == 'H':
                if mm.group(3) != '1':
                    return '%s.header:%s returned false' % (key, hp)
                if outs[2] != 'i%d' % cnt:
                    return '%s.count:%s reports %s records after %d accepted appends' % (key, hp, outs[2][1:], cnt)
                if outs[0] != 'i%d' % hnames.get('SID', 0) or outs[1] != 'i%d' % (hnames.get('Mode', 0) & 3):
                    return '%s.header:%s returned SID %s mode %s' % (key, hp, outs[0], outs[1])
                continue
            i = int(mm.group(2))
            if i >= cnt:
                if mm.group(3) != '0':
                    return '%s.index-beyond-count:%s returned true for index %d of %d records' % (key, rp, i, cnt)
                continue
            INFO['record_reads'] = INFO.get('record_reads', 0) + 1
            if mm.group(3) != '1':
                return '%s.record-refused:%s returned false for index %d of %d records' % (key, rp, i, cnt)
            rec = recs[i]
            if outs[0] != 'i%d' % rec[0]:
                return '%s.PRN.int:record %d PRN %d parsed as %s' % (key, i, rec[0], outs[0][1:])
            if rec[5] < 16 and outs[5] != 'i%d' % rec[5]:
                return '%s.UsageStatus.int:record %d usage status %d parsed as %s' % (key, i, rec[5], outs[5][1:])
            for j, nm in ((1, 'Elevation'), (2, 'Azimuth'), (3, 'SNR'), (4, 'RangeResiduals')):
                f = d['fields'][j]
                w = scaled_ok(bd(rec[j]), outs[j][1:], f[1], f[2], f[3])
                if w:
                    return '%s.%s.scaled:record %d of %d: %s' % (key, nm, i, cnt, w)
        return None
    # 129285 / 130074: no parser in the library; decode the payload as the published layout says
    try:
        if pgn == 129285:
            start, items, db_, route = (int.from_bytes(data[i:i + 2], 'little') for i in (0, 2, 4, 6))
            flags = data[8]
            rn, o = read_varstr(data, 9)
            if rn is None:
                return '%s.header:route name not decodable' % key
            o += 1
            want = {'Start': start, 'Database': db_, 'Route': route}
            nav, sup = flags & 7, (flags >> 3) & 3
            for nm, got in list(want.items()) + [('NavDirection', nav), ('SupplementaryData', sup)]:
                if nm in hnames and (hnames[nm] & (0xffff if nm in want else (7 if nm == 'NavDirection' else 3))) != got:
                    return '%s.header.%s:%d written as %d' % (key, nm, hnames[nm], got)
            if 'RouteName' in hnames and all(0x20 <= c < 0x7f for c in hnames['RouteName']) and rn[0] == 1 and rn[1] != hnames['RouteName'][:30]:
                return '%s.header.RouteName:%r written as %r' % (key, hnames['RouteName'], rn[1])
        else:
            start, items, nwp, db_ = (int.from_bytes(data[i:i + 2], 'little') for i in (0, 2, 4, 6))
            o = 10
            for nm, got in (('Start', start), ('NumWaypoints', nwp), ('Database', db_)):
                if nm in hnames and hnames[nm] != got:
                    return '%s.header.%s:%d written as %d' % (key, nm, hnames[nm], got)
    except IndexError:
        return '%s.header:payload of %d bytes too short' % (key, len(data))
    cur = o
    kept = []
    for i, (a, rec) in enumerate(zip(acc, recs)):
        name = rec[1]
        size = 12 + (min(len(name), 30) if pgn == 129285 else max(1, len(name)))
        fit = 12 + len(name)
        if pgn == 129285 and any(c >= 0x80 for c in name):
            # (129285 stores names with unicode support; 130074 stores the bytes as they are) a name with a non-ASCII character is stored as UCS-2: two bytes per character (characters beyond the limit of 30 cut)
            try:
                nch = len(bytes(name).decode('utf-8'))
            except UnicodeDecodeError:
                nch = len(name)
            size = 12 + 2 * (min(nch, 30) if pgn == 129285 else max(1, nch))
            fit = max(fit, size)          # the setter decides by its estimate (UTF-8 length) and then by what the text really took
        if a == '1+':
            if cur + size > 223:
                return '%s.append-beyond-payload:%s accepted record %d of %d bytes with %d bytes used' % (key, aname, i, size, cur)
            kept.append(rec)
            cur += size
        elif cur + fit + 2 <= 223:
            return '%s.append-refused:%s refused record %d (%d byte name) with %d of 223 bytes used' % (key, aname, i, len(name), cur)
    if items != len(kept):
        return '%s.count:header reports %d items after %d accepted appends' % (key, items, len(kept))
    for i, rec in enumerate(kept):
        INFO['record_reads'] = INFO.get('record_reads', 0) + 1
        if o + 2 > len(data):
            return '%s.length:record %d missing' % (key, i)
        rid = int.from_bytes(data[o:o + 2], 'little')
        nmv, o2 = read_varstr(data, o + 2)
        if nmv is None or o2 + 8 > len(data):
            return '%s.length:record %d not decodable' % (key, i)
        if rid != rec[0]:
            return '%s.ID.int:record %d ID %d written as %d' % (key, i, rec[0], rid)
        name = rec[1]
        if all(0x20 <= c < 0x7f for c in name):
            exp = name[:30] if pgn == 129285 else (name if name else b'\x00')
            if nmv[0] != 1 or nmv[1] != exp:
                return '%s.Name.text:record %d name %r written as type %d %r' % (key, i, name, nmv[0], nmv[1])
        for j, nm in ((2, 'Latitude'), (3, 'Longitude')):
            code = int.from_bytes(data[o2 + 4 * (j - 2):o2 + 4 * (j - 1)], 'little')
            w = scaled_ok(bd(rec[j]), code_to_bits(code, 4, True, P_1E7), 4, True, P_1E7)
            if w:
                return '%s.%s.scaled:record %d: %s' % (key, nm, i, w)
        o = o2 + 8
    if o != len(data):
        return '%s.length:%d bytes after the last record' % (key, len(data) - o)
    return None


LOCAL = {}
INFO = {'out_of_field_values': {}, 'skipped_out_of_range': 0, 'checked_int': 0, 'checked_scaled': 0, 'checked_na': 0, 'checked_text': 0, 'checked_refusals': 0, 'locality_groups': 0, 'skipped_conditional': 0}


# PGN 127489, discrete status 1 (16 bits) and 2 (8 bits): bit k of the status word, in the order of the published field list; the alias
# that takes one bool per bit must put each flag on its bit (independent of how the library composes the word)
STATUS1_BITS = ['flagCheckEngine', 'flagOverTemp', 'flagLowOilPress', 'flagLowOilLevel', 'flagLowFuelPress', 'flagLowSystemVoltage', 'flagLowCoolantLevel', 'flagWaterFlow',
                'flagWaterInFuel', 'flagChargeIndicator', 'flagPreheatIndicator', 'flagHighBoostPress', 'flagRevLimitExceeded', 'flagEgrSystem', 'flagTPS', 'flagEmergencyStopMode']
STATUS2_BITS = ['flagWarning1', 'flagWarning2', 'flagPowerReduction', 'flagMaintenanceNeeded', 'flagEngineCommError', 'flagSubThrottle', 'flagNeutralStartProtect', 'flagEngineShuttingDown']


def flag_status_expect(s, p, sargs, outs):
    names = [x['name'] for x in s['ins']]
    if not all(b in names for b in STATUS1_BITS + STATUS2_BITS):
        return None
    onames = [o.get('name') for o in p.get('outs', [])]
    for word, bits in (('Status1.Status', STATUS1_BITS), ('Status2.Status', STATUS2_BITS)):
        if word in onames and onames.index(word) < len(outs):
            exp = sum((1 << k) for k, b in enumerate(bits) if sargs[names.index(b)])
            got = outs[onames.index(word)]
            if got != 'i%d' % exp:
                return 'PGN127489.%s.flags:%s with flags %s parsed by %s as %s, expected %d' % (word, s['name'], [b for b in bits if sargs[names.index(b)]], p['name'], got, exp)
    return None


def oracle(case, res):
    t = case.split()
    if res.startswith('crash'):
        fid = t[2] if t[0] in ('R', 'A') else t[1]
        f = FN.get(fid, {})
        return 'PGN%s.undefined-behaviour:%s %s' % (f.get('pgn'), f.get('name'), res)
    if res in ('badcase',):
        return 'harness:badcase'
    if t[0] == 'A':
        return oracle_append(t, res)
    if t[0] == 'B':
        # bank status of PGN 127501: item i (1..28) occupies bits 2(i-1), 2(i-1)+1; setting it changes nothing else; other indices are refused
        b, s, i = int(t[1], 16), int(t[2]), int(t[3])
        rs = res.split()
        want = b if not (1 <= i <= 28) else (b & ~(3 << (2 * (i - 1)))) | (s << (2 * (i - 1)))
        gets = ''.join(str((want >> (2 * (j - 1))) & 3) if 1 <= j <= 28 else '3' for j in range(30))
        if len(rs) != 3 or int(rs[1], 16) != want:
            return 'PGN127501.bank-status.set:item %d := %d on %016x gives %s, expected %016x' % (i, s, b, rs[1] if len(rs) > 1 else '-', want)
        if rs[2] != gets:
            return 'PGN127501.bank-status.get:items of %016x read as %s, expected %s' % (want, rs[2], gets)
        return None
    if t[0] == 'R':
        s, p = FN[t[1]], FN[t[2]]
        n = int(t[3])
        sargs = [parse_arg(x) for x in t[4:4 + n]]
        pargs = [parse_arg(x) for x in t[4 + n:]]
        m = re.fullmatch(r'k\S+ S (\d+) (\d+) (\d+) (\d+) (\S+) \| P (\d)(.*)', res)
        if not m:
            return 'harness:unparsable result'
        outs = m.group(7).split()
        pgn = s.get('pgn')
        q = PAIRMAP.get((s['id'], p['id']))
        fl = flag_status_expect(s, p, sargs, outs)
        if fl:
            return fl
        if q is None:
            return None
        if m.group(6) != '1':
            return 'PGN%s.%s.refused:parser %s returned false for the message of %s' % (pgn, 'ret', p['name'], s['name'])
        for j, a in q['map']:
            x, o = s['ins'][a], p['outs'][j]
            got = outs[j]
            fname = field_name(s, a)
            if x['kind'] == 'int':
                v = sargs[a]
                fw = field_width(x)
                if fw is None or fw == 0:
                    continue
                if not written(x.get('cond'), s, sargs):
                    INFO['skipped_conditional'] += 1
                    continue
                lo, hi = int_range(x)
                if lo < 0:
                    if fw < x['ct']['w']:
                        continue
                elif v >= (1 << fw):
                    INFO['out_of_field_values'].setdefault('PGN%s.%s' % (pgn, fname), set()).add(v)
                    continue
                INFO['checked_int'] += 1
                if got != 'i%d' % v:
                    return 'PGN%s.%s.int:%s(%s=%d) parsed by %s as %s (field of %d bits)' % (pgn, fname, s['name'], x['name'], v, p['name'], got[1:], fw)
            elif x['kind'] == 'double':
                fl = [f for f in (x.get('fields') or []) if 'p' in f]
                if len(fl) != 1:
                    continue
                nb, sg, pr = fl[0]['n'], fl[0]['s'], pbits(fl[0]['p'])
                if not written(fl[0].get('cond'), s, sargs):
                    INFO['skipped_conditional'] += 1
                    continue
                v = bd(sargs[a])
                if v == NA:
                    INFO['checked_na'] += 1
                    if got != 'd' + NA_BITS:
                        return 'PGN%s.%s.na:"not available" set by %s parsed by %s as %s' % (pgn, fname, s['name'], p['name'], got)
                    continue
                if math.isnan(v) or math.isinf(v):
                    continue
                off = pbits(fl[0]['offset']) if 'offset' in fl[0] else 0.0
                qv = (Fraction(v) - Fraction(off)) / Fraction(pr)
                L, O = lo_(nb, sg), orc_(nb, sg)
                if not (L <= qv <= O - 1):
                    INFO['skipped_out_of_range'] += 1
                    continue
                INFO['checked_scaled'] += 1
                if got == 'dnan' or got == 'd' + NA_BITS:
                    return 'PGN%s.%s.scaled:in-range value %r set by %s parsed by %s as %s' % (pgn, fname, v, s['name'], p['name'], 'NaN' if got == 'dnan' else 'not available')
                rv = bd(got[1:])
                err = abs(Fraction(rv) - Fraction(v)) / abs(Fraction(pr))
                tol = (Fraction(1) if nb == 8 else Fraction(1, 2)) + abs(qv) * Fraction(1, 2 ** 50) + Fraction(1, 10 ** 12)
                if err > tol:
                    return 'PGN%s.%s.scaled:%r set by %s (resolution %g) parsed by %s as %r, off by %.6g steps' % (pgn, fname, v, s['name'], pr, p['name'], rv, float(err))
            elif x['kind'] == 'text':
                bs = None
                sz = o.get('size')
                if sz and 'arg' in sz:
                    bs = pargs[sz['arg']]
                elif sz and 'const' in sz:
                    bs = sz['const']
                e = text_expect(x, sargs[a], bs, pgn)
                if e is None:
                    continue
                INFO['checked_text'] += 1
                if got != 't' + (e.hex() if e else '-'):
                    return 'PGN%s.%s.text:%r set by %s parsed by %s as %s' % (pgn, fname, sargs[a], s['name'], p['name'], got)
        return None
    if t[0] == 'P':
        p = FN[t[1]]
        pgn, dl = int(t[2]), int(t[3])
        m = re.fullmatch(r'k\S+ P (\d)(.*)', res)
        if not m:
            return 'harness:unparsable result'
        own = p.get('pgn')
        if own is not None and pgn != own:
            INFO['checked_refusals'] += 1
            if m.group(1) != '0':
                return 'PGN%s.guard:%s accepted a message with PGN %d' % (own, p['name'], pgn)
        data = t[4]
        key = (t[1], t[2], t[3], data[:2 * dl] if data != '-' else '', ' '.join(t[5:]))
        if key in LOCAL:
            if LOCAL[key] != res:
                return 'PGN%s.locality:%s depends on bytes beyond the payload length: %s vs %s' % (own, p['name'], LOCAL[key], res)
        else:
            LOCAL[key] = res
            INFO['locality_groups'] += 1
        return None
    return None


PAIRMAP = {(q['s'], q['p']): q for q in META['pairs']}


def known(case, what):
    key = what.split(':')[0]
    if key in PENDING_KNOWN:
        return PENDING_KNOWN[key]
    for k in vlib.known_findings('C05'):
        if key == k['key'] or what.startswith(k['key']):
            return k['line']
    return None


UNTR = {f['name'] for f in META['functions'] if not f['translated']}


NONASCII_TEXT = re.compile(r' t(?:[0-7][0-9a-f])*[89a-f][0-9a-f]')


def canon(r, case=''):
    """implementation line -> the model's line: functions outside the IR have no model (their results only go to the oracle); the IR
    models text fields for ASCII arguments only (UCS-2 carriage is the C16 model), cases with other text are judged by the oracle alone"""
    if NONASCII_TEXT.search(case):
        return 'nonascii'
    if r.startswith('crash'):
        return 'oob'
    m = re.match(r'k([^ ,]+)(?:,(\S+))? ', r)
    if case.startswith('A '):
        return r            # repeated-record cases: the append functions have a hand-written model (coq/Model/MsgAppendDefs.v)
    if m and (m.group(1) in UNTR or (m.group(2) and m.group(2) in UNTR)):
        return 'untranslated'
    return r


def nontrivial(case, mres):
    return not mres.startswith(('untranslated', 'badcase', 'nofn', 'nonascii'))


def prepare_harness():
    """h_msgs includes the generated dispatch table: rebuild when that file changed although the library did not"""
    d, err = vlib.build_lib('w64')
    if d is None:
        return None, err
    inc = os.path.join(cxx2coq.GEN, 'gen_msgs_dispatch.inc')
    hh = hashlib.sha256(open(inc, 'rb').read()).hexdigest()[:16]
    stamp = os.path.join(d, 'h_msgs.inc-' + hh)
    with vlib.Lock('h-h_msgs-stamp'):
        if not os.path.exists(stamp):
            for old in glob.glob(os.path.join(d, 'h_msgs-*')) + glob.glob(os.path.join(d, 'h_msgs.inc-*')):
                os.remove(old)
        exe, err = vlib.build_harness('h_msgs', 'w64', extra=['-I' + cxx2coq.GEN])
        if exe is not None:
            open(stamp, 'w').close()
    return exe, err


MAYUB = {f['name'] for f in META['functions'] if f.get('may_be_undefined')}
UB_CAP = 30


def cap_undefined(run, cases):
    """vlib restarts the harness after every sanitizer abort and gives up after 200: keep at most UB_CAP of the cases for which the
    model predicts an undefined conversion (they all come from functions whose IR contains a double -> integer conversion)"""
    idx = [i for i, c in enumerate(cases) if any(x in MAYUB for x in c.split()[1:3])]
    if not idx:
        return cases
    mexe, err = vlib.build_model('C05')
    if mexe is None:
        return cases
    mout = vlib.run_model(mexe, [cases[i] for i in idx])
    drop, seen = set(), 0
    for i, m in zip(idx, mout):
        if m == 'oob':
            seen += 1
            if seen > UB_CAP:
                drop.add(i)
    run.cov['undefined_cases'] = {'predicted_by_model': seen, 'kept': min(seen, UB_CAP)}
    return [c for i, c in enumerate(cases) if i not in drop]


def check(run, replay=None):
    exe, err = prepare_harness()
    if exe is None:
        run.broken.append('harness h_msgs does not build against the current /repo/src: %s' % (err or '')[-1500:])
        return
    import defaults_probe
    defaults_probe.check(run, replay)         # default arguments of the setters / parsers / tN2kMsg readers as values, against the pinned table
    if replay and any(l.startswith('DEFAULT ') for l in vlib.read_replay(replay)):
        return
    fl = META['functions']
    run.cov['translator'] = {'functions': len(fl), 'translated': sum(1 for f in fl if f['translated']),
                             'untranslated': {f['name']: f['why'] for f in fl if not f['translated']},
                             'pairs': len(META['pairs']), 'pairs_translated': sum(1 for q in META['pairs'] if q['translated'])}
    ob = META.get('obligations', {})
    rt = ob.get('rt', [])
    gen_n = len(ob.get('rt_names', [])) + len(ob.get('guard_names', []))
    built = run.cov['discharged'] == run.cov['obligations'] and run.cov['obligations'] > 0
    run.cov['generated_obligations'] = {
        'file': 'coq/Gen/GenObligations.v (regenerated from the C++ on this run; each is an Example closed by vm_compute; the property file imports it)',
        'count': gen_n, 'discharged': gen_n if built else 0,
        'rt_pairs_proved': sum(1 for x in rt if x['status'] == 'proved'),
        'rt_pairs_proved_except_known_finding': {x['pair']: x.get('excluded_known') for x in rt if x['status'] == 'partial'},
        'rt_pairs_outside_generic_theorem': {x['pair']: x.get('why') for x in rt if x['status'] == 'shape'},
        'rt_pairs_untranslated': [x['pair'] for x in rt if x['status'] == 'untranslated'],
        'guard_proved': sum(1 for x in ob.get('guard', []) if x['status'] == 'proved'),
        'guard_proved_after_preset_outputs': [x['fn'] for x in ob.get('guard', []) if x['status'] == 'proved-weak'],
        'guard_not_provable': [x['fn'] for x in ob.get('guard', []) if x['status'] not in ('proved', 'proved-weak')]}
    run.cov['obligations'] += gen_n
    run.cov['discharged'] += gen_n if built else 0
    if replay:
        cases = vlib.read_replay(replay)
    else:
        probes = gen_setter_probes(run.seed, run.tier)
        pres = vlib.run_impl(exe, [c for _, c in probes])
        payloads = {}
        for (f, _), rr in zip(probes, pres):
            m = re.fullmatch(r'k\S+ S (\d+) \d+ \d+ \d+ (\S+)', rr)
            if m:
                payloads.setdefault(int(m.group(1)), []).append(m.group(2))
        acases = gen_append(run.seed, run.tier)
        # full messages of the repeated-record PGNs (maximum number of records first) seed the parser-only cases of their parsers
        aprobe = sorted(acases, key=lambda c: -len(c))[:40]
        for rr in vlib.run_impl(exe, aprobe):
            m = re.match(r'k\S+ A \S+ S (\d+) \d+ \d+ \d+ (\S+)', rr)
            if m:
                payloads.setdefault(int(m.group(1)), []).insert(0, m.group(2))
        rb = random.Random(run.seed * 7919 + 127501)
        bcases = ['B %016x %d %d' % (rb.choice([0, (1 << 64) - 1, 0x5555555555555555, 0xaaaaaaaaaaaaaaaa, rb.getrandbits(64)]), s, i)
                  for i in list(range(0, 31)) + [255, 128] for s in range(4)] + ['B %016x %d %d' % (rb.getrandbits(64), rb.randrange(4), rb.randint(1, 28)) for _ in range(200)]
        cases = vlib.corpus_lines('C05') + gen(run.seed, run.tier) + acases + gen_parser_cases(run.seed, run.tier, payloads) + bcases
    cases = cap_undefined(run, cases)
    run.cov['rule'] = ('per setter/parser pair (base x base, and every alias with its partner): argument tuples from per-argument pools - integers: type minimum/maximum, 0, 1, every '
                       'enumerator, every bit pattern of packed fields of <= 6 bits, first values that do not fit the field, single bits, alternating patterns, random; scaled doubles: the codes '
                       'lowest, lowest+1, -1, 0, 1, OR-2, OR-1, OR (out of range), NA, beyond both ends, quarter/half steps, random in-range codes, NaN, +-inf, +-1e300; text: lengths 0, 1, '
                       'width-1, width, width+1, longer, characters outside the AIS alphabet; PGN lists of 0..20 entries - setter on a fresh message whose buffer is pre-filled with 0x5A, '
                       'then the parser on that message.  Parser-only cases: payloads of the real setters under 7 other PGNs, truncated to 0,1,2,3,half,len-2,len-1,len bytes with 5 different '
                       'contents beyond the payload length, random payloads.  Repeated-record PGNs 129540, 129285, 130074 ("A" cases): setter, then n appends (n = 0, 1, 2, max-1, max, max+1, max+2, random; for 129285/130074 names of 0..190 characters so that the 223 byte payload is full before the record count matters), the header parser and the per-record parser for every index up to two beyond the count; every append must be accepted while the record fits, a refused append must leave PGN, priority, destination, length and payload unchanged, the count must equal the accepted appends, every record must come back (through ParseN2kPGN129540(index) for 129540, through the decoder of the published record layout that the oracle contains for 129285/130074, which have no parser), an index at or beyond the count must be refused; full messages of these PGNs also seed the parser-only cases.  Model (IR interpreter on the generated IR) and C++ compared bit-exactly on PGN, priority, destination, length, '
                       'payload, return value and every output (IEEE bit patterns); the oracle is applied to the C++ results.  non-trivial = case with a translated function')
    run.assumptions += ['little-endian host, IEEE-754 binary64; text arguments are ASCII, at most the documented field length apart from deliberate overlong cases (never beyond the 223-byte payload)',
                        'round trip within half a resolution step is stated and checked in exact arithmetic on the argument and result bit patterns; the IEEE rounding of v/precision and of code*precision is '
                        'tolerated by the oracle (2^-50 relative) and not part of any theorem',
                        'the Append functions are outside the IR: they have hand-written Gallina models (coq/Model/MsgAppendDefs.v) compared bit-exactly with the C++ on the "A" cases; '
                        'SetN2kPGN126996Progmem (product information handed over by pointer) is outside the translated subset: it is exercised through a node configured that way, whose '
                        '126996 answers are decoded against the published layout with the configured strings (the node families of the C15 check, run here too)']
    if not (bool(replay) and any(l.startswith('# family: prodinfo-progmem-') for l in open(replay))):
        vlib.correspond(run, 'messages', 'h_msgs', 'w64', 'C05', cases, oracle, nontrivial, canon=canon, known=known)
    info = dict(INFO)
    info['out_of_field_values'] = {k: sorted(v)[:8] for k, v in sorted(INFO['out_of_field_values'].items())}
    run.cov['oracle_checks'] = info
    # the one 126996 setter outside the translated subset (by pointer) and the NAME built from run-time configuration calls: node families shared with C15 (seed C05-21)
    preplay = bool(replay) and any(l.startswith('# family: prodinfo-progmem-') for l in open(replay))
    if preplay or not replay:
        import p_C15
        p_C15.node_families(run, replay, cases if preplay else [], preplay)
