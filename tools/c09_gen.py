# C09 helper: builders for PGN 126208 group function messages (reference layouts written from the published definition of the PGN,
# not from the C++), their carriage (fast packet, ISO-TP RTS/CTS, BAM) and the reference values of the node's own PGNs.
import random
from nodegen import can_id, rx, fp_frames, sender_stream, tp_rts, tp_dt, iso_request

GF = 126208
FC_REQUEST, FC_COMMAND, FC_ACK, FC_READ, FC_READ_REPLY, FC_WRITE, FC_WRITE_REPLY = range(7)
DEDICATED = [60928, 126464, 126993, 126996, 126998]
DEF_TX = [59392, 59904, 60160, 60416, 60928, 126208, 126464, 126993, 126996, 126998]
DEF_RX = [59392, 59904, 60160, 60416, 60928, 65240, 126208]
OTHER_TX = [59392, 59904, 126208]
UNKNOWN = [127250, 129029, 130306, 1, 0, 0xffffff, 126992]
PROPRIETARY = [61184, 65280, 65300, 126720, 130816, 131071]

# reference device description (what harness/h_node.cpp configures: tNMEA2000 defaults)
MODEL_ID, SW_CODE, MODEL_VER, SERIAL = b'Arduino N2k->PC', b'1.0.0.0', b'1.0.0', b'00000001'
N2K_VERSION, PRODUCT_CODE, CERT_LEVEL, LOAD_EQ = 2101, 666, 0, 1
MANUF_INFO = b'NMEA2000 library, https://github.com/ttlappalainen/NMEA2000'
MANUF_CODE, DEV_FUNCTION, DEV_CLASS, INDUSTRY = 2046, 130, 25, 4


def le(v, n):
    return [(v >> (8 * k)) & 255 for k in range(n)]


def ref_name(i, devinst=0, sysinst=0):
    """64-bit NAME of device i as the library's defaults define it"""
    lo = ((1 + i) & 0x1fffff) | (MANUF_CODE << 21)
    hi = (devinst & 0xff) | (DEV_FUNCTION << 8) | ((DEV_CLASS & 0x7f) << 1) << 16 | (0x80 | (INDUSTRY << 4) | (sysinst & 15)) << 24
    return lo | hi << 32


def fix32(s):
    return list(s[:32]) + [0xff] * (32 - len(s[:32]))


def varstr(s, typ=1):
    return [len(s) + 2, typ] + list(s)


def ref_prodinfo():
    return le(N2K_VERSION, 2) + le(PRODUCT_CODE, 2) + fix32(MODEL_ID) + fix32(SW_CODE) + fix32(MODEL_VER) + fix32(SERIAL) + [CERT_LEVEL, LOAD_EQ]


def ref_confinfo(d1=b'', d2=b'', manuf=MANUF_INFO):
    return varstr(d1) + varstr(d2) + varstr(manuf)


# ---- PGN 126208 layouts ----
def pairs_bytes(pairs):
    out = []
    for f, v in pairs:
        out += [f & 255] + list(v)
    return out


def gf_request(pgn, interval=0xffffffff, offset=0xffff, pairs=(), count=None):
    n = len(pairs) if count is None else count
    return [FC_REQUEST] + le(pgn, 3) + le(interval, 4) + le(offset, 2) + [n & 255] + pairs_bytes(pairs)


def gf_command(pgn, prio=8, pairs=(), count=None, reserved=0xf):
    n = len(pairs) if count is None else count
    return [FC_COMMAND] + le(pgn, 3) + [(prio & 15) | (reserved & 15) << 4, n & 255] + pairs_bytes(pairs)


def gf_ack(pgn, pgnec=0, tpec=0, codes=()):
    out = [FC_ACK] + le(pgn, 3) + [(pgnec & 15) | (tpec & 15) << 4, len(codes) & 255]
    for k in range(0, len(codes), 2):
        out.append((codes[k] & 15) | ((codes[k + 1] & 15) if k + 1 < len(codes) else 15) << 4)
    return out


def gf_rw(fc, pgn, unique=0xff, sel=(), params=(), nsel=None, npar=None, manuf=None, industry=4):
    """Read Fields (3) / Write Fields (5) and their replies (4, 6): [fc; PGN; (manufacturer code | reserved | industry group for proprietary PGNs);
    unique id; number of selection pairs; number of parameters; selection pairs; parameters]"""
    out = [fc] + le(pgn, 3)
    if manuf is not None:
        out += le((manuf & 0x7ff) | 0x1800 | (industry & 7) << 13, 2)
    out += [unique & 255, (len(sel) if nsel is None else nsel) & 255, (len(params) if npar is None else npar) & 255]
    out += pairs_bytes(sel)
    for p in params:
        out += list(p) if isinstance(p, (list, tuple, bytes)) else [p]
    return out


def parse_ack(d):
    """reference decoding of an Acknowledge group function -> dict or None"""
    if len(d) < 6 or d[0] != FC_ACK:
        return None
    n = d[5]
    codes = []
    for k in range(n):
        idx = 6 + k // 2
        if idx >= len(d):
            return None
        codes.append((d[idx] >> (4 * (k % 2))) & 15)
    if len(d) != 6 + (n + 1) // 2:
        return None
    if n % 2 == 1 and (d[-1] >> 4) != 15:
        return None
    return {'pgn': d[1] | d[2] << 8 | d[3] << 16, 'pgnec': d[4] & 15, 'tpec': d[4] >> 4, 'n': n, 'codes': codes}


# ---- carriage ----
def carry_fp(r, src, dst, payload, sid=None, prio=3):
    return sender_stream(r, GF, src, dst, bytes(payload), prio=prio, sid=sid)


def carry_tp(src, dst, payload, poll=True):
    """ISO-TP: RTS (addressed; the node answers CTS when polled) or BAM (dst 255), then the data frames"""
    ops = [tp_rts(GF, src, dst, len(payload), maxp=255, bam=(dst == 255))]
    if poll:
        ops.append('P')
    npk = (len(payload) + 6) // 7
    for k in range(1, npk + 1):
        ops.append(tp_dt(src, dst, k, payload[(k - 1) * 7:k * 7]))
        if poll and dst != 255 and k % 5 == 0:
            ops.append('P')
    return ops


def carry(r, how, src, dst, payload):
    if how == 'tp' and len(payload) >= 1:
        return carry_tp(src, dst, payload)
    return carry_fp(r, src, dst, payload)


def node(mode=1, ndev=1, src=22, q=40, slots=5, t0=5000, extra=''):
    return 'NODE mode=%d ndev=%d src=%d q=%d slots=%d t0=%d%s' % (mode, ndev, src, q, slots, t0, extra)


def case(cfg, ops):
    return cfg + ' | ' + ' ; '.join(ops)
