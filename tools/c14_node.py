# C14, second sentence: every completely received message is handed to the application's callback exactly once - also the ones the
# library consumes itself (ISO requests, address claims, ISO-TP payloads) - and ISO-TP control/data frames themselves are not.
# Node-level family through the shared node harness / model (h_node, NODE).
from nodesim import own_addr
import random
from nodegen import *
from nodesim import parse_case, parse_result, REF_FAST


FAST_HERE = [129029, 127489, 130816, 126996, 131071, 130817]     # fast packets by the default / proprietary classification


def gen_node(seed, tier):
    r = random.Random(seed * 7001 + 14)
    thorough = tier != 'quick'
    cases = []
    for _ in range(60 if not thorough else 1500):
        ndev = r.choice([1, 2])
        mode = r.choice([2, 2, 1, 0, 4])
        src0 = 30
        line = 'NODE mode=%d ndev=%d src=%d q=40 slots=%d t0=%d%s' % (mode, ndev, src0, r.choice([5, 8]), r.choice([5000, 4294967000]), r.choice(['', '', ' fwd=1', ' fwd=%d' % r.randrange(16)]))
        own = [own_addr(src0, i) for i in range(ndev)]
        ops = []
        nmsg = r.choice([1, 5, 19, 20, 21, 22, 40, 41, 45, r.randint(1, 60)])
        for k in range(nmsg):
            x = r.random()
            sender = 60 + (k % 30)          # distinct senders so that reassembly slots never collide
            if x < 0.45:
                pgn = r.choice(SINGLE_PGNS + [127245, 129026, 130312, 127999, 65535, 130999 - 400])     # incl. PGNs on no list
                dst = r.choice(own + [255, 99]) if ((pgn >> 8) & 0xff) < 240 else 255
                ops += sender_stream(r, pgn, sender, dst, bytes([k & 255] + [r.randrange(256) for _ in range(r.randint(0, 7))]), fast=False)
            elif x < 0.6:
                ops.append(iso_request(sender, r.choice(own + [255, 99]), r.choice([60928, 126996, 127250, 130816])))
            elif x < 0.7:
                ops.append(claim(sender, r.getrandbits(63) | (1 << 63)))      # a higher NAME than ours on a foreign address
            elif x < 0.8:
                pgn = r.choice(FAST_HERE)
                fr = sender_stream(r, pgn, sender, 255, bytes([k & 255] + [r.randrange(256) for _ in range(r.choice([2, 9, 20]))]))
                ops += fr
            elif x < 0.9:
                # one sender, one addressable fast-packet PGN, two destinations at the same time: two separate reassemblies
                pgn = 126720
                d1, d2 = r.sample(own + [255, 99, 98], 2)
                fa = sender_stream(r, pgn, sender, d1, bytes([k & 255, 1] + [r.randrange(256) for _ in range(r.choice([9, 20]))]))
                fb = sender_stream(r, pgn, sender, d2, bytes([k & 255, 2] + [r.randrange(256) for _ in range(r.choice([9, 20]))]))
                while fa or fb:
                    if fa and (not fb or r.random() < 0.5):
                        ops.append(fa.pop(0))
                    else:
                        ops.append(fb.pop(0))
            else:
                # ISO-TP broadcast (BAM) carrying a payload: control and data frames must not be delivered, the payload once
                payload = bytes([k & 255] + [r.randrange(256) for _ in range(r.choice([9, 14, 20]))])
                ops.append(tp_rts(130816, sender, 255, len(payload), bam=True))
                npk = (len(payload) + 6) // 7
                lost = r.randrange(1, npk + 1) if r.random() < 0.3 else 0        # a lost packet: the rest of the session are orphan data frames
                for j in range(npk):
                    if j + 1 != lost:
                        ops.append(tp_dt(sender, 255, j + 1, payload[j * 7:(j + 1) * 7]))
                if lost:
                    ops.append('T 150')      # the abandoned session keeps its reassembly slot until it is 100 ms old: let it age, so that
                                             # the messages that follow are within the node's capacity (the oracle assumes they are)
            y = r.random()
            if y < 0.08:
                # a stray transport data / control frame that belongs to no session: consumed, never delivered
                ops.append(r.choice([tp_dt(90 + k % 5, r.choice(own + [255]), r.choice([1, 2, 7]), bytes(r.randrange(256) for _ in range(7))),
                                     tp_cm(90 + k % 5, r.choice(own), r.choice([17, 19, 255]), 1, 1, 255, 255, 130816)]))
            elif y < 0.16:
                # a fast packet with a lost or repeated frame: nothing of it is delivered, and nothing else is (no empty message either)
                fr = sender_stream(r, r.choice([129029, 127489]), 95 + k % 3, 255, bytes([k & 255] + [r.randrange(256) for _ in range(r.choice([20, 30]))]))
                z = r.randrange(1, len(fr))
                ops += (fr[:z] + fr[z + 1:]) if r.random() < 0.6 else (fr[:z] + [fr[z - 1]] + fr[z:])
                ops.append('T 150')          # (as above: the broken message's slot ages out)
            if r.random() < 0.1:
                ops.append('P')
        ops += ['P'] * (3 + nmsg // 8)
        cases.append(line + ' | ' + ' ; '.join(ops))
    # every PGN of the default fast-packet classification once as a three-frame packet: one complete delivery each (seed C14-21)
    fast = sorted(p for p in REF_FAST if p not in (126208, 126464, 126996, 126998, 126720, 65240))
    for c0 in range(0, len(fast), 12):
        ops = []
        for j, pgn in enumerate(fast[c0:c0 + 12]):
            ops += sender_stream(r, pgn, 60 + j, 255, bytes(r.randrange(256) for _ in range(20)), prio=r.choice([2, 3, 6]), sid=r.randrange(8))
            if j % 4 == 3:
                ops.append('P')
        cases.append('NODE mode=%d ndev=1 src=30 q=40 slots=8 t0=5000 | ' % r.choice([2, 0, 4]) + ' ; '.join(ops + ['P', 'P']))
    # a transport-protocol announcement of more than 223 bytes (ISO-TP allows 1785): refused, nothing is passed on however many data packets
    # follow - also for sizes whose low byte alone would fit (300 = 0x012c; seed C14-24)
    for size in ([300, 256 + 223, 224] if not thorough else [224, 255, 256, 257, 300, 479, 480, 512 + 44, 1785]):
        ops = [tp_rts(129029, 70, 255, size, bam=True), 'P']
        for k in range(1, min((size + 6) // 7, 60) + 1):
            ops += [tp_dt(70, 255, k, [r.randrange(256) for _ in range(7)]), 'P']
        ops += sender_stream(r, 129029, 71, 255, bytes(r.randrange(256) for _ in range(20)), prio=3, sid=1) + ['P', 'P']
        cases.append('NODE mode=%d ndev=1 src=30 q=40 slots=5 t0=5000 | ' % r.choice([2, 0, 1]) + ' ; '.join(ops))
    return cases + cold_open_cases(r, thorough)


def cold_open_cases(r, thorough):
    cases = []
    for _ in range(6 if not thorough else 80):
        mode = r.choice([2, 2, 1, 0, 4])
        # (origins incl. the ones at which the 200 ms open delay, armed at the second poll, ends exactly on 0xffffffff in the 32-bit build: seed C14-22)
        line = 'NODE mode=%d ndev=1 src=30 q=40 slots=5 t0=%d cold=1' % (mode, r.choice([5000, 4294967000, 4294967295 - 201, 4294967295 - 201, 4294967295 - 200, 4294967295]))
        fr = lambda s: rx(can_id(r.choice([2, 3, 6]), r.choice([127250, 129025, 130306]), s, 255), [r.randrange(256) for _ in range(8)])
        ops = ['P', 'T 1', 'P', 'T %d' % r.choice([10, 100]), fr(60), 'P', 'T %d' % r.choice([250, 300, 1000])]
        ops += [fr(61 + j) for j in range(r.choice([1, 2, 5]))] + ['P']                     # waiting at the call that completes Open()
        ops += ['T 5', fr(70), 'P', 'T 300', fr(71), 'P']
        cases.append(line + ' | ' + ' ; '.join(ops))
    return cases


def complete_messages(ops):
    """what a perfect receiver would hand to the application, keyed by (pgn, src, dst, payload), from the frames fed (senders are distinct,
    frames are in order and none is lost in this family)"""
    from nodesim import pdu1
    exp = []
    fp = {}
    tp = {}
    for o in ops:
        if not o or o[0] != 'R':
            continue
        idv = int(o[1], 16); ln = int(o[2]); buf = list(bytes.fromhex(o[3]))
        pf = (idv >> 16) & 0xff
        src = idv & 0xff
        if pf < 240:
            pgn = (idv >> 8) & 0x1ff00; dst = (idv >> 8) & 0xff
        else:
            pgn = (idv >> 8) & 0x1ffff; dst = 255
        if pgn == 60416:
            if buf[0] == 32:
                if (buf[1] | buf[2] << 8) > 223:
                    tp.pop((src, dst), None)       # announces more than a message can hold: refused as a whole, nothing of it is delivered
                else:
                    tp[(src, dst)] = [buf[5] | buf[6] << 8 | buf[7] << 16, buf[1] | buf[2] << 8, [], 0]
            continue
        if pgn == 60160:
            s = tp.get((src, dst))
            if s is not None:
                if buf[0] != s[3] + 1:          # a gap ends the session: nothing of it is delivered
                    del tp[(src, dst)]
                    continue
                s[3] = buf[0]
                s[2] += buf[1:8]
                if len(s[2]) >= s[1]:
                    exp.append((s[0], src, dst, tuple(s[2][:s[1]])))
                    del tp[(src, dst)]
            continue
        if pgn in FAST_HERE or pgn == 126720 or pgn in REF_FAST:
            if buf[0] & 31 == 0:
                fp[(pgn, src, dst)] = [buf[1], buf[2:8], dst, buf[0]]
            elif (pgn, src, dst) in fp:
                if buf[0] != fp[(pgn, src, dst)][3] + 1:       # lost / repeated frame: the message is discarded as a whole
                    del fp[(pgn, src, dst)]
                    continue
                fp[(pgn, src, dst)][3] = buf[0]
                fp[(pgn, src, dst)][1] += buf[1:8]
            s = fp.get((pgn, src, dst))
            if s and len(s[1]) >= s[0]:
                exp.append((pgn, src, s[2], tuple(s[1][:s[0]])))
                del fp[(pgn, src, dst)]
            continue
        exp.append((pgn, src, dst, tuple(buf[:ln])))
    return exp


def oracle_node(case, res):
    if res.startswith('crash'):
        return 'memory:' + res
    cfg, ops = parse_case(case)
    per_op, state = parse_result(res)
    got = []
    for evs in per_op:
        for e in evs:
            if e[0] == 'dlv':
                if e[2] in (60416, 60160):
                    return 'tp-frame-delivered:a transport-protocol control/data frame (PGN %d) was handed to the application' % e[2]
                got.append((e[2], e[3], e[4], tuple(e[6])))
    if cfg.get('cold'):
        # a cold node: frames taken out of the driver before Open() has completed are discarded on purpose; the frames waiting at the call
        # that completes Open() are read by that same call and are ordinary messages (seed C14-19)
        k_open = next((k for k, evs in enumerate(per_op) if any(e[0] == 'note' and e[1:2] == ('open',) for e in evs)), None)
        if k_open is None:
            exp = []
        else:
            prev = max([k for k in range(k_open) if ops[k] and ops[k][0] in ('P', 'S', 'Q')] + [-1])
            exp = complete_messages(ops[prev + 1:])
    else:
        exp = complete_messages(ops)
    from collections import Counter
    cg, ce = Counter(got), Counter(exp)
    for m, n in ce.items():
        if cg.get(m, 0) != n:
            return 'delivery-count:message pgn %d from %d to %d delivered %d time(s), expected %d (%d messages fed, %d polls)' % (m[0], m[1], m[2], cg.get(m, 0), n, len(exp), sum(1 for o in ops if o and o[0] == 'P'))
    for m, n in cg.items():
        if ce.get(m, 0) != n:
            return 'delivery-extra:message pgn %d from %d delivered %d time(s) but fed %d time(s)' % (m[0], m[1], n, ce.get(m, 0))
    return None
