# C07 - protocol-grammar fuzz for the node's receive path (own additions over tools/nodegen.py; imported by tools/p_C07.py).
# A history = one configuration + a sequence of "episodes", each a short burst of operations written from the protocol grammar:
# valid, nearly valid and random frames for the system PGNs, both ISO-TP roles, address claiming/commanded address, fast packets.
# Because the group-function handlers are not part of the shared node model, no COMPLETE PGN 126208 message addressed to one of our
# devices or broadcast is ever generated (see no_gf_frame / the reserved source GF_SRC); partial ones and ones to address 254 are.
from nodesim import own_addr
import random
from nodegen import can_id, rx, fp_frames, sender_stream, tp_rts, tp_dt, tp_cm, iso_request, claim, FAST_PGNS, SINGLE_PGNS, REQ_PGNS, random_history

NAME0 = 0xc0328200ffc00001          # NAME of device i of the harness is NAME0 + i
SYSTEM_PGNS = [59392, 59904, 60160, 60416, 60928, 65240, 126208, 126464, 126996, 126998]
TP_SIZES = [0, 8, 9, 14, 36, 40, 223, 224, 1785, 65535]
FP_ANNOUNCE = [0, 1, 6, 7, 13, 223, 224, 255]
T0S = [5000, 70000, 4294966000, 4294967200, 4294967295, 2147483000, 2147484500, 10 ** 12, 8589934000, 1000]
JUMPS = [0, 1, 2, 49, 50, 51, 99, 100, 101, 200, 249, 250, 251, 1000, 60000, 2147483647, 2147483648, 4294967295, 4294967296, 4294967297, 4294966296,
         10 ** 10]
GF_SRC = 61                          # source address reserved for never-completing PGN 126208 transfers: nothing else sends TP.DT from it
GF_OTHER = [62, 63]                  # sources of PGN 126208 traffic to address 254; they never send PGN 126208 to us, so that no continuation frame
                                     # meant for 254 can complete a message for us whatever the slot matching rule is
PEERS = [50, 51, 52, 0, 23, 251, 254, 255]


def rb(r, n):
    return bytes(r.randrange(256) for _ in range(n))


def raw(idv, ln, data):
    d = list(data)[:8]
    d += [0] * (8 - len(d))
    return 'R %x %d %s' % (idv, ln, bytes(d).hex())


def pgn_of_id(idv):
    pf = (idv >> 16) & 0xff
    dp = (idv >> 24) & 1
    ps = (idv >> 8) & 0xff
    if pf < 240:
        return (dp << 16) | (pf << 8), idv & 0xff, ps
    return (dp << 16) | (pf << 8) | ps, idv & 0xff, 255


def no_gf_frame(idv, data):
    """True if this raw frame could contribute to a complete PGN 126208 message for us / broadcast"""
    pgn, src, dst = pgn_of_id(idv)
    if pgn == 126208:
        return False
    if pgn == 60160 and src == GF_SRC:
        return False
    if pgn == 60416 and (src == GF_SRC or (data[5] | data[6] << 8 | data[7] << 16) == 126208):
        return False
    return True


class Ctx:
    def __init__(self, r, ndev, src0, mode):
        self.r, self.ndev, self.src0, self.mode = r, ndev, src0, mode
        self.own = [own_addr(src0, i) for i in range(ndev)]
        self.extra = []               # addresses we may have moved to (commanded address)
        self.ops = []
        self.started = []             # (idev, pgn, peer) of ISO-TP sends started with S ... tp=1
        self.cold = False

    def own_addr(self):
        r = self.r
        if self.extra and r.random() < 0.3:
            return r.choice(self.extra)
        x = r.random()
        if x < 0.8:
            return r.choice(self.own)
        return (r.choice(self.own) + r.choice([1, 2, self.ndev])) & 255      # where a device lands after losing its address

    def P(self, p=1.0):
        if self.r.random() < p:
            self.ops.append('P')

    def lose_address(self, addr=None):
        """a claim with a NAME lower than ours from one of our addresses: the device has to move (or goes to 254)"""
        a = self.r.choice(self.own) if addr is None else addr
        self.ops.append(claim(a, self.r.choice([0, 1, NAME0 - 1])))


def config(r, ndev=None, mode=None, cold=None):
    ndev = r.randint(1, 9) if ndev is None else ndev
    mode = r.choice([1, 1, 1, 2, 2, 0, 3, 4]) if mode is None else mode
    src0 = r.choice([0, 22, 100, 240 - ndev, 252 - ndev, 250, 251, 254 if ndev == 1 else 30, 13, 14])
    q = r.choice([40, 40, 10, 3, 2, 1, 1, 0])
    s = 'NODE mode=%d ndev=%d src=%d q=%d slots=%d t0=%d' % (mode, ndev, src0, q, r.randint(1, 8), r.choice(T0S))
    if (r.random() < 0.3) if cold is None else cold:
        s += ' cold=1'
    if r.random() < 0.3:
        s += ' hb=1'
    if r.random() < 0.3:
        s += ' iso=' + ','.join(str(p) for p in r.sample([127250, 129029, 127500, 130060, 65300, 126993], 3))
    if r.random() < 0.15:
        s += ' ok=1'
    if r.random() < 0.2:
        s += ' fp1=65300,120000'
    if r.random() < 0.1:
        s += ' fp0=129029,65301'
    if r.random() < 0.3:
        s += ' tx0=129029,127489 rx0=127250,129026'
    if r.random() < 0.2:
        s += ' noconf=1'                   # no configuration information configured: an ISO request for PGN 126998 is refused / ignored
    return s, ndev, src0, mode


# ---------------------------------------------------------------- episodes
def ep_time(c):
    r = c.r
    c.ops.append('T %d' % (r.choice(JUMPS) if r.random() < 0.8 else r.randint(0, 400)))
    c.P(0.6)


def ep_driver(c):
    r = c.r
    p = r.random()
    c.ops.append('A ' + ''.join('1' if r.random() < p else '0' for _ in range(r.randint(0, 14))))
    if r.random() < 0.4:
        c.ops.append('F')


def ep_app(c):
    r = c.r
    x = r.random()
    if x < 0.5:
        pgn = r.choice(FAST_PGNS + SINGLE_PGNS + [60928, 59904, 0, 59905, 126208])
        n = r.choice([0, 3, 8, 9, 20, 100, 223])
        c.ops.append('S %d %d %d %d %d %d %s' % (r.randrange(-1, c.ndev + 1), r.choice([2, 3, 6, 7]), pgn, r.choice([0, 15, 252]), r.choice([255, 50, c.own[0]]),
                                                1 if r.random() < 0.3 else 0, rb(r, n).hex() or '-'))
    elif x < 0.65:
        c.ops.append('C %d' % r.randrange(c.ndev))
    elif x < 0.85 and not c.cold:
        # (not on a cold node: tN2kSyncScheduler::SyncOffset is a static that the non-forking 64-bit harness carries over from the previous case until Open() sets it)
        c.ops.append('H %d %d%s' % (r.choice([0, 1, 999, 1000, 60000, 655320, 655321, 4294967295, 4294967294]), r.choice([0, 10000, 65535, 4294967295, 77]),
                                    r.choice(['', ' -1', ' 0', ' %d' % (c.ndev - 1), ' %d' % c.ndev])))
    else:
        c.ops.append('F')
    c.P(0.3)


def ep_claim(c):
    r = c.r
    nm = r.choice([0, 1, NAME0, NAME0 + 1, NAME0 - 1, NAME0 + c.ndev - 1, NAME0 + (1 << 32), 0xffffffffffffffff, 0xffffffffffffffff, r.getrandbits(64)])
    src = r.choice([c.own_addr(), c.own_addr(), 50, 254, 255, 252, 253])
    c.ops.append(claim(src, nm, dst=r.choice([255, 255, c.own_addr(), 77]), ln=r.choice([8, 8, 8, 8, 7, 1, 0])))
    c.P(0.7)
    if r.random() < 0.3:
        c.ops.append('T %d' % r.choice([249, 250, 251, 1]))
        c.P(0.8)


def ep_claim_storm(c):
    """every address we try is contested: the device walks the address space (GetNextAddress) and may end on 254"""
    r = c.r
    a = r.choice(c.own)
    for k in range(r.randint(2, 12)):
        c.ops.append(claim((a + k) & 255 if r.random() < 0.8 else c.own_addr(), r.choice([0, 0, 1])))
        c.P(0.9)
        if r.random() < 0.2:
            c.ops.append('T %d' % r.choice([1, 250, 251]))


def ep_iso_request(c):
    r = c.r
    dst = r.choice([c.own_addr(), c.own_addr(), 255, 255, 77])
    ln = r.choice([3, 3, 3] + list(range(0, 9)))
    pgn = r.choice(REQ_PGNS + SYSTEM_PGNS + [126998, 126998, 126998, 126996, r.randrange(1 << 24)])     # 126998 also meets noconf=1 configurations
    d = [pgn & 255, (pgn >> 8) & 255, (pgn >> 16) & 255] + list(rb(r, 5))
    c.ops.append(raw(can_id(6, 59904, r.choice(PEERS), dst), ln, d[:8]))
    c.P(0.7)


def ep_system_dlc(c):
    """every system PGN with every DLC 0..8, random payload (never a complete group function for us)"""
    r = c.r
    pgn = r.choice(SYSTEM_PGNS)
    src = r.choice(PEERS)
    dst = r.choice([c.own_addr(), 255, 77]) if ((pgn >> 8) & 0xff) < 240 else 255
    d = list(rb(r, 8))
    if pgn == 126208:
        if r.random() < 0.5:
            dst, src = 254, r.choice(GF_OTHER)         # complete messages only towards an address that is never ours, from sources of their own
        else:
            d[0] &= 0xe0                               # first frame ...
            d[1] = r.choice([7, 8, 50, 223, 224, 255])     # ... announcing more than one frame: never completes (no continuation is ever generated)
    if pgn in (60416, 60160) and not no_gf_frame(can_id(7, pgn, src, dst), d):
        d[5] = 0
    idv = can_id(r.choice([2, 3, 6, 7]), pgn, src, dst)
    if pgn == 60416 and not no_gf_frame(idv, d):
        return
    c.ops.append(raw(idv, r.randint(0, 8), d))
    c.P(0.6)


def ep_fast_packet(c):
    r = c.r
    pgn = r.choice(FAST_PGNS + [126464, 126996, 126998, 65240, 130816])
    src = r.choice(PEERS)
    dst = r.choice([c.own_addr(), 255]) if ((pgn >> 8) & 0xff) < 240 else 255
    ann = r.choice(FP_ANNOUNCE + [r.randrange(256)])
    carried = r.choice([ann, ann, min(ann, 223), 0, 6, 7, 13, 223, r.randrange(224)])
    sid = r.randrange(8)
    fr = fp_frames(r, sid, rb(r, carried), announce=ann)
    idv = can_id(r.choice([2, 3, 6]), pgn, src, dst)
    y = r.random()
    if y < 0.15 and len(fr) > 1:
        del fr[r.randrange(len(fr))]
    elif y < 0.25:
        fr = fr[:r.randint(1, len(fr))]
    elif y < 0.35 and len(fr) > 2:
        i = r.randrange(1, len(fr)); fr[i - 1], fr[i] = fr[i], fr[i - 1]
    elif y < 0.45 and len(fr) > 1:
        i = r.randrange(len(fr)); fr.insert(i, fr[i])          # duplicate
    elif y < 0.5:
        fr.append([(sid << 5 | len(fr)) & 255] + list(rb(r, 7)))   # one frame too many
    fr = fr[:40]
    for k, f in enumerate(fr):
        c.ops.append(raw(idv, 8 if r.random() < 0.85 else r.randint(0, 8), f))
        if k % 15 == 14 or r.random() < 0.1:
            c.ops.append('P')
        if r.random() < 0.03:
            c.ops.append('T %d' % r.choice([99, 100, 101, 4294967296]))
        if r.random() < 0.02:
            c.lose_address()
    c.P(0.8)


def ep_single(c):
    r = c.r
    pgn = r.choice(SINGLE_PGNS + [126992, 126993, 61184, 65300])
    dst = r.choice([c.own_addr(), 255]) if ((pgn >> 8) & 0xff) < 240 else 255
    c.ops.append(raw(can_id(r.choice([2, 3, 6]), pgn, r.choice(PEERS), dst), r.randint(0, 8), rb(r, 8)))
    c.P(0.5)


def ep_tp_receive(c, lose=None):
    """we are the receiver: RTS to one of our addresses or BAM, sizes and packet counts consistent or not, TP.DT in order / duplicated /
    reordered / missing / superfluous, polling and time in between, the destination device losing its address in the middle"""
    r = c.r
    src = r.choice([50, 51, 52])
    bam = r.random() < 0.35
    dst = 255 if bam else r.choice([c.own_addr(), c.own_addr(), c.own_addr(), 77])
    pgn = r.choice([130816, 126996, 127250, 129029, 0, 59904, 60928, 126464, 65240])
    n = r.choice(TP_SIZES + [r.randint(0, 230)])
    maxp = r.choice([255, 255, 1, 2, 3, 5, 6, 0])
    npk_field = r.choice([None, None, None, 0, 1, 255, (n + 6) // 7 + 1])
    d = [32 if bam else 16, n & 255, (n >> 8) & 255, ((n + 6) // 7 if npk_field is None else npk_field) & 255, maxp, pgn & 255, (pgn >> 8) & 255, (pgn >> 16) & 255]
    c.ops.append(raw(can_id(7, 60416, src, dst), 8 if r.random() < 0.9 else r.randint(0, 8), d))
    c.P(0.85)
    payload = rb(r, min(n, 223 + r.choice([0, 0, 7, 14])))
    npk = (len(payload) + 6) // 7
    order = list(range(1, npk + 1))
    z = r.random()
    if z < 0.12 and npk > 1:
        order.pop(r.randrange(npk))
    elif z < 0.22 and npk > 1:
        order.insert(r.randrange(npk), r.choice(order))
    elif z < 0.3 and npk > 2:
        i = r.randrange(1, npk); order[i - 1], order[i] = order[i], order[i - 1]
    elif z < 0.36:
        order = order[:r.randint(0, npk)]
    elif z < 0.42:
        order += [npk + 1, npk + 2]
    lose_at = r.randrange(max(1, len(order))) if (r.random() < 0.3 if lose is None else lose) else -1
    for j, k in enumerate(order):
        if j == lose_at and not bam:
            c.lose_address(dst if r.random() < 0.8 else None)
            c.P(0.9)
        c.ops.append(raw(can_id(7, 60160, src, dst), 8 if r.random() < 0.93 else r.randint(0, 8), [k & 255] + list(payload[(k - 1) * 7:k * 7]) + [0xff] * 7))
        if j % 10 == 9 or r.random() < 0.45:
            c.ops.append('P')
        if r.random() < 0.04:
            c.ops.append('T %d' % r.choice([50, 99, 100, 101, 300, 4294967296]))
        if r.random() < 0.03:
            c.ops.append('A ' + r.choice(['0', '00', '01', '0000000']))
    c.P(0.9)


def ep_tp_stray(c):
    """TP.DT without a session, TP.CM of every kind for sessions that do not exist"""
    r = c.r
    src = r.choice([50, 51, 52, 53])
    dst = r.choice([c.own_addr(), c.own_addr(), 255, 77])
    if r.random() < 0.5:
        c.ops.append(raw(can_id(7, 60160, src, dst), r.choice([8, 8, 8, r.randint(0, 8)]), [r.choice([0, 1, 2, 255, r.randrange(256)])] + list(rb(r, 7))))
    else:
        pgn = r.choice([130816, 126996, 127250, 0, 65240, 129029])
        c.ops.append(raw(can_id(7, 60416, src, dst), r.choice([8, 8, 8, r.randint(0, 8)]),
                         [r.choice([17, 19, 255, 0, 18, 33, 16, 32, r.randrange(256)]), r.randrange(256), r.randrange(256), r.randrange(256), r.randrange(256), pgn & 255, (pgn >> 8) & 255, (pgn >> 16) & 255]))
    c.P(0.7)


def ep_tp_send(c):
    """we are the sender: the application starts an ISO-TP send (RTS to a peer or BAM), the peer answers with CTS / EndAck / Abort that
    fit or do not fit, the sending device loses its address in the middle, timeouts"""
    r = c.r
    idev = r.randrange(c.ndev)
    peer = r.choice([50, 51, 255, 255]) if r.random() < 0.8 else c.own_addr()
    pgn = r.choice([126720, 126720, 61184, 126208, 129029, 130816, 126996])      # PDU1 PGNs keep the destination: RTS/CTS; PDU2 PGNs go out as BAM
    n = r.choice([9, 14, 20, 36, 100, 222, 223])
    c.ops.append('S %d %d %d 0 %d 1 %s' % (idev, r.choice([3, 6]), pgn, peer, rb(r, n).hex()))
    c.started.append((idev, pgn, peer))
    c.P(0.8)
    me = c.own[idev]
    npk = (n + 6) // 7
    nxt = 1
    for step in range(r.randint(0, 7)):
        x = r.random()
        if x < 0.45:
            cnt = r.choice([1, 2, 5, npk, 255, 0])
            c.ops.append(tp_cm(peer if peer != 255 else 50, me, 17, cnt, nxt if r.random() < 0.85 else r.randrange(256), 255, 255, pgn if r.random() < 0.9 else 130817))
            nxt += cnt if cnt < 200 else npk
        elif x < 0.55:
            c.ops.append(tp_cm(peer if peer != 255 else 50, me, 19, n & 255, n >> 8, npk, 255, pgn))
        elif x < 0.65:
            c.ops.append(tp_cm(peer if peer != 255 else 50, me, 255, r.choice([1, 2, 3]), 255, 255, 255, pgn))
        elif x < 0.8:
            c.ops.append('T %d' % r.choice([49, 50, 51, 99, 100, 101, 1250, 4294967296]))
        elif x < 0.9:
            c.lose_address(me)
        else:
            c.ops.append('A ' + r.choice(['0', '000', '10', '1101']))
        c.P(0.85)


def ep_tp_cm_for_started(c):
    r = c.r
    if not c.started:
        return ep_tp_stray(c)
    idev, pgn, peer = r.choice(c.started)
    me = c.own[idev] if r.random() < 0.8 else c.own_addr()
    src = peer if peer != 255 and r.random() < 0.8 else r.choice([50, 51])
    ctrl = r.choice([17, 17, 19, 255])
    c.ops.append(tp_cm(src, me, ctrl, r.choice([0, 1, 5, 255]), r.choice([0, 1, 2, 6, 255]), 255, 255, pgn if r.random() < 0.8 else 126996))
    c.P(0.8)


def ep_commanded(c):
    """PGN 65240 (commanded address) via BAM and via RTS, naming one of our NAMEs (or another), new address anywhere in 0..255"""
    r = c.r
    src = r.choice([50, 51])
    bam = r.random() < 0.5
    dst = 255 if bam else c.own_addr()
    nm = r.choice([NAME0 + r.randrange(c.ndev), NAME0 + r.randrange(c.ndev), NAME0, 5, 0, 0xffffffffffffffff, NAME0 + (1 << 32)])
    new = r.choice([r.randrange(256), r.randrange(256), 0, 251, 252, 253, 254, 255, c.own_addr(), 14])
    n = r.choice([9, 9, 9, 9, 8, 10, 16])
    payload = (nm.to_bytes(8, 'little') + bytes([new]) + rb(r, 7))[:max(n, 9)]
    c.ops.append(tp_rts(65240, src, dst, n, maxp=r.choice([255, 1, 2]), bam=bam))
    c.P(0.8)
    for k in range(1, (n + 6) // 7 + 1):
        c.ops.append(tp_dt(src, dst, k, payload[(k - 1) * 7:k * 7]))
        c.P(0.5)
        if r.random() < 0.05:
            c.lose_address()
    c.P(0.95)
    if new < 252:
        c.extra.append(new)
    if r.random() < 0.5:
        c.ops.append('T %d' % r.choice([1, 249, 251]))
        c.P(0.9)


def ep_gf_partial(c):
    """PGN 126208 traffic that can never complete for us: fast-packet first frames announcing > 6 bytes, RTS/BAM from the reserved source
    followed by too few TP.DT frames, complete messages to address 254"""
    r = c.r
    x = r.random()
    if x < 0.4:
        dst = r.choice([c.own_addr(), 255])
        c.ops.append(raw(can_id(3, 126208, r.choice(PEERS), dst), r.randint(0, 8), [r.randrange(8) << 5, r.choice([7, 8, 20, 223, 255])] + list(rb(r, 6))))
    elif x < 0.7:
        dst = r.choice([c.own_addr(), 255])
        n = r.choice([15, 30, 223])
        c.ops.append(tp_rts(126208, GF_SRC, dst, n, bam=(dst == 255)))
        c.P(0.8)
        if r.random() < 0.6:
            c.ops.append(tp_dt(GF_SRC, dst, 1, rb(r, 7)))      # n >= 15: one packet never completes it
    else:
        for f in sender_stream(r, 126208, r.choice(GF_OTHER), 254, rb(r, r.choice([3, 6, 12, 30]))):
            c.ops.append(f)
    c.P(0.7)


def ep_raw(c):
    r = c.r
    for _ in range(r.randint(1, 4)):
        for _try in range(20):
            idv = r.getrandbits(29)
            if r.random() < 0.5:
                # steer towards the interesting identifiers: system PGN, our address as destination
                pgn = r.choice(SYSTEM_PGNS[:6] + [126464, 126996, 126998, 130816, 127250])
                idv = can_id(r.getrandbits(3), pgn, r.randrange(256), r.choice([c.own_addr(), 255, r.randrange(256)]))
            d = list(rb(r, 8))
            if no_gf_frame(idv, d):
                c.ops.append(raw(idv, r.randint(0, 8), d))
                break
    c.P(0.6)


EPISODES = [(ep_time, 8), (ep_driver, 4), (ep_app, 6), (ep_claim, 8), (ep_claim_storm, 2), (ep_iso_request, 7), (ep_system_dlc, 8), (ep_fast_packet, 8), (ep_single, 3),
            (ep_tp_receive, 12), (ep_tp_stray, 5), (ep_tp_send, 8), (ep_tp_cm_for_started, 4), (ep_commanded, 6), (ep_gf_partial, 3), (ep_raw, 8)]


def history(r, max_ops=70, **kw):
    line, ndev, src0, mode = config(r, **kw)
    c = Ctx(r, ndev, src0, mode)
    eps = [e for e, w in EPISODES for _ in range(w)]
    c.cold = ' cold=1' in line
    if ' cold=1' in line and r.random() < 0.7:
        # bring a cold node up part of the way: Open() needs two polls 200 ms apart, the claims another 250 ms
        for dt in r.choice([[0], [1, 201], [1, 201, 251], [1, 100, 100, 1]]):
            c.ops += ['P', 'T %d' % dt]
        c.ops.append('P')
    while len(c.ops) < max_ops:
        r.choice(eps)(c)
    c.P(0.8)
    return line + ' | ' + ' ; '.join(c.ops[:max_ops + 40])


def d14_history(r):
    """the scenario of repaired defect D-14, randomised: RTS/CTS transfer of more than 5 packets to one of our devices, the device loses its
    address before the 5th TP.DT, the sender continues"""
    ndev = r.choice([1, 1, 2, 3])
    mode = r.choice([1, 2])
    src0 = r.choice([22, 100, 0, 240])
    line = 'NODE mode=%d ndev=%d src=%d q=40 slots=%d t0=%d' % (mode, ndev, src0, r.randint(1, 8), r.choice(T0S))
    c = Ctx(r, ndev, src0, mode)
    me = r.choice(c.own)
    n = r.choice([36, 40, 100, 223])
    payload = rb(r, n)
    c.ops += [tp_rts(130816, 50, me, n, maxp=r.choice([255, 5, 6])), 'P']
    at = r.randint(1, 4)
    for k in range(1, (n + 6) // 7 + 1):
        if k == at:
            c.ops += [claim(me, r.choice([0, 1])), 'P']
        c.ops.append(tp_dt(50, me, k, payload[(k - 1) * 7:k * 7]))
        c.P(0.6)
    c.ops.append('P')
    return line + ' | ' + ' ; '.join(c.ops)
