#!/usr/bin/python3
# development aid: which lines of /repo/src do the quick checks execute?  Builds the library and the harnesses with --coverage into a
# scratch build directory, runs the quick command of every claimed check (64-bit scheduler build counts; the 32-bit harness forks per
# case and its children leave through _exit), then lists, per source file, the functions with lines that were never executed.
#   tools/coverage.py [Cnn ...]        -> /tmp/cov/report.txt
import json, subprocess, sys, os, glob, re, shutil
V = os.path.dirname(os.path.dirname(os.path.abspath(__file__)))
B = '/tmp/cov/build'
only = sys.argv[1:]
shutil.rmtree('/tmp/cov', ignore_errors=True)
os.makedirs('/tmp/cov/evid'); os.makedirs('/tmp/cov/replays')
os.symlink(os.path.join(V, 'replays', 'corpus'), '/tmp/cov/replays/corpus')
env = dict(os.environ, VERIF_COV='1', VERIF_BUILD=B, VERIF_EVID='/tmp/cov/evid', VERIF_REPLAYS='/tmp/cov/replays')
m = json.load(open(os.path.join(V, 'MANIFEST.json')))
for c in m['checks']:
    if only and c['property_id'] not in only:
        continue
    p = subprocess.run('./check %s --tier quick' % c['property_id'], shell=True, cwd=V, env=env, stdout=subprocess.PIPE, stderr=subprocess.STDOUT, text=True)
    print(c['property_id'], 'rc', p.returncode, flush=True)
objs = [d for d in glob.glob(B + '/objs/*-w64')]
rep = []
for d in objs:
    subprocess.run('gcov -r -s /repo/src *.gcda > /dev/null 2>&1; gcov *.gcda > gcov.log 2>&1', shell=True, cwd=d)
    for g in sorted(glob.glob(d + '/*.gcov')):
        name = os.path.basename(g)[:-5]
        if not (name.endswith('.cpp') or name.endswith('.h') or name.endswith('.tpp')):
            continue
        if not os.path.exists('/repo/src/' + name):
            continue
        lines = open(g, errors='replace').read().split('\n')
        miss = []
        tot = 0
        for l in lines:
            mm = re.match(r'\s*([0-9#=\-]+)\*?:\s*(\d+):(.*)', l)
            if not mm:
                continue
            cnt, no, txt = mm.group(1), int(mm.group(2)), mm.group(3)
            if cnt == '-':
                continue
            tot += 1
            if cnt.startswith('#') or cnt.startswith('='):
                miss.append((no, txt))
        rep.append('== %s: %d of %d executable lines never executed' % (name, len(miss), tot))
        for no, txt in miss:
            rep.append('   %5d: %s' % (no, txt.rstrip()[:150]))
open('/tmp/cov/report.txt', 'w').write('\n'.join(rep) + '\n')
print('\n'.join(l for l in rep if l.startswith('==')))
