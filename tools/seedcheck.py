#!/usr/bin/python3
# Validates a seeded change produced by an independent agent and runs our check against it.
#   seedcheck.py <prop> <k> <srcdir with change<k>.diff demo<k>.cpp meta<k>.txt>  [check-prop ...]
# 1. scratch worktree of /repo HEAD: demo passes on the pristine tree, change applies, repo suite still passes, demo fails with it;
# 2. apply the change to /repo, run ./check for the given properties (default: <prop>), undo the change straight afterwards;
# 3. store patch, demo and meta.json under /verif/seeded/<prop>-<k>/.
import sys, os, re, subprocess, json, shutil

VERIF = os.path.dirname(os.path.dirname(os.path.abspath(__file__)))


def sh(cmd, **kw):
    p = subprocess.run(cmd, shell=isinstance(cmd, str), stdout=subprocess.PIPE, stderr=subprocess.STDOUT, text=True, errors='replace', **kw)
    return p.returncode, p.stdout


def main():
    prop, k, src = sys.argv[1], sys.argv[2], sys.argv[3]
    checks = sys.argv[4:] or [prop]
    diff = os.path.join(src, 'change%s.diff' % k)
    demo = os.path.join(src, 'demo%s.cpp' % k)
    meta = os.path.join(src, 'meta%s.txt' % k)
    stored = os.path.join(VERIF, 'seeded', '%s-%s' % (prop, k))
    if not os.path.exists(diff) and os.path.exists(os.path.join(stored, 'patch.diff')):
        # re-validation of an already stored change
        re_dir = '/tmp/seedre_%s_%s' % (prop, k)
        os.makedirs(re_dir, exist_ok=True)
        diff, demo = re_dir + '/change%s.diff' % k, re_dir + '/demo%s.cpp' % k
        shutil.copy(os.path.join(stored, 'patch.diff'), diff); shutil.copy(os.path.join(stored, 'demo.cpp'), demo)
        old = json.load(open(os.path.join(stored, 'meta.json'))).get('what_it_needs', '')
        meta = re_dir + '/meta%s.txt' % k
        open(meta, 'w').write(old)
    wt = '/tmp/sv_%s_%s' % (prop, k)
    sh('git -C /repo worktree remove --force %s' % wt)
    rc, out = sh('git -C /repo worktree add --detach %s HEAD' % wt)
    res = {'property': prop, 'change': k, 'source': 'independent sub-agent given only the property text and a scratch worktree'}
    try:
        txt = open(demo).read()
        txt = re.sub(r'\\\s*\n(//)?\s*', ' ', txt)          # join continuation lines of the build comment
        m = re.search(r'^\s*(?://|\*)?\s*((?:cd [^\n&]*&&\s*)?g\+\+[^\n]*)', txt, flags=re.M)
        cmd = m.group(1).strip()
        seed_root = re.search(r'(/tmp/seed_C\d+)', cmd).group(1)
        # the scratch worktree mimics the agent's directory layout: <wt>/out/demo<k>.cpp, sources under <wt>/src
        os.makedirs(os.path.join(wt, 'out'), exist_ok=True)
        shutil.copy(demo, os.path.join(wt, 'out', 'demo%s.cpp' % k))
        cmd = cmd.replace(seed_root, wt)
        parts = [x.strip() for x in cmd.split('&&')]
        cwd = wt
        if parts[0].startswith('cd '):
            cwd = parts[0][3:].strip()
            parts = parts[1:]
        build = parts[0]
        mo = re.search(r'-o\s+(\S+)', build)
        binary = mo.group(1) if mo else 'a.out'
        binary = binary if os.path.isabs(binary) else os.path.join(cwd, binary)
        build = 'cd %s && %s' % (cwd, build)
        demo_bin = binary
        rc, out = sh(build, timeout=900)
        res['demo_build_pristine'] = rc
        rc, out = sh(demo_bin, timeout=300, cwd=cwd)
        res['demo_pristine_exit'] = rc
        res['demo_pristine_tail'] = out[-300:]
        rc, out = sh('git -C %s apply %s' % (wt, diff))
        res['applies_to_head'] = (rc == 0)
        if rc != 0:
            res['apply_error'] = out[-500:]
        else:
            rc, out = sh('cmake -S %s -B %s/_b -G Ninja >/dev/null && cmake --build %s/_b 2>&1 | tail -3 && ctest --test-dir %s/_b 2>&1 | tail -4' % (wt, wt, wt, wt), timeout=1800)
            res['suite_with_change'] = 'pass' if '100% tests passed' in out else 'FAIL'
            res['suite_tail'] = out[-300:]
            rc, out = sh(build, timeout=900)
            res['demo_build_changed'] = rc
            rc, out = sh(demo_bin, timeout=300, cwd=cwd)
            res['demo_changed_exit'] = rc
            res['demo_changed_tail'] = out[-400:]
    finally:
        sh('git -C /repo worktree remove --force %s' % wt)
    # our checks against the change: a scratch worktree of /repo HEAD with the change applied stands in for /repo (VERIF_REPO), because other
    # work may be building from /repo at the same time; evidence and replays of these runs go to a scratch directory
    res['checks'] = {}
    if res.get('applies_to_head'):
        sr = '/tmp/sr_%s_%s' % (prop, k)
        sh('git -C /repo worktree remove --force %s' % sr)
        sh('git -C /repo worktree add --detach %s HEAD' % sr)
        sh('git -C %s apply %s' % (sr, diff))
        env = dict(os.environ, VERIF_REPO=sr, VERIF_BUILD='/tmp/sb_%s_%s' % (prop, k), VERIF_EVID=sr + '/evid', VERIF_REPLAYS=sr + '/replays')
        os.makedirs(sr + '/replays', exist_ok=True)
        if os.path.isdir(os.path.join(VERIF, 'replays', 'corpus')):
            shutil.copytree(os.path.join(VERIF, 'replays', 'corpus'), sr + '/replays/corpus')
        try:
            for c in checks:
                rc, out = sh('./check %s --tier quick' % c, cwd=VERIF, timeout=3600, env=env)
                viol = [l for l in out.split('\n') if l.startswith('VIOLATION')]
                res['checks'][c] = {'exit': rc, 'violations': [v.replace(sr, '<scratch>') for v in viol]}
                for v in viol[:2]:
                    mm = re.search(r'replay=(\S+)', v)
                    if mm and os.path.exists(mm.group(1)):
                        res['checks'][c].setdefault('replay_heads', []).append(open(mm.group(1)).read()[:700])
        finally:
            sh('git -C /repo worktree remove --force %s' % sr)
            shutil.rmtree('/tmp/sb_%s_%s' % (prop, k), ignore_errors=True)
    dst = os.path.join(VERIF, 'seeded', '%s-%s' % (prop, k))
    os.makedirs(dst, exist_ok=True)
    shutil.copy(diff, os.path.join(dst, 'patch.diff'))
    shutil.copy(demo, os.path.join(dst, 'demo.cpp'))
    res['what_it_needs'] = open(meta).read() if os.path.exists(meta) else ''
    res['valid'] = bool(res.get('demo_pristine_exit') == 0 and res.get('applies_to_head') and res.get('suite_with_change') == 'pass' and res.get('demo_changed_exit', 0) != 0)
    res['caught_by'] = [c for c, v in res['checks'].items() if v['violations']]
    json.dump(res, open(os.path.join(dst, 'meta.json'), 'w'), indent=1)
    print(prop, k, 'valid' if res['valid'] else 'INVALID', 'caught by', res['caught_by'], {c: v['exit'] for c, v in res['checks'].items()})
    if not res['valid']:
        print(json.dumps({a: b for a, b in res.items() if a not in ('what_it_needs',)}, indent=1)[:1500])


if __name__ == '__main__':
    main()
