#!/usr/bin/python3
# Translator for C05/C15: regenerates, from the CURRENT C++ source (clang JSON AST, flags of the w64 build),
#   coq/Gen/GenMessages.v     one term of the field-level IR (coq/Model/MsgIR.v) per SetN2k*/ParseN2k*/alias function
#   coq/Gen/GenObligations.v  the per-function obligations (rt_/guard_/layout_ Examples closed by vm_compute)
#   $VERIF_BUILD/gen_msgs/gen_msgs_dispatch.inc   dispatch table of harness/h_msgs.cpp (calls EVERY real function)
#   $VERIF_BUILD/gen_msgs/msgs_meta.json          signatures / enumerators / pairing for tools/p_C05.py, p_C15.py
# Deterministic, write-if-changed, cached per source hash under $VERIF_BUILD.  Anything outside the translatable subset makes
# that function `Untranslated` (no IR term; obligations that mention it are generated as failing and it is listed in the evidence).
# The translation is a symbolic execution of the function body: locals and by-value parameters are substituted, calls of
# other translated functions (the alias wrappers) and of tiny inline methods are inlined, message accesses become IR items.
import os, re, sys, json, hashlib, subprocess, struct
from fractions import Fraction

VERIF = os.path.dirname(os.path.dirname(os.path.abspath(__file__)))
REPO = os.environ.get('VERIF_REPO', '/repo')
BUILD = os.environ.get('VERIF_BUILD', os.path.join(VERIF, 'build'))
OUT = os.path.join(VERIF, 'coq', 'Gen')
GEN = os.path.join(BUILD, 'gen_msgs')
SRC_FILES = ['N2kMessages.cpp', 'N2kMaretron.cpp', 'NMEA2000.cpp']
HASH_FILES = ['N2kMessages.cpp', 'N2kMessages.h', 'N2kMaretron.cpp', 'N2kMaretron.h', 'NMEA2000.cpp', 'NMEA2000.h', 'N2kTypes.h',
              'NMEA2000StdTypes.h', 'N2kMsg.h', 'N2kDef.h', 'NMEA2000_CompilerDefns.h']
C15_PGNS = [59392, 59904, 60928, 126464, 126993, 126996, 126992, 127245, 127250, 127251, 127257, 127488, 127489, 127505, 127508, 128259,
            128267, 128275, 129025, 129026, 129029, 129033, 129283, 129284, 129539, 130306, 130310, 130311, 130312, 130313, 130314, 130316]


# the setter whose argument numbers the reference layout of a PGN uses (default SetN2kPGN<n>)
C15_SETTER = {127489: 'SetN2kPGN127489_o2'}


class Untr(Exception):
    pass


# ------------------------------------------------------------------------------------------------ AST loading
RUNS = [0]


def rename_ids(o, pre):
    if isinstance(o, dict):
        for k, v in o.items():
            if k in ('id', 'referencedMemberDecl', 'previousDecl', 'parentDeclContextId') and isinstance(v, str) and v.startswith('0x'):
                o[k] = pre + v
            else:
                rename_ids(v, pre)
    elif isinstance(o, list):
        for x in o:
            rename_ids(x, pre)


def clang_dump(fname, filt):
    cmd = ['clang++', '-std=c++11', '-fsyntax-only', '-DESP_PLATFORM', '-I' + os.path.join(VERIF, 'harness', 'fake_esp'),
           '-I' + os.path.join(REPO, 'src'), '-Xclang', '-ast-dump=json', '-Xclang', '-ast-dump-filter=' + filt,
           os.path.join(REPO, 'src', fname)]
    p = subprocess.run(cmd, stdout=subprocess.PIPE, stderr=subprocess.PIPE, text=True, errors='replace')
    out = p.stdout
    dec = json.JSONDecoder()
    i, n, objs = 0, len(out), []
    while i < n:
        while i < n and out[i] in ' \n\r\t':
            i += 1
        if i >= n:
            break
        if out[i] != '{':
            j = out.find('\n', i)
            i = (j + 1) if j >= 0 else n
            continue
        o, i = dec.raw_decode(out, i)
        objs.append(o)
    RUNS[0] += 1
    rename_ids(objs, 'r%d:' % RUNS[0])
    return objs


_SELF = open(os.path.abspath(__file__), 'rb').read()       # the translator as it was loaded (not as it is on disk when the hash is taken)


def source_hash():
    h = hashlib.sha256()
    h.update(_SELF)
    src = os.path.join(REPO, 'src')
    for f in sorted(os.listdir(src)):                     # every file of the library: headers reach the translated functions through includes
        p = os.path.join(src, f)
        if os.path.isfile(p):
            h.update(f.encode())
            h.update(open(p, 'rb').read())
    return h.hexdigest()[:20]


def write_if_changed(path, txt):
    os.makedirs(os.path.dirname(path), exist_ok=True)
    old = open(path).read() if os.path.exists(path) else None
    if old != txt:
        open(path, 'w').write(txt)


# ------------------------------------------------------------------------------------------------ C types
BUILTIN = {
    'bool': (1, False, True), 'char': (8, True, False), 'signed char': (8, True, False), 'unsigned char': (8, False, False),
    'short': (16, True, False), 'unsigned short': (16, False, False), 'int': (32, True, False), 'unsigned int': (32, False, False),
    'long': (64, True, False), 'unsigned long': (64, False, False), 'long long': (64, True, False), 'unsigned long long': (64, False, False),
}


class CT:
    """integer C type: width in bits, signedness, bool-ness (conversion to bool is `!= 0`), enum name"""

    def __init__(self, w, s, b=False, enum=None, name=None):
        self.w, self.s, self.b, self.enum, self.name = w, s, b, enum, name

    def lo(self):
        return -(1 << (self.w - 1)) if self.s else 0

    def hi(self):
        return (1 << (self.w - 1)) - 1 if self.s else (1 << self.w) - 1

    def key(self):
        return (self.w, self.s, self.b)

    def __repr__(self):
        return 'CT(%d,%s%s%s)' % (self.w, 's' if self.s else 'u', ',bool' if self.b else '', ',' + self.enum if self.enum else '')


INT32 = CT(32, True)


class World:
    def __init__(self):
        self.funcs = {}      # decl id -> FunctionDecl / CXXMethodDecl node with body
        self.fdecl = {}      # any function decl id -> node
        self.enums = {}      # name -> {'ct': CT, 'values': [(name, value)]}
        self.records = {}    # name -> node (complete definition)
        self.alias = {}      # typedef/using name -> underlying type string
        self.vars = {}       # global const variables: name -> VarDecl node
        self.unknown_types = set()

    def add(self, objs):
        for o in objs:
            self.visit(o)

    def visit(self, o):
        k = o.get('kind')
        if k in ('FunctionDecl', 'CXXMethodDecl', 'CXXConstructorDecl'):
            self.fdecl[o['id']] = o
            if any(c.get('kind') == 'CompoundStmt' for c in o.get('inner', [])):
                self.funcs[o['id']] = o
        elif k == 'EnumDecl' and o.get('name'):
            vals, nxt = [], 0
            for c in o.get('inner', []):
                if c.get('kind') == 'EnumConstantDecl':
                    v = None
                    for cc in c.get('inner', []):
                        if v is None and cc.get('kind') not in ('FullComment',):
                            v = const_of_node(cc)
                    if v is None:
                        v = nxt
                    vals.append((c['name'], v))
                    nxt = v + 1
            if vals and o['name'] not in self.enums:
                fixed = o.get('fixedUnderlyingType', {}).get('qualType')
                if fixed:
                    ct0 = BUILTIN.get(self.alias.get(fixed, fixed))
                    ct = CT(ct0[0], ct0[1], False, o['name'])
                else:
                    neg = any(v < 0 for _, v in vals)
                    big = any(v > 0x7fffffff for _, v in vals)
                    ct = CT(32 if not big or neg else 32, neg, False, o['name'])
                self.enums[o['name']] = {'ct': ct, 'values': vals}
        elif k == 'CXXRecordDecl' and o.get('name') and o.get('completeDefinition'):
            self.records.setdefault(o['name'], o)
            for c in o.get('inner', []):
                if c.get('kind') in ('CXXMethodDecl', 'CXXConstructorDecl'):
                    self.visit(c)
                    c['_parent'] = o['name']
        elif k == 'VarDecl' and o.get('name') and o.get('inner'):
            self.vars.setdefault(o['name'], o)
        elif k in ('TypeAliasDecl', 'TypedefDecl') and o.get('name'):
            t = o.get('type', {})
            self.alias.setdefault(o['name'], t.get('desugaredQualType') or t.get('qualType'))
        for c in o.get('inner', []):
            if c.get('kind') in ('EnumDecl', 'CXXRecordDecl', 'TypeAliasDecl', 'TypedefDecl'):
                self.visit(c)

    def resolve(self, tname):
        """type string -> ('int', CT) | ('double',) | ('float',) | ('rec', name) | ('ptr', inner) | ('arr', inner, n) | ('void',) | ('msg',)"""
        t = tname.strip()
        t = re.sub(r'\bconst\b', '', t).strip()
        t = re.sub(r'\s+', ' ', t)
        if t.endswith('&'):
            t = t[:-1].strip()
        m = re.fullmatch(r'(.*)\[(\d+)\]', t)
        if m:
            return ('arr', self.resolve(m.group(1)), int(m.group(2)))
        if t.endswith('*'):
            return ('ptr', self.resolve(t[:-1]))
        for pre in ('enum ', 'struct ', 'union ', 'class '):
            if t.startswith(pre):
                t = t[len(pre):]
        if '::' in t:
            t = t.split('::')[-1]
        seen = 0
        while t in self.alias and seen < 10 and t not in BUILTIN:
            t = re.sub(r'\bconst\b', '', self.alias[t]).strip()
            seen += 1
        if t in BUILTIN:
            w, s, b = BUILTIN[t]
            return ('int', CT(w, s, b, None, t))
        if t in ('double', 'long double'):
            return ('double',) if t == 'double' else ('longdouble',)
        if t == 'float':
            return ('float',)
        if t == 'void':
            return ('void',)
        if t == 'tN2kMsg':
            return ('msg',)
        if t in self.enums:
            return ('int', self.enums[t]['ct'])
        if t in self.records:
            return ('rec', t)
        std = {'uint8_t': 'unsigned char', 'int8_t': 'signed char', 'uint16_t': 'unsigned short', 'int16_t': 'short', 'uint32_t': 'unsigned int',
               'int32_t': 'int', 'uint64_t': 'unsigned long', 'int64_t': 'long', 'size_t': 'unsigned long', '__uint8_t': 'unsigned char',
               '__uint16_t': 'unsigned short', '__uint32_t': 'unsigned int', '__uint64_t': 'unsigned long', '__int8_t': 'signed char',
               '__int16_t': 'short', '__int32_t': 'int', '__int64_t': 'long'}
        if t in std:
            w, s, b = BUILTIN[std[t]]
            return ('int', CT(w, s, b, None, t))
        if re.fullmatch(r'\w+', t):
            self.unknown_types.add(t)
        raise Untr('type %s' % tname)

    def typeof(self, node):
        t = node.get('type', {})
        return self.resolve(t.get('desugaredQualType') or t.get('qualType') or '?')


def const_of_node(n):
    k = n.get('kind')
    if k in ('ConstantExpr', 'ImplicitCastExpr', 'ParenExpr', 'CStyleCastExpr'):
        if k == 'ConstantExpr' and 'value' in n:
            try:
                return int(n['value'])
            except ValueError:
                pass
        for c in n.get('inner', []):
            v = const_of_node(c)
            if v is not None:
                return v
        return None
    if k == 'IntegerLiteral':
        return int(n['value'])
    if k == 'CharacterLiteral':
        return int(n['value'])
    if k == 'UnaryOperator' and n.get('opcode') == '-':
        v = const_of_node(n['inner'][0])
        return -v if v is not None else None
    return None


# ------------------------------------------------------------------------------------------------ exact doubles
def round_frac(fr, mant, emin, emax):
    """nearest (ties to even) binary float with `mant` significant bits to the exact rational fr; returns Fraction"""
    if fr == 0:
        return Fraction(0)
    s = -1 if fr < 0 else 1
    a = abs(fr)
    # find e with 2^e <= a < 2^(e+1)
    e = a.numerator.bit_length() - a.denominator.bit_length()
    if Fraction(2) ** e > a:
        e -= 1
    if Fraction(2) ** (e + 1) <= a:
        e += 1
    e = max(e, emin)
    q = a / Fraction(2) ** (e - mant + 1)
    n = q.numerator // q.denominator
    r = q - n
    if r > Fraction(1, 2) or (r == Fraction(1, 2) and n % 2 == 1):
        n += 1
    return s * n * Fraction(2) ** (e - mant + 1)


def double_bits_of_fraction(fr):
    d = float(round_frac(fr, 53, -1022, 1023))
    return struct.unpack('>Q', struct.pack('>d', d))[0]


def literal_fraction(text):
    t = text.strip().rstrip('fFlL')
    if re.fullmatch(r'[0-9]+', t):
        return Fraction(int(t))
    if t.lower().startswith('0x'):
        raise Untr('hex float literal')
    from decimal import Decimal
    return Fraction(Decimal(t))


def dbits(x):
    return struct.unpack('>Q', struct.pack('>d', x))[0]


def bits_to_double(b):
    return struct.unpack('>d', struct.pack('>Q', b))[0]


# ------------------------------------------------------------------------------------------------ IR (python side)
# integer expressions: tuples; every node carries nothing but structure; ranges are computed on demand
def rng(e):
    k = e[0]
    if k == 'Const':
        return (e[1], e[1])
    if k in ('Arg', 'Slot'):
        ct = e[2]
        return (ct.lo(), ct.hi())
    if k in ('Pgn',):
        return (0, (1 << 64) - 1)
    if k in ('DataLen',):
        return (0, 223)
    if k == 'TextLen':
        return (0, 1 << 20)
    if k == 'Cast':
        lo, hi = rng(e[3])
        w, s = e[1], e[2]
        tl, th = (-(1 << (w - 1)), (1 << (w - 1)) - 1) if s else (0, (1 << w) - 1)
        return (lo, hi) if (tl <= lo and hi <= th) else (tl, th)
    if k == 'And':
        (al, ah), (bl, bh) = rng(e[1]), rng(e[2])
        if al >= 0 and bl >= 0:
            return (0, min(ah, bh))
        if bl >= 0:
            return (0, bh)
        if al >= 0:
            return (0, ah)
        return (min(al, bl), max(ah, bh, 0))
    if k in ('Or', 'Xor'):
        (al, ah), (bl, bh) = rng(e[1]), rng(e[2])
        if al >= 0 and bl >= 0:
            return (0, (1 << max(ah.bit_length(), bh.bit_length())) - 1)
        m = max(abs(al), abs(ah) + 1, abs(bl), abs(bh) + 1)
        p = 1 << m.bit_length()
        return (-p, p - 1)
    if k == 'Shl':
        lo, hi = rng(e[1])
        return (lo << e[2], hi << e[2])
    if k == 'Shr':
        lo, hi = rng(e[1])
        return (lo >> e[2], hi >> e[2])
    if k == 'Add':
        (al, ah), (bl, bh) = rng(e[1]), rng(e[2])
        return (al + bl, ah + bh)
    if k == 'Sub':
        (al, ah), (bl, bh) = rng(e[1]), rng(e[2])
        return (al - bh, ah - bl)
    if k == 'Mul':
        (al, ah), (bl, bh) = rng(e[1]), rng(e[2])
        c = [al * bl, al * bh, ah * bl, ah * bh]
        return (min(c), max(c))
    if k == 'Div':
        (al, ah), (bl, bh) = rng(e[1]), rng(e[2])
        m = max(abs(al), abs(ah))
        return (-m, m) if al < 0 else (0, ah if bl >= 1 else m)
    if k == 'Not':
        lo, hi = rng(e[1])
        return (-hi - 1, -lo - 1)
    if k in ('Bool', 'LNot', 'Eq', 'Ne', 'Lt', 'Le', 'DLt', 'DLe', 'DEq'):
        return (0, 1)
    if k == 'Cond':
        (al, ah), (bl, bh) = rng(e[2]), rng(e[3])
        return (min(al, bl), max(ah, bh))
    if k == 'D2I':
        w, s = e[1], e[2]
        return (-(1 << (w - 1)), (1 << (w - 1)) - 1) if s else (0, (1 << w) - 1)
    raise Untr('rng ' + k)


def is_const(e):
    return e[0] == 'Const'


def wrap(v, w, s):
    v &= (1 << w) - 1
    if s and v >= (1 << (w - 1)):
        v -= 1 << w
    return v


def mk_cast(ct, e):
    """conversion of an integer value to the C type ct"""
    if ct.b:
        return mk_bool(e)
    if is_const(e):
        return ('Const', wrap(e[1], ct.w, ct.s))
    lo, hi = rng(e)
    if ct.lo() <= lo and hi <= ct.hi():
        return e
    if e[0] == 'Cast' and e[1] >= ct.w and False:
        pass
    return ('Cast', ct.w, ct.s, e)


def mk_bool(e):
    if is_const(e):
        return ('Const', 1 if e[1] != 0 else 0)
    lo, hi = rng(e)
    if lo >= 0 and hi <= 1:
        return e
    return ('Bool', e)


def mk_bin(op, a, b):
    if is_const(a) and is_const(b):
        x, y = a[1], b[1]
        if op == 'And':
            return ('Const', x & y)
        if op == 'Or':
            return ('Const', x | y)
        if op == 'Xor':
            return ('Const', x ^ y)
        if op == 'Add':
            return ('Const', x + y)
        if op == 'Sub':
            return ('Const', x - y)
        if op == 'Mul':
            return ('Const', x * y)
        if op == 'Div':
            if y == 0:
                raise Untr('division by zero')
            q = abs(x) // abs(y)
            return ('Const', q if (x >= 0) == (y >= 0) else -q)
        if op == 'Eq':
            return ('Const', int(x == y))
        if op == 'Ne':
            return ('Const', int(x != y))
        if op == 'Lt':
            return ('Const', int(x < y))
        if op == 'Le':
            return ('Const', int(x <= y))
    return (op, a, b)


def mk_shift(op, a, k):
    if not is_const(k):
        raise Untr('shift by a non-constant amount')
    if k[1] < 0 or k[1] > 63:
        raise Untr('shift amount')
    if is_const(a):
        return ('Const', (a[1] << k[1]) if op == 'Shl' else (a[1] >> k[1]))
    if k[1] == 0:
        return a
    return (op, a, k[1])


def mk_cond(c, a, b):
    if is_const(c):
        return a if c[1] != 0 else b
    if a == b:
        return a
    return ('Cond', c, a, b)


# ------------------------------------------------------------------------------------------------ symbolic values and locations
class IntV:
    def __init__(self, e, ct):
        self.e, self.ct = e, ct


class DblV:
    def __init__(self, d):
        self.d = d            # ('DArg', i) | ('DConst', bits) | ('DSlot', k)


class TextV:
    def __init__(self, a):
        self.a = a            # input text argument index


class ListV:
    def __init__(self, a):
        self.a = a            # input list argument (zero terminated array of unsigned long)


class BufV:
    def __init__(self, loc):
        self.loc = loc        # output text buffer location


class MsgV:
    pass


class RecV:
    def __init__(self, loc):
        self.loc = loc


class Loc:
    def __init__(self, ty, name):
        self.ty, self.name = ty, name
        self.val = None       # current symbolic value (None = unknown / not yet assigned)
        self.out = None       # index of the top-level output it denotes
        self.inarg = None     # factory that turns the location into an input argument on first read
        self.fields = None    # for records: dict name -> Loc
        self.bufsize = None   # for output text buffers: size expression


class Sig:
    """signature of a top-level function as seen by the harness and the model: input slots and output slots"""

    def __init__(self):
        self.params = []      # (cxx type text, variable name, kind)
        self.ins = []         # dict(lv=..., kind='int'|'double'|'text'|'float', ct=CT, cxx=type text, arr=size|None, name)
        self.outs = []        # dict(lv=..., kind=..., ct=CT, cxx=..., size=..., name)


class Ctx:
    def __init__(self, world, kind):
        self.w = world
        self.kind = kind          # 'S' | 'P'
        self.env = {}             # decl id -> Loc
        self.stmts = []           # emitted IR items (current block)
        self.pgn = None
        self.prio = None
        self.dest = None
        self.guard = None
        self.guard_mode = 'pass'
        self.sig = Sig()
        self.nslot = 0
        self.index_id = None
        self.returned = False
        self.retval = None
        self.depth = 0
        self.reads_in_expr = 0
        self.inlined = []

    def emit(self, s):
        self.stmts.append(s)

    def new_slot(self, n=1):
        k = self.nslot
        self.nslot += n
        return k


def cxx_clean(t):
    t = re.sub(r'\bconst\b', '', t).replace('&', '').strip()
    return re.sub(r'\s+', ' ', t)


# ------------------------------------------------------------------------------------------------ the executor
class Exec:
    def __init__(self, world, fnode, kind):
        self.w = world
        self.f = fnode
        self.c = Ctx(world, kind)
        self.kind = kind

    # ---- signature / parameter setup
    def setup(self):
        c = self.c
        params = [p for p in self.f.get('inner', []) if p.get('kind') == 'ParmVarDecl']
        if not params or self.w.resolve(params[0]['type']['qualType']) != ('msg',):
            raise Untr('first parameter is not the message')
        mloc = Loc(('msg',), 'N2kMsg')
        mloc.val = MsgV()
        c.env[params[0]['id']] = mloc
        c.msg_const = 'const' in params[0]['type']['qualType']
        for i, p in enumerate(params[1:]):
            qt = p['type']['qualType']
            ty = self.w.resolve(p['type'].get('desugaredQualType') or qt)
            var = 'p%d' % (i + 1)
            isref = qt.strip().endswith('&')
            isconst = bool(re.search(r'\bconst\b', qt))
            loc = Loc(ty, p.get('name', var))
            c.env[p['id']] = loc
            base = cxx_clean(qt)
            if ty[0] == 'ptr':
                inner = ty[1]
                if inner[0] == 'int' and inner[1].w == 8:
                    if self.kind == 'S' or isconst or self.f['name'].startswith('Append'):
                        a = self.new_in(dict(lv=var, kind='text', cxx='const char *', name=loc.name, arr=None))
                        loc.val = TextV(a)
                        c.sig.params.append(('text' if isconst else 'textnc', var, base))
                    else:
                        loc.val = BufV(loc)
                        j = self.new_out(dict(lv=var, kind='text', cxx='char *', name=loc.name, size=None))
                        loc.out = j
                        c.sig.params.append(('buf', var, base))
                    continue
                if inner[0] == 'int' and inner[1].w == 64 and isconst and self.kind == 'S':
                    a = self.new_in(dict(lv=var, kind='list', cxx='const unsigned long *', name=loc.name, arr=None))
                    loc.val = ListV(a)
                    c.sig.params.append(('list', var, base))
                    continue
                raise Untr('pointer parameter %s' % qt)
            c.sig.params.append(('val', var, base))
            direction = 'in' if (self.kind == 'S' or not isref or isconst) else 'out'
            self.bind_leaf(loc, ty, var, direction, loc.name, base)
        c.sig.complete = True

    def bind_leaf(self, loc, ty, lv, direction, name, cxx):
        c = self.c
        if ty[0] == 'int':
            if direction == 'in':
                a = self.new_in(dict(lv=lv, kind='int', ct=ty[1], cxx=cxx, name=name, arr=None))
                loc.val = IntV(('Arg', a, ty[1]), ty[1])
            else:
                j = self.new_out(dict(lv=lv, kind='int', ct=ty[1], cxx=cxx, name=name))
                loc.out = j
                # an output that is read before it is written is also an input (size_t &BufSize)
                loc.inarg = lambda: self.new_in(dict(lv=lv, kind='int', ct=ty[1], cxx=cxx, name=name, arr=None, inout=True))
        elif ty[0] == 'double':
            if direction == 'in':
                a = self.new_in(dict(lv=lv, kind='double', cxx='double', name=name, arr=None))
                loc.val = DblV(('DArg', a))
            else:
                loc.out = self.new_out(dict(lv=lv, kind='double', cxx='double', name=name))
        elif ty[0] == 'float':
            raise Untr('float parameter')
        elif ty[0] == 'rec':
            loc.fields = {}
            rec = self.w.records[ty[1]]
            for fd in rec.get('inner', []):
                if fd.get('kind') != 'FieldDecl' or not fd.get('name'):
                    continue
                try:
                    fty = self.w.resolve(fd['type'].get('desugaredQualType') or fd['type']['qualType'])
                except Untr:
                    continue
                fl = Loc(fty, name + '.' + fd['name'])
                flv = lv + '.' + fd['name']
                fcxx = cxx_clean(fd['type']['qualType'])
                if fty[0] in ('int', 'double'):
                    self.bind_leaf(fl, fty, flv, direction, fl.name, fcxx)
                elif fty[0] == 'arr' and fty[1][0] == 'int' and fty[1][1].w == 8:
                    if direction == 'in':
                        a = self.new_in(dict(lv=flv, kind='text', cxx='char[]', name=fl.name, arr=fty[2]))
                        fl.val = TextV(a)
                    else:
                        fl.val = BufV(fl)
                        fl.out = self.new_out(dict(lv=flv, kind='text', cxx='char[]', name=fl.name, size=('Const', fty[2]), arr=fty[2]))
                        fl.bufsize = ('Const', fty[2])
                else:
                    continue
                loc.fields[fd['name']] = fl
        else:
            raise Untr('parameter type %s' % (ty,))

    def new_in(self, d):
        self.c.sig.ins.append(d)
        return len(self.c.sig.ins) - 1

    def new_out(self, d):
        self.c.sig.outs.append(d)
        return len(self.c.sig.outs) - 1

    # ---- lvalues
    def lvalue(self, n):
        k = n['kind']
        c = self.c
        if k == 'ParenExpr':
            return self.lvalue(n['inner'][0])
        if k == 'DeclRefExpr':
            rid = n['referencedDecl']['id']
            if rid in c.env:
                return c.env[rid]
            raise Untr('reference to %s' % n['referencedDecl'].get('name'))
        if k == 'MemberExpr':
            base = n['inner'][0]
            if base.get('kind') == 'CXXThisExpr':
                bl = c.this
            else:
                bl = self.lvalue(base)
            if bl.ty == ('msg',):
                l = Loc(('msgfield', n['name']), n['name'])
                return l
            if bl.ty[0] == 'bitsof':
                return self.bit_loc(bl, n['name'])
            if bl.fields is None:
                # a local record: create fields lazily
                if bl.ty[0] == 'rec':
                    bl.fields = {}
                else:
                    raise Untr('member of a non-record')
            nm = n['name']
            if bl.ty[0] == 'bitsof':
                return self.bit_loc(bl, nm)
            if nm not in bl.fields and bl.ty[0] == 'rec' and 'unnamed struct' in n.get('type', {}).get('qualType', ''):
                store = [f for f in bl.fields.values() if f.ty[0] == 'int']
                if self.w.records[bl.ty[1]].get('tagUsed') == 'union' and len(store) == 1:
                    l = Loc(('bitsof', bl.ty[1], store[0]), bl.name + '.' + nm)
                    bl.fields[nm] = l
                    return l
            if nm not in bl.fields:
                fty = self.w.typeof(n)
                fl = Loc(fty, bl.name + '.' + nm)
                if n.get('type', {}).get('qualType', '').find('anonymous') >= 0 or fty[0] == 'rec':
                    fl.fields = {}
                bl.fields[nm] = fl
            return bl.fields[nm]
        if k in ('ImplicitCastExpr', 'CStyleCastExpr') and n.get('castKind') in ('NoOp', 'ArrayToPointerDecay', 'BitCast'):
            return self.lvalue(n['inner'][0])
        if k == 'MaterializeTemporaryExpr':
            return self.lvalue(n['inner'][0])
        raise Untr('lvalue %s' % k)

    def bit_loc(self, bl, nm):
        """bit-field member of the anonymous struct that shares storage with the integer member of a union (little endian, LSB first)"""
        rec = self.w.records[bl.ty[1]]
        for sub in rec.get('inner', []):
            if sub.get('kind') == 'CXXRecordDecl' and not sub.get('name'):
                off = 0
                for fd in sub.get('inner', []):
                    if fd.get('kind') != 'FieldDecl':
                        continue
                    if not fd.get('isBitfield'):
                        break
                    wd = None
                    for x in fd.get('inner', []):
                        wd = const_of_node(x) if wd is None else wd
                    if wd is None:
                        break
                    if fd.get('name') == nm:
                        store = bl.ty[2]
                        if off + wd > store.ty[1].w:
                            break
                        l = Loc(('bits', store, off, wd, self.w.resolve(fd['type'].get('desugaredQualType') or fd['type']['qualType'])[1]), bl.name + '.' + nm)
                        return l
                    off += wd
        raise Untr('bit-field %s' % nm)

    def read_loc(self, loc):
        if loc.ty[0] == 'bits':
            _, store, off, wd, ct = loc.ty
            sv = self.read_loc(store)
            return IntV(('And', mk_shift('Shr', sv.e, ('Const', off)), ('Const', (1 << wd) - 1)), ct)
        if loc.val is None and loc.inarg is not None:
            a = loc.inarg()
            loc.inarg = None
            ct = loc.ty[1]
            loc.val = IntV(('Arg', a, ct), ct)
        if loc.val is None:
            raise Untr('read of %s before it is assigned' % loc.name)
        return loc.val

    def assign(self, loc, v):
        c = self.c
        if loc.ty[0] == 'bits':
            _, store, off, wd, ct = loc.ty
            if not isinstance(v, IntV):
                raise Untr('bit-field assignment')
            mask = (1 << wd) - 1
            old = self.read_loc(store)
            keep = mk_bin('And', old.e, ('Const', store.ty[1].hi() & ~(mask << off)))
            new = mk_shift('Shl', mk_bin('And', v.e, ('Const', mask)), ('Const', off))
            self.assign(store, IntV(mk_bin('Or', keep, new), store.ty[1]))
            return
        if loc.ty[0] == 'msgfield':
            f = loc.ty[1]
            if f == 'Priority':
                if not isinstance(v, IntV) or not is_const(v.e):
                    raise Untr('priority not constant')
                c.prio = v.e[1]
            elif f == 'Destination':
                c.dest = mk_cast(CT(8, False), v.e)
            elif f == 'DataLen':
                raise Untr('assignment to DataLen')
            else:
                raise Untr('assignment to message field %s' % f)
            return
        if loc.ty[0] == 'int':
            if not isinstance(v, IntV):
                raise Untr('non integer value assigned to %s' % loc.name)
            v = IntV(mk_cast(loc.ty[1], v.e), loc.ty[1])
            loc.val = v
            loc.inarg = None
            if loc.out is not None:
                c.emit(('OutI', loc.out, v.e))
        elif loc.ty[0] == 'double':
            if not isinstance(v, DblV):
                raise Untr('non double value assigned to %s' % loc.name)
            loc.val = v
            if loc.out is not None:
                c.emit(('OutD', loc.out, v.d))
        elif loc.ty[0] == 'rec':
            raise Untr('record assignment to %s' % loc.name)
        else:
            raise Untr('assignment to %s' % loc.name)

    # ---- expressions
    def ev(self, n):
        """evaluate an rvalue expression -> IntV | DblV | TextV | BufV | MsgV"""
        k = n['kind']
        c = self.c
        if k in ('ParenExpr', 'ConstantExpr', 'ExprWithCleanups', 'MaterializeTemporaryExpr', 'CXXBindTemporaryExpr'):
            return self.ev(n['inner'][0])
        if k == 'IntegerLiteral':
            ty = self.w.typeof(n)
            return IntV(('Const', int(n['value'])), ty[1])
        if k == 'CharacterLiteral':
            return IntV(('Const', int(n['value'])), self.w.typeof(n)[1])
        if k == 'CXXBoolLiteralExpr':
            return IntV(('Const', 1 if n['value'] in (True, 'true', 'True') else 0), CT(1, False, True))
        if k == 'FloatingLiteral':
            return self.float_literal(n)
        if k == 'CXXDefaultArgExpr':
            return ('default',)
        if k == 'ImplicitCastExpr' or k == 'CStyleCastExpr' or k == 'CXXStaticCastExpr' or k == 'CXXFunctionalCastExpr':
            return self.ev_cast(n)
        if k == 'DeclRefExpr':
            rd = n['referencedDecl']
            if rd.get('kind') == 'EnumConstantDecl':
                ty = self.w.typeof(n)
                return IntV(('Const', self.enum_const(rd['name'])), ty[1])
            if rd['id'] in c.env:
                return self.read_loc(c.env[rd['id']])
            if rd.get('kind') == 'VarDecl':
                v = self.global_const(rd)
                if v is not None:
                    return v
            raise Untr('reference to %s' % rd.get('name'))
        if k == 'MemberExpr':
            loc = self.lvalue(n)
            if loc.ty[0] == 'msgfield':
                f = loc.ty[1]
                if f == 'PGN':
                    return IntV(('Pgn',), CT(64, False))
                if f == 'DataLen':
                    return IntV(('DataLen',), CT(32, True))
                if f == 'MaxDataLen':
                    return IntV(('Const', 223), CT(32, True))
                raise Untr('read of message field %s' % f)
            return self.read_loc(loc)
        if k == 'UnaryOperator':
            return self.ev_unary(n)
        if k == 'BinaryOperator':
            return self.ev_binary(n)
        if k == 'CompoundAssignOperator':
            return self.ev_compound(n)
        if k == 'ConditionalOperator':
            cnd = self.as_bool(self.ev(n['inner'][0]))
            a = self.ev(n['inner'][1])
            b = self.ev(n['inner'][2])
            if isinstance(a, IntV) and isinstance(b, IntV):
                ty = self.w.typeof(n)
                return IntV(mk_cond(cnd, mk_cast(ty[1], a.e), mk_cast(ty[1], b.e)), ty[1])
            raise Untr('conditional on non-integers')
        if k == 'CXXMemberCallExpr':
            return self.ev_member_call(n)
        if k == 'CallExpr':
            return self.ev_call(n)
        if k == 'UnaryExprOrTypeTraitExpr' and n.get('name') == 'sizeof':
            if n.get('inner'):
                ty = self.w.typeof(n['inner'][0])
            else:
                ty = self.w.resolve(n['argType']['qualType'])
            if ty[0] == 'arr':
                return IntV(('Const', ty[2]), CT(64, False))
            raise Untr('sizeof')
        if k == 'CXXOperatorCallExpr':
            callee = n['inner'][0]
            while callee.get('kind') in ('ImplicitCastExpr',):
                callee = callee['inner'][0]
            if callee.get('referencedDecl', {}).get('name') == 'operator=' and len(n['inner']) == 3:
                loc = self.lvalue(n['inner'][1])
                m = self.w.funcs.get(callee['referencedDecl']['id'])
                if m is not None and not m.get('isImplicit') and loc.ty[0] == 'rec':
                    return self.inline(m, [n['inner'][2]], this=loc)
                if loc.ty[0] == 'rec':
                    return self.assign_record(loc, n['inner'][2])
            raise Untr('operator call')
        if k == 'CXXConstructExpr' or k == 'CXXTemporaryObjectExpr':
            # copy of a record (argument passed by value)
            if len(n.get('inner', [])) == 1:
                src = n['inner'][0]
                while src.get('kind') in ('ImplicitCastExpr', 'MaterializeTemporaryExpr') and src.get('castKind', 'NoOp') == 'NoOp':
                    src = src['inner'][0]
                try:
                    l = self.lvalue(src)
                except Untr:
                    l = None
                if l is not None and l.ty[0] == 'rec':
                    return RecV(self.copy_rec(l))
                # converting constructor (tN2kDD206(uint16_t)): a fresh record with that one member
                ty = self.w.typeof(n)
                if ty[0] == 'rec':
                    fld = self.ctor_single_member(ty[1])
                    if fld is not None:
                        tmp = self.fresh_rec(ty, 'tmp')
                        self.assign(tmp.fields[fld], self.ev(n['inner'][0]))
                        return RecV(tmp)
            raise Untr('constructor call')
        raise Untr('expression %s' % k)

    def float_literal(self, n):
        """clang prints a floating literal with enough digits to round-trip in the literal's own format; re-round there"""
        ty = self.w.typeof(n)
        from decimal import Decimal
        fr = Fraction(Decimal(n['value']))
        if ty[0] == 'longdouble':
            return ('ld', round_frac(fr, 64, -16382, 16383))     # x87 extended literal, converted to double afterwards
        if ty[0] == 'float':
            return ('flt', round_frac(fr, 24, -126, 127))
        return DblV(('DConst', double_bits_of_fraction(fr)))

    def enum_const(self, name):
        for en in self.w.enums.values():
            for nm, v in en['values']:
                if nm == name:
                    return v
        raise Untr('enumerator %s' % name)

    def global_const(self, rd):
        """const globals of the headers (N2kDoubleNA, N2kUInt8NA ...): evaluate the initialiser found in the AST"""
        vd = self.w.vars.get(rd.get('name'))
        if vd is None or 'const' not in vd['type']['qualType']:
            return None
        init = [x for x in vd.get('inner', []) if x.get('kind') not in ('FullComment',)]
        if not init:
            return None
        ty = self.w.resolve(vd['type'].get('desugaredQualType') or vd['type']['qualType'])
        v = self.ev(init[0])
        if ty[0] == 'int' and isinstance(v, IntV) and is_const(v.e):
            return IntV(mk_cast(ty[1], v.e), ty[1])
        if ty[0] == 'double':
            if isinstance(v, DblV) and v.d[0] == 'DConst':
                return v
            if isinstance(v, IntV) and is_const(v.e):
                return DblV(('DConst', double_bits_of_fraction(Fraction(v.e[1]))))
        return None

    def as_bool(self, v):
        if isinstance(v, IntV):
            return mk_bool(v.e)
        raise Untr('condition is not an integer')

    def ev_cast(self, n):
        ck = n.get('castKind')
        inner = n['inner'][-1]
        c = self.c
        if ck == 'LValueToRValue':
            if inner.get('kind') == 'DeclRefExpr' and inner['referencedDecl']['id'] not in c.env:
                return self.ev(inner)
            loc = self.lvalue(inner)
            if loc.ty[0] == 'msgfield':
                return self.ev(inner)
            return self.read_loc(loc)
        if ck in ('NoOp', 'ConstructorConversion', 'UserDefinedConversion'):
            return self.ev(inner)
        if ck == 'ArrayToPointerDecay':
            loc = self.lvalue(inner)
            if loc.val is None:
                raise Untr('array %s' % loc.name)
            return loc.val
        if ck == 'BitCast':
            return self.ev(inner)
        v = self.ev(inner)
        ty = self.w.typeof(n)
        if ck == 'IntegralCast':
            return IntV(mk_cast(ty[1], v.e), ty[1])
        if ck == 'IntegralToBoolean':
            return IntV(mk_bool(v.e), CT(1, False, True))
        if ck == 'IntegralToFloating':
            if isinstance(v, IntV) and is_const(v.e):
                return DblV(('DConst', double_bits_of_fraction(Fraction(v.e[1]))))
            raise Untr('integer to floating conversion of a non-constant')
        if ck == 'FloatingCast':
            if isinstance(v, tuple) and v[0] in ('ld', 'flt'):
                if ty[0] == 'double':
                    return DblV(('DConst', double_bits_of_fraction(v[1])))
                raise Untr('floating cast to %s' % (ty,))
            if isinstance(v, DblV) and ty[0] in ('double',):
                return v
            if isinstance(v, DblV) and ty[0] == 'longdouble' and v.d[0] == 'DConst':
                return ('ld', Fraction(bits_to_double(v.d[1])))
            raise Untr('floating cast')
        if ck == 'FloatingToIntegral':
            if isinstance(v, DblV):
                ct = ty[1]
                return IntV(('D2I', ct.w, ct.s, v.d), ct)
            raise Untr('floating to integral')
        if ck == 'NullToPointer':
            raise Untr('null pointer')
        if ck == 'FunctionToPointerDecay':
            return ('fn', inner)
        raise Untr('cast kind %s' % ck)

    def ev_unary(self, n):
        op = n['opcode']
        sub = n['inner'][0]
        if op in ('++', '--'):
            loc = self.lvalue(sub)
            if self.is_index(loc):
                if op == '++':
                    self.c.emit(('AddIdx', ('Const', 1)))
                    return IntV(('Const', 0), INT32)   # value unused (checked by caller being a statement)
                raise Untr('Index--')
            old = self.read_loc(loc)
            nv = IntV(mk_cast(loc.ty[1], mk_bin('Add' if op == '++' else 'Sub', old.e, ('Const', 1))), loc.ty[1])
            self.assign(loc, nv)
            return old if n.get('isPostfix') else nv
        v = self.ev(sub)
        ty = self.w.typeof(n)
        if op == '!':
            e = self.as_bool(v)
            return IntV(('Const', 1 - e[1]) if is_const(e) else ('LNot', e), CT(1, False, True))
        if op == '-':
            if isinstance(v, IntV):
                return IntV(mk_cast(ty[1], mk_bin('Sub', ('Const', 0), v.e)), ty[1])
            if isinstance(v, DblV) and v.d[0] == 'DConst':
                return DblV(('DConst', dbits(-bits_to_double(v.d[1]))))
            raise Untr('negation')
        if op == '~':
            e = ('Const', ~v.e[1]) if is_const(v.e) else ('Not', v.e)
            return IntV(mk_cast(ty[1], e), ty[1])
        if op == '+':
            return v
        raise Untr('unary %s' % op)

    def is_index(self, loc):
        return getattr(loc, 'is_index', False)

    def ev_binary(self, n):
        op = n['opcode']
        l, r = n['inner']
        c = self.c
        if op == '=':
            loc = self.lvalue(l)
            if self.is_index(loc):
                v = self.ev(r)
                c.emit(('SetIdx', mk_cast(INT32, v.e)))
                return v
            if loc.ty[0] == 'rec':
                return self.assign_record(loc, r)
            v = self.ev(r)
            self.assign(loc, v)
            return loc.val if loc.ty[0] != 'msgfield' else v
        if op == ',':
            self.ev(l)
            return self.ev(r)
        if op in ('&&', '||'):
            a = self.as_bool(self.ev(l))
            before = len(c.stmts)
            nreads = c.nslot
            # the right operand may contain reads: they are executed conditionally
            saved = c.stmts
            c.stmts = []
            b = self.as_bool(self.ev(r))
            inner = c.stmts
            c.stmts = saved
            if inner:
                # a && b  ==>  if (a) { inner } ; value = a ? b : 0
                if op == '&&':
                    c.emit(('If', a, inner, []))
                else:
                    c.emit(('If', a, [], inner))
            if op == '&&':
                e = mk_cond(a, b, ('Const', 0))
            else:
                e = mk_cond(a, ('Const', 1), b)
            return IntV(e, CT(1, False, True))
        a = self.ev(l)
        b = self.ev(r)
        ty = self.w.typeof(n)
        if isinstance(a, DblV) or isinstance(b, DblV):
            return self.ev_dbl_binary(op, a, b, ty)
        if not (isinstance(a, IntV) and isinstance(b, IntV)):
            raise Untr('binary %s on non-integers' % op)
        ops = {'&': 'And', '|': 'Or', '^': 'Xor', '+': 'Add', '-': 'Sub', '*': 'Mul', '/': 'Div'}
        if op in ops:
            return IntV(mk_cast(ty[1], mk_bin(ops[op], a.e, b.e)), ty[1])
        if op in ('<<', '>>'):
            e = mk_shift('Shl' if op == '<<' else 'Shr', a.e, b.e)
            return IntV(mk_cast(ty[1], e), ty[1])
        cmpo = {'==': ('Eq', False), '!=': ('Ne', False), '<': ('Lt', False), '<=': ('Le', False), '>': ('Lt', True), '>=': ('Le', True)}
        if op in cmpo:
            o, swap = cmpo[op]
            x, y = (b.e, a.e) if swap else (a.e, b.e)
            return IntV(mk_bin(o, x, y), CT(1, False, True))
        raise Untr('binary %s' % op)

    def as_dbl(self, v):
        if isinstance(v, DblV):
            return v.d
        if isinstance(v, tuple) and v and v[0] == 'ld':
            return ('DConst', double_bits_of_fraction(v[1]))
        if isinstance(v, IntV) and is_const(v.e):
            return ('DConst', double_bits_of_fraction(Fraction(v.e[1])))
        raise Untr('operand of floating point arithmetic')

    def ev_dbl_binary(self, op, a, b, ty):
        if ty[0] == 'longdouble':
            raise Untr('long double arithmetic')
        x, y = self.as_dbl(a), self.as_dbl(b)
        if op == '+':
            return DblV(('DAdd', x, y))
        if op == '-':
            return DblV(('DSub', x, y))
        B = CT(1, False, True)
        if op == '<':
            return IntV(('DLt', x, y), B)
        if op == '>':
            return IntV(('DLt', y, x), B)
        if op == '<=':
            return IntV(('DLe', x, y), B)
        if op == '>=':
            return IntV(('DLe', y, x), B)
        if op == '==':
            return IntV(('DEq', x, y), B)
        if op == '!=':
            return IntV(('LNot', ('DEq', x, y)), B)
        raise Untr('floating point arithmetic `%s`' % op)

    def ev_compound(self, n):
        op = n['opcode']
        l, r = n['inner']
        loc = self.lvalue(l)
        if self.is_index(loc):
            if op == '+=':
                v = self.ev(r)
                self.c.emit(('AddIdx', mk_cast(INT32, v.e)))
                return v
            raise Untr('Index %s' % op)
        old = self.read_loc(loc)
        v = self.ev(r)
        if isinstance(old, DblV) or isinstance(v, DblV):
            if op in ('+=', '-=') and loc.ty[0] == 'double':
                nv = self.ev_dbl_binary(op[0], old, v, ('double',))
                self.assign(loc, nv)
                return nv
            raise Untr('floating point arithmetic `%s`' % op)
        cty = self.w.resolve(n.get('computeResultType', {}).get('desugaredQualType') or n.get('computeResultType', {}).get('qualType') or 'int')
        ops = {'&=': 'And', '|=': 'Or', '^=': 'Xor', '+=': 'Add', '-=': 'Sub', '*=': 'Mul'}
        if op in ops:
            e = mk_bin(ops[op], mk_cast(cty[1], old.e), mk_cast(cty[1], v.e))
        elif op in ('<<=', '>>='):
            e = mk_shift('Shl' if op == '<<=' else 'Shr', mk_cast(cty[1], old.e), v.e)
        else:
            raise Untr('compound %s' % op)
        e = mk_cast(cty[1], e)
        self.assign(loc, IntV(e, cty[1]))
        return loc.val

    def assign_record(self, loc, rnode):
        """Status1 = <integer>  through a converting constructor that initialises one member"""
        node = rnode
        while node.get('kind') in ('MaterializeTemporaryExpr', 'ImplicitCastExpr', 'ExprWithCleanups', 'CXXBindTemporaryExpr', 'CXXFunctionalCastExpr') and node.get('inner'):
            node = node['inner'][-1]
        if node.get('kind') in ('CXXConstructExpr', 'CXXTemporaryObjectExpr') and len(node.get('inner', [])) == 1:
            v = self.ev(node['inner'][0])
            fld = self.ctor_single_member(loc.ty[1])
            if fld is None:
                raise Untr('constructor of %s' % loc.ty[1])
            if loc.fields is None:
                loc.fields = {}
            if fld not in loc.fields:
                raise Untr('member %s of %s' % (fld, loc.name))
            self.assign(loc.fields[fld], v)
            return v
        v = self.ev(rnode)
        if isinstance(v, RecV):
            for k, f in (v.loc.fields or {}).items():
                if k in (loc.fields or {}) and f.val is not None and loc.fields[k].ty[0] in ('int', 'double'):
                    self.assign(loc.fields[k], f.val)
            return v
        raise Untr('record assignment')

    def fresh_rec(self, ty, name):
        loc = Loc(ty, name)
        loc.fields = {}
        rec = self.w.records[ty[1]]
        for fd in rec.get('inner', []):
            if fd.get('kind') == 'FieldDecl' and fd.get('name'):
                try:
                    fty = self.w.resolve(fd['type'].get('desugaredQualType') or fd['type']['qualType'])
                except Untr:
                    continue
                loc.fields[fd['name']] = Loc(fty, name + '.' + fd['name'])
        return loc

    def copy_rec(self, l):
        n = Loc(l.ty, l.name + "'")
        n.fields = {}
        for k, f in (l.fields or {}).items():
            g = Loc(f.ty, f.name)
            g.val = self.read_loc(f) if (f.val is not None or f.inarg is not None) else None
            if f.fields is not None:
                g = self.copy_rec(f)
            n.fields[k] = g
        return n

    def ctor_single_member(self, recname):
        rec = self.w.records.get(recname)
        if not rec:
            return None
        for m in rec.get('inner', []):
            if m.get('kind') == 'CXXConstructorDecl':
                ps = [p for p in m.get('inner', []) if p.get('kind') == 'ParmVarDecl']
                inits = [p for p in m.get('inner', []) if p.get('kind') == 'CXXCtorInitializer']
                if len(ps) == 1 and len(inits) == 1 and inits[0].get('anyInit', {}).get('name'):
                    return inits[0]['anyInit']['name']
        return None

    # ---- message member calls
    def ev_member_call(self, n):
        callee = n['inner'][0]
        args = n['inner'][1:]
        if callee.get('kind') != 'MemberExpr':
            raise Untr('member call shape')
        objn = callee['inner'][0]
        name = callee['name']
        objloc = None
        if objn.get('kind') != 'CXXThisExpr':
            objloc = self.lvalue(objn)
        if objloc is not None and objloc.ty == ('msg',):
            return self.msg_call(name, args, n)
        # tiny inline method of a record (tN2kDD478::SetEvents ...)
        mid = callee.get('referencedMemberDecl')
        m = self.w.funcs.get(mid)
        if m is None or objloc is None:
            raise Untr('call of method %s' % name)
        return self.inline(m, args, this=objloc)

    def const_arg(self, a, what):
        v = self.ev(a)
        if isinstance(v, IntV) and is_const(v.e):
            return v.e[1]
        raise Untr('%s is not a constant' % what)

    def prec_arg(self, a):
        v = self.ev(a)
        if isinstance(v, DblV) and v.d[0] == 'DConst':
            return v.d[1]
        if isinstance(v, tuple) and v[0] == 'ld':
            return double_bits_of_fraction(v[1])
        raise Untr('precision is not a literal')

    def msg_call(self, name, args, n):
        c = self.c
        ADDI = {'AddByte': 1, 'Add2ByteInt': 2, 'Add2ByteUInt': 2, 'Add3ByteInt': 3, 'Add4ByteUInt': 4, 'AddUInt64': 8}
        GETI = {'GetByte': (1, False, 255), 'Get2ByteInt': (2, True, 0x7fff), 'Get2ByteUInt': (2, False, 0xffff), 'Get3ByteUInt': (3, False, 0xffffffff),
                'Get4ByteUInt': (4, False, 0xffffffff), 'GetUInt64': (8, False, (1 << 64) - 1)}
        md = re.fullmatch(r'(Add|Get)([12348])Byte(U?)Double', name)
        if name == 'SetPGN':
            if c.kind != 'S':
                raise Untr('SetPGN in a parser')
            c.pgn = self.const_arg(args[0], 'PGN')
            if c.stmts:
                raise Untr('SetPGN after writes')
            return None
        if name in ADDI:
            self.need('S')
            v = self.ev(args[0])
            if not isinstance(v, IntV):
                raise Untr('%s of a non-integer' % name)
            c.emit(('WInt', ADDI[name], v.e))
            return None
        if md and md.group(1) == 'Add':
            self.need('S')
            nb, s = int(md.group(2)), md.group(3) == ''
            v = self.ev(args[0])
            p = self.prec_arg(args[1])
            if not isinstance(v, DblV):
                raise Untr('%s of a non-double' % name)
            if nb == 8 and not s:
                raise Untr('Add8ByteUDouble')
            if len(args) > 2 and args[2].get('kind') != 'CXXDefaultArgExpr':
                # explicit UndefVal u:  v != u ? SetBuf..(v, precision) : <the "not available" code>
                u = self.as_dbl(self.ev(args[2]))
                if nb == 8:
                    raise Untr('explicit UndefVal of an 8 byte field')
                nac = ((1 << (8 * nb - 1)) if s else (1 << (8 * nb))) - 1
                c.emit(('If', ('DEq', v.d, u), [('WInt', nb, ('Const', nac))], [('WDoubleRaw', nb, s, p, v.d)]))
                return None
            c.emit(('WDouble', nb, s, p, v.d))
            return None
        if name == 'AddStr':
            self.need('S')
            t = self.ev(args[0])
            ln = self.const_arg(args[1], 'length')
            for a in args[2:]:
                if a.get('kind') != 'CXXDefaultArgExpr':
                    raise Untr('AddStr with explicit UsePgm/fillChar')
            if not isinstance(t, TextV):
                raise Untr('AddStr argument')
            c.emit(('WStr', ln, t.a))
            return None
        if name == 'AddAISStr':
            self.need('S')
            t = self.ev(args[0])
            ln = self.const_arg(args[1], 'length')
            if not isinstance(t, TextV):
                raise Untr('AddAISStr argument')
            c.emit(('WAISStr', ln, t.a))
            return None
        if name == 'AddVarStr':
            self.need('S')
            t = self.ev(args[0])
            if not isinstance(t, TextV):
                raise Untr('AddVarStr argument')
            mx = 5000
            if len(args) >= 2 and self.w.typeof(args[1])[0] == 'int' and not self.w.typeof(args[1])[1].b:
                mx = self.const_arg(args[1], 'maxLen')
            # remaining arguments (unicode support, length unit, UsePgm) only matter for non-ASCII text / AVR
            for a in args[2:]:
                if a.get('kind') != 'CXXDefaultArgExpr':
                    self.ev(a)
            c.emit(('WVarStr', mx, t.a))
            return None
        if name in GETI:
            nb, s, dflt = GETI[name]
            self.check_index(args[0])
            if len(args) > 1 and args[1].get('kind') != 'CXXDefaultArgExpr':
                dflt = self.const_arg(args[1], 'default')
            k = c.new_slot()
            c.emit(('Read', k, ('RInt', nb, s, wrap(dflt, 8 * nb, s))))
            ct = CT(8 * nb, s)
            return IntV(('Slot', k, ct), ct)
        if md and md.group(1) == 'Get':
            nb, s = int(md.group(2)), md.group(3) == ''
            p = self.prec_arg(args[0])
            self.check_index(args[1])
            dflt = dbits(-1e9)
            if len(args) > 2 and args[2].get('kind') != 'CXXDefaultArgExpr':
                dv = self.ev(args[2])
                if isinstance(dv, DblV) and dv.d[0] == 'DConst':
                    dflt = dv.d[1]
                else:
                    raise Untr('default of a scaled read')
            k = c.new_slot()
            c.emit(('Read', k, ('RDouble', nb, s, p, dflt)))
            return DblV(('DSlot', k))
        if name == 'GetStr' and len(args) == 5:
            sz = self.ev(args[0])
            buf = self.ev(args[1])
            ln = self.const_arg(args[2], 'length')
            nul = self.const_arg(args[3], 'nulChar') & 0xff
            self.check_index(args[4])
            if not isinstance(buf, BufV) or not isinstance(sz, IntV):
                raise Untr('GetStr arguments')
            sze = mk_cast(CT(64, False), sz.e)
            self.set_bufsize(buf.loc, sze)
            k = c.new_slot(2)
            c.emit(('Read', k, ('RStr', sze, ln, nul)))
            c.emit(('OutT', buf.loc.out, k))
            return IntV(('Slot', k + 1, CT(1, False, True)), CT(1, False, True))
        if name == 'GetVarStr':
            szloc = self.lvalue(args[0])
            sz = self.read_loc(szloc)
            buf = self.ev(args[1])
            if len(args) == 4:
                nul = self.const_arg(args[2], 'nulChar') & 0xff
                self.check_index(args[3])
            else:
                nul = 0xff
                self.check_index(args[2])
            if not isinstance(buf, BufV) or not isinstance(sz, IntV):
                raise Untr('GetVarStr arguments')
            sze = mk_cast(CT(64, False), sz.e)
            self.set_bufsize(buf.loc, sze)
            k = c.new_slot(3)
            c.emit(('Read', k, ('RVarStr', sze, nul)))
            c.emit(('OutT', buf.loc.out, k))
            self.assign(szloc, IntV(('Slot', k + 2, CT(64, False)), CT(64, False)))
            return IntV(('Slot', k + 1, CT(1, False, True)), CT(1, False, True))
        raise Untr('call of tN2kMsg::%s' % name)

    def set_bufsize(self, loc, sze):
        if loc.out is None:
            raise Untr('text read into a non-output buffer')
        o = self.c.sig.outs[loc.out]
        if o.get('size') is None:
            o['size'] = sze
        elif o['size'] != sze:
            raise Untr('output buffer used with two sizes')

    def need(self, kind):
        if self.c.kind != kind:
            raise Untr('message write in a parser' if kind == 'S' else 'message read in a setter')

    def check_index(self, a):
        loc = self.lvalue(a)
        if not self.is_index(loc):
            raise Untr('index argument is not the index variable')
        if self.c.kind != 'P':
            raise Untr('message read in a setter')

    # ---- calls of free functions (aliases) and inline methods
    def ev_call(self, n):
        callee = n['inner'][0]
        args = n['inner'][1:]
        ref = callee
        while ref.get('kind') in ('ImplicitCastExpr', 'ParenExpr'):
            ref = ref['inner'][0]
        if ref.get('kind') != 'DeclRefExpr':
            raise Untr('indirect call')
        rd = ref['referencedDecl']
        f = self.w.funcs.get(rd['id'])
        if f is None:
            # the declaration that was referenced may be a redeclaration: look for a definition with the same mangled name / signature
            d = self.w.fdecl.get(rd['id'])
            if d is not None:
                for g in self.w.funcs.values():
                    if g.get('mangledName') and g.get('mangledName') == d.get('mangledName'):
                        f = g
                        break
        if f is None:
            for g in self.w.funcs.values():
                if g.get('kind') == 'FunctionDecl' and g.get('name') == rd.get('name') and g['type']['qualType'] == rd.get('type', {}).get('qualType'):
                    f = g
                    break
        if f is None:
            raise Untr('call of %s' % rd.get('name'))
        return self.inline(f, args)

    def inline(self, f, args, this=None):
        c = self.c
        c.inlined.append(f.get('name'))
        if c.depth > 6:
            raise Untr('inlining depth')
        params = [p for p in f.get('inner', []) if p.get('kind') == 'ParmVarDecl']
        if len(params) != len(args):
            raise Untr('argument count of %s' % f.get('name'))
        saved_env, saved_this = c.env, getattr(c, 'this', None)
        newenv = dict(c.env)
        for p, a in zip(params, args):
            qt = p['type']['qualType']
            pty = self.w.resolve(p['type'].get('desugaredQualType') or qt)
            if qt.strip().endswith('&') and pty != ('msg',) and not re.search(r'\bconst\b', qt):
                newenv[p['id']] = self.lvalue(a)
            elif pty == ('msg',):
                newenv[p['id']] = self.lvalue(a)
            elif qt.strip().endswith('&') and pty[0] == 'rec':
                newenv[p['id']] = self.lvalue(a)
            else:
                if a.get('kind') == 'CXXDefaultArgExpr':
                    a = self.default_arg(p)
                v = self.ev(a)
                if isinstance(v, RecV):
                    newenv[p['id']] = v.loc
                    continue
                l = Loc(pty, p.get('name', '?'))
                if pty[0] == 'int':
                    if not isinstance(v, IntV):
                        raise Untr('argument of %s' % f.get('name'))
                    v = IntV(mk_cast(pty[1], v.e), pty[1])
                l.val = v
                newenv[p['id']] = l
        c.env = newenv
        c.this = this
        c.depth += 1
        body = [x for x in f['inner'] if x.get('kind') == 'CompoundStmt'][0]
        saved_ret, saved_rv = c.returned, c.retval
        c.returned, c.retval = False, None
        self.block(body['inner'] if 'inner' in body else [], tail=True, inlined=True)
        rv = c.retval
        c.returned, c.retval = saved_ret, saved_rv
        c.depth -= 1
        c.env, c.this = saved_env, saved_this
        rty = f['type']['qualType'].split('(')[0].strip()
        if rty == 'void':
            return None
        if rv is None:
            raise Untr('no return value from %s' % f.get('name'))
        return rv

    def default_arg(self, p):
        for x in p.get('inner', []):
            if x.get('kind') not in ('FullComment',):
                return x
        raise Untr('default argument')

    # ---- statements
    def block(self, stmts, tail=False, inlined=False):
        c = self.c
        for i, s in enumerate(stmts):
            if c.returned:
                if s.get('kind') in ('NullStmt',):
                    continue
                raise Untr('code after return')
            self.stmt(s, tail and i == len(stmts) - 1, inlined)

    def stmt(self, s, last, inlined):
        c = self.c
        k = s['kind']
        if k == 'CompoundStmt':
            self.block(s.get('inner', []), last, inlined)
        elif k == 'NullStmt':
            pass
        elif k == 'DeclStmt':
            for d in s['inner']:
                if d.get('kind') != 'VarDecl':
                    raise Untr('declaration %s' % d.get('kind'))
                ty = self.w.resolve(d['type'].get('desugaredQualType') or d['type']['qualType'])
                loc = Loc(ty, d['name'])
                c.env[d['id']] = loc
                init = [x for x in d.get('inner', []) if x.get('kind') not in ('FullComment',)]
                if ty[0] == 'int' and d['name'] in ('Index',) and ty[1].w == 32 and c.kind == 'P':
                    loc.is_index = True
                    if init:
                        v = self.ev(init[0])
                        c.emit(('SetIdx', v.e))
                    continue
                if ty[0] == 'rec':
                    loc = self.fresh_rec(ty, d['name'])
                    c.env[d['id']] = loc
                    if init:
                        node = init[0]
                        if node.get('kind') == 'CXXConstructExpr' and all(x.get('kind') == 'CXXDefaultArgExpr' for x in node.get('inner', [])):
                            fld = self.ctor_single_member(ty[1])
                            dflt = self.ctor_default(ty[1])
                            if fld is not None and dflt is not None:
                                loc.fields[fld].val = IntV(('Const', dflt), loc.fields[fld].ty[1])
                        else:
                            raise Untr('record initialiser')
                    continue
                if init:
                    v = self.ev(init[0])
                    if ty[0] in ('int', 'double'):
                        self.assign(loc, v)
                    else:
                        loc.val = v
        elif k == 'IfStmt':
            self.if_stmt(s, last, inlined)
        elif k == 'ReturnStmt':
            v = None
            if s.get('inner'):
                v = self.ev(s['inner'][0])
            if not last:
                raise Untr('return in the middle of a block')
            c.returned = True
            c.retval = v
        elif k == 'ForStmt':
            self.for_list(s)
        elif k in ('WhileStmt', 'DoStmt', 'SwitchStmt'):
            raise Untr('loop / switch (%s)' % k)
        else:
            before = c.nslot
            self.ev(s)

    def for_list(self, s):
        """the one repeated-record shape of the setters:  for (int i=0; (X=*(&L[i]))!=0; i++) N2kMsg.AddNByte..(X);"""
        def strip(x):
            while x.get('kind') in ('ImplicitCastExpr', 'ParenExpr', 'CStyleCastExpr'):
                x = x['inner'][-1]
            return x
        try:
            init, _, cond, inc, body = s['inner']
            ivar = init['inner'][0]
            assert init['kind'] == 'DeclStmt' and const_of_node(ivar['inner'][0]) == 0
            assert cond['kind'] == 'BinaryOperator' and cond['opcode'] == '!=' and const_of_node(cond['inner'][1]) == 0
            asg = strip(cond['inner'][0])
            assert asg['kind'] == 'BinaryOperator' and asg['opcode'] == '='
            xref = strip(asg['inner'][0])
            rhs = strip(asg['inner'][1])
            assert rhs['kind'] == 'UnaryOperator' and rhs['opcode'] == '*'
            adr = strip(rhs['inner'][0])
            assert adr['kind'] == 'UnaryOperator' and adr['opcode'] == '&'
            sub = strip(adr['inner'][0])
            assert sub['kind'] == 'ArraySubscriptExpr'
            lref, iref = strip(sub['inner'][0]), strip(sub['inner'][1])
            assert iref['referencedDecl']['id'] == ivar['id']
            assert inc['kind'] == 'UnaryOperator' and inc['opcode'] == '++' and strip(inc['inner'][0])['referencedDecl']['id'] == ivar['id']
            lst = self.read_loc(self.c.env[lref['referencedDecl']['id']])
            assert isinstance(lst, ListV)
            while body.get('kind') == 'CompoundStmt' and len(body.get('inner', [])) == 1:
                body = body['inner'][0]
            assert body['kind'] == 'CXXMemberCallExpr'
            callee = body['inner'][0]
            assert self.lvalue(callee['inner'][0]).ty == ('msg',)
            nb = {'AddByte': 1, 'Add2ByteInt': 2, 'Add2ByteUInt': 2, 'Add3ByteInt': 3, 'Add4ByteUInt': 4}[callee['name']]
            arg = strip(body['inner'][1])
            assert arg['referencedDecl']['id'] == xref['referencedDecl']['id']
        except (AssertionError, KeyError, IndexError, ValueError, TypeError):
            raise Untr('loop (not the zero-terminated list shape)')
        self.need('S')
        self.c.emit(('WList', nb, lst.a))

    def ctor_default(self, recname):
        rec = self.w.records.get(recname)
        for m in rec.get('inner', []):
            if m.get('kind') == 'CXXConstructorDecl':
                ps = [p for p in m.get('inner', []) if p.get('kind') == 'ParmVarDecl']
                if len(ps) == 1:
                    for x in ps[0].get('inner', []):
                        v = const_of_node(x)
                        if v is not None:
                            return v
        return None

    def is_guard(self, s):
        """if (N2kMsg.PGN != C) return false;"""
        cond = s['inner'][0]
        if cond.get('kind') != 'BinaryOperator' or cond.get('opcode') != '!=':
            return None
        l, r = cond['inner']

        def strip(x):
            while x.get('kind') in ('ImplicitCastExpr', 'ParenExpr'):
                x = x['inner'][0]
            return x
        l = strip(l)
        if l.get('kind') != 'MemberExpr' or l.get('name') != 'PGN':
            return None
        then = s['inner'][1]
        while then.get('kind') == 'CompoundStmt' and len(then.get('inner', [])) == 1:
            then = then['inner'][0]
        if then.get('kind') != 'ReturnStmt' or len(s['inner']) > 2:
            return None
        rv = const_of_node(r)
        if rv is None:
            v = self.ev(r)
            if isinstance(v, IntV) and is_const(v.e):
                rv = v.e[1]
        tv = then['inner'][0]
        if tv.get('kind') != 'CXXBoolLiteralExpr' or tv.get('value') not in (False, 'false', 'False'):
            return None
        return rv

    def if_stmt(self, s, last, inlined):
        c = self.c
        g = self.is_guard(s) if c.kind == 'P' else None
        if g is not None and not c.stmts and c.guard is None:
            c.guard = g
            return
        # a PGN test that is not the first effect (outputs are preset before it) is an ordinary early return
        # early return:  if (cond) return <const>;
        then = s['inner'][1]
        els = s['inner'][2] if len(s['inner']) > 2 else None
        t1 = then
        while t1.get('kind') == 'CompoundStmt' and len(t1.get('inner', [])) == 1:
            t1 = t1['inner'][0]
        if t1.get('kind') == 'ReturnStmt' and els is None:
            cond = self.as_bool(self.ev(s['inner'][0]))
            if c.depth > 0 and not inlined:
                raise Untr('early return')
            rv = self.ev(t1['inner'][0]) if t1.get('inner') else None
            if c.kind == 'P' and isinstance(rv, IntV):
                if c.depth > 0 and not self.tail_ok:
                    raise Untr('early return in a non-tail inlined call')
                c.emit(('If', cond, [('Ret', mk_bool(rv.e))], []))
                return
            raise Untr('early return in a setter')
        cond = self.as_bool(self.ev(s['inner'][0]))
        if is_const(cond):
            if cond[1]:
                self.stmt(then, last, inlined)
            elif els is not None:
                self.stmt(els, last, inlined)
            return
        # general two-armed if: run both arms on copies of the variable state and merge
        snap = self.snapshot()
        saved = c.stmts
        c.stmts = []
        r0 = c.returned
        self.stmt(then, False, inlined)
        tst, tsnap = c.stmts, self.snapshot()
        self.restore(snap)
        c.stmts = []
        if els is not None:
            self.stmt(els, False, inlined)
        est, esnap = c.stmts, self.snapshot()
        c.stmts = saved
        if c.returned != r0:
            raise Untr('return inside a conditional')
        self.merge(cond, tsnap, esnap)
        if tst or est:
            c.emit(('If', cond, tst, est))

    def all_locs(self):
        seen, out = set(), []

        def rec(l):
            if id(l) in seen:
                return
            seen.add(id(l))
            out.append(l)
            if l.fields:
                for f in l.fields.values():
                    rec(f)
        for l in self.c.env.values():
            rec(l)
        return out

    def snapshot(self):
        return [(l, l.val, l.inarg) for l in self.all_locs()]

    def restore(self, snap):
        for l, v, ia in snap:
            l.val, l.inarg = v, ia

    def merge(self, cond, tsnap, esnap):
        em = {id(l): (l, v) for l, v, _ in esnap}
        for l, tv, _ in tsnap:
            if id(l) not in em:
                continue
            ev = em[id(l)][1]
            if tv is ev:
                l.val = tv
                continue
            if isinstance(tv, IntV) and isinstance(ev, IntV) and l.ty[0] == 'int':
                l.val = IntV(mk_cond(cond, tv.e, ev.e), l.ty[1])
            elif isinstance(tv, DblV) and isinstance(ev, DblV) and tv.d == ev.d:
                l.val = tv
            else:
                l.val = None      # unknown after the conditional; a later read makes the function untranslatable

    tail_ok = True

    # ---- run
    def run(self):
        c = self.c
        c.cur_file = None
        self.setup()
        body = [x for x in self.f['inner'] if x.get('kind') == 'CompoundStmt'][0]
        self.block(body.get('inner', []), tail=True)
        if c.kind == 'S':
            if c.pgn is None:
                raise Untr('no SetPGN')
            if c.prio is None:
                c.prio = -1       # priority left as it was in the message
        else:
            rv = c.retval
            if rv is None or not isinstance(rv, IntV):
                raise Untr('parser without a boolean result')
            c.emit(('Ret', mk_bool(rv.e)))
        return c




# ------------------------------------------------------------------------------------------------ Coq printing
def zs(v):
    return str(v) if v >= 0 else '(%d)' % v


def bs(b):
    return 'true' if b else 'false'


def coq_d(d):
    if d[0] in ('DAdd', 'DSub'):
        return '(%s %s %s)' % (d[0], coq_d(d[1]), coq_d(d[2]))
    return '(%s %s)' % (d[0], d[1] if d[0] != 'DConst' else zs(d[1]))


def coq_e(e):
    k = e[0]
    if k == 'Const':
        return '(EConst %s)' % zs(e[1])
    if k == 'Arg':
        return '(EArg %d)' % e[1]
    if k == 'Slot':
        return '(ESlot %d)' % e[1]
    if k == 'Pgn':
        return 'EPgn'
    if k == 'DataLen':
        return 'EDataLen'
    if k in ('And', 'Or', 'Xor', 'Add', 'Sub', 'Mul', 'Div', 'Eq', 'Ne', 'Lt', 'Le'):
        return '(E%s %s %s)' % (k, coq_e(e[1]), coq_e(e[2]))
    if k in ('Shl', 'Shr'):
        return '(E%s %s %d)' % (k, coq_e(e[1]), e[2])
    if k in ('Not', 'Bool', 'LNot'):
        return '(E%s %s)' % (k, coq_e(e[1]))
    if k == 'Cast':
        return '(ECast %d %s %s)' % (e[1], bs(e[2]), coq_e(e[3]))
    if k == 'Cond':
        return '(ECond %s %s %s)' % (coq_e(e[1]), coq_e(e[2]), coq_e(e[3]))
    if k == 'D2I':
        return '(ED2I %d %s %s)' % (e[1], bs(e[2]), coq_d(e[3]))
    if k in ('DLt', 'DLe', 'DEq'):
        return '(E%s %s %s)' % (k, coq_d(e[1]), coq_d(e[2]))
    raise Untr('no Coq form for %s' % k)


def coq_seq(items, ctor_skip, ctor_seq, f):
    if not items:
        return ctor_skip
    parts = [f(x) for x in items]
    s = parts[-1]
    for p in reversed(parts[:-1]):
        s = '(%s %s\n    %s)' % (ctor_seq, p, s)
    return s


def coq_w(s):
    k = s[0]
    if k == 'WInt':
        return '(WInt %d %s)' % (s[1], coq_e(s[2]))
    if k in ('WDouble', 'WDoubleRaw'):
        return '(%s %d %s %s %s)' % (k, s[1], bs(s[2]), zs(s[3]), coq_d(s[4]))
    if k in ('WStr', 'WAISStr', 'WVarStr', 'WList'):
        return '(%s %d %d)' % (k, s[1], s[2])
    if k == 'If':
        return '(WIf %s %s %s)' % (coq_e(s[1]), coq_ws(s[2]), coq_ws(s[3]))
    raise Untr('statement %s in a setter' % k)


def coq_ws(items):
    return coq_seq(items, 'WSkip', 'WSeq', coq_w)


def coq_rd(r):
    k = r[0]
    if k == 'RInt':
        return '(RInt %d %s %s)' % (r[1], bs(r[2]), zs(r[3]))
    if k == 'RDouble':
        return '(RDouble %d %s %s %s)' % (r[1], bs(r[2]), zs(r[3]), zs(r[4]))
    if k == 'RStr':
        return '(RStr %s %d %d)' % (coq_e(r[1]), r[2], r[3])
    if k == 'RVarStr':
        return '(RVarStr %s %d)' % (coq_e(r[1]), r[2])
    raise Untr('read %s' % k)


def coq_p(s):
    k = s[0]
    if k == 'Read':
        return '(PRead %d %s)' % (s[1], coq_rd(s[2]))
    if k == 'SetIdx':
        return '(PSetIdx %s)' % coq_e(s[1])
    if k == 'AddIdx':
        return '(PAddIdx %s)' % coq_e(s[1])
    if k == 'OutI':
        return '(POutI %d %s)' % (s[1], coq_e(s[2]))
    if k == 'OutD':
        return '(POutD %d %s)' % (s[1], coq_d(s[2]))
    if k == 'OutT':
        return '(POutT %d %d)' % (s[1], s[2])
    if k == 'If':
        return '(PIf %s %s %s)' % (coq_e(s[1]), coq_ps(s[2]), coq_ps(s[3]))
    if k == 'Ret':
        return '(PRet %s)' % coq_e(s[1])
    raise Untr('statement %s in a parser' % k)


def coq_ps(items):
    return coq_seq(items, 'PSkip', 'PSeq', coq_p)


# ------------------------------------------------------------------------------------------------ function table
class Fn:
    pass


def func_kind(name):
    if name.startswith('Set'):
        return 'S'
    if name.startswith('Parse'):
        return 'P'
    return 'A'


def collect(world):
    """target functions: definitions named Set*/Parse*/Append* with a tN2kMsg first parameter; deduplicated by location"""
    seen, fl = set(), []
    for f in world.funcs.values():
        if f.get('kind') != 'FunctionDecl':
            continue
        name = f.get('name', '')
        if not re.match(r'(Set|Parse|Append)', name):
            continue
        ps = [p for p in f.get('inner', []) if p.get('kind') == 'ParmVarDecl']
        if not ps or 'tN2kMsg' not in ps[0]['type']['qualType']:
            continue
        mn = f.get('mangledName', name)
        if mn in seen:
            continue
        seen.add(mn)
        fl.append(f)
    return fl


def file_of(world, f):
    return f.get('_file', '')


def translate_all(world, order):
    fns = []
    names = {}
    for f in order:
        fn = Fn()
        fn.node = f
        fn.name = f['name']
        names[fn.name] = names.get(fn.name, 0) + 1
        fn.cname = fn.name if names[fn.name] == 1 else '%s_o%d' % (fn.name, names[fn.name])
        fn.kind = func_kind(fn.name)
        fn.mangled = f.get('mangledName', '')
        fn.qual = f['type']['qualType']
        fn.err = None
        fn.ctx = None
        fn.id = len(fns)
        if fn.kind == 'A':
            fn.err = 'Append function (reads and rewrites an existing message): outside the setter/parser IR; hand-written model coq/Model/MsgAppendDefs.v'
            try:
                ex = Exec(world, f, 'S')            # the signature only (all parameters are inputs), for the harness dispatch
                ex.setup()
                fn.sigctx = ex.c
            except Untr:
                pass
        else:
            try:
                ex = Exec(world, f, fn.kind)
                fn.ctx = ex.run()
                if fn.kind == 'S':
                    fn.coq = coq_ws(fn.ctx.stmts)
                    if fn.ctx.dest is not None:
                        coq_e(fn.ctx.dest)
                else:
                    fn.coq = coq_ps(fn.ctx.stmts)
            except Untr as e:
                fn.err = str(e)
                fn.sigctx = getattr(ex, 'c', None)
                fn.ctx = None
            except (KeyError, IndexError, TypeError, AttributeError, ValueError) as e:
                fn.err = 'translator error: %r' % (e,)
                fn.ctx = None
        fns.append(fn)
    return fns


# ------------------------------------------------------------------------------------------------ python evaluation of integer expressions
def pyeval(e, args):
    k = e[0]
    if k == 'Const':
        return e[1]
    if k == 'Arg':
        return args.get(e[1], 0)
    if k in ('Slot', 'Pgn', 'DataLen', 'D2I', 'DLt', 'DLe', 'DEq'):
        return 0
    if k == 'Cast':
        return wrap(pyeval(e[3], args), e[1], e[2])
    if k == 'Shl':
        return pyeval(e[1], args) << e[2]
    if k == 'Shr':
        return pyeval(e[1], args) >> e[2]
    if k in ('Not',):
        return ~pyeval(e[1], args)
    if k == 'Bool':
        return int(pyeval(e[1], args) != 0)
    if k == 'LNot':
        return int(pyeval(e[1], args) == 0)
    if k == 'Cond':
        return pyeval(e[2], args) if pyeval(e[1], args) != 0 else pyeval(e[3], args)
    a, b = pyeval(e[1], args), pyeval(e[2], args)
    if k == 'And':
        return a & b
    if k == 'Or':
        return a | b
    if k == 'Xor':
        return a ^ b
    if k == 'Add':
        return a + b
    if k == 'Sub':
        return a - b
    if k == 'Mul':
        return a * b
    if k == 'Div':
        if b == 0:
            return 0
        q = abs(a) // abs(b)
        return q if (a >= 0) == (b >= 0) else -q
    if k == 'Eq':
        return int(a == b)
    if k == 'Ne':
        return int(a != b)
    if k == 'Lt':
        return int(a < b)
    if k == 'Le':
        return int(a <= b)
    raise Untr('pyeval ' + k)


def setter_fields(fn):
    """per input argument of a setter: which field of the payload carries it (used by the generators and the python oracles)"""
    ins = fn.ctx.sig.ins
    info = [dict() for _ in ins]
    wints = []

    cond_args = {}

    def args_of(e, acc):
        if isinstance(e, (tuple, list)):
            if e and e[0] == 'Arg':
                acc.add(e[1])
            for x in e[1:]:
                args_of(x, acc)
        return acc

    def walk(stmts, conds):
        for st in stmts:
            if st[0] == 'WDouble' and st[4][0] == 'DArg':
                info[st[4][1]].setdefault('fields', []).append({'n': st[1], 's': st[2], 'p': st[3], 'cond': conds})
            elif st[0] in ('WDouble', 'WDoubleRaw') and st[4][0] == 'DSub' and st[4][1][0] == 'DArg' and st[4][2][0] == 'DConst':
                # the field carries (argument - constant): PGN 127513 Peukert exponent
                info[st[4][1][1]].setdefault('fields', []).append({'n': st[1], 's': st[2], 'p': st[3], 'cond': [], 'offset': st[4][2][1]})
            elif st[0] in ('WStr', 'WAISStr', 'WVarStr'):
                info[st[2]].setdefault('fields', []).append({'form': st[0], 'len': st[1], 'cond': conds})
            elif st[0] == 'WList':
                info[st[2]].setdefault('fields', []).append({'form': 'WList', 'n': st[1], 'cond': conds})
            elif st[0] == 'WInt':
                wints.append((st[1], st[2]))
                for a in args_of(st[2], set()):
                    cond_args.setdefault(a, []).append(conds)
            elif st[0] == 'If':
                wints.append((8, st[1]))
                walk(st[2], conds + [[expr_json(st[1]), True]])
                walk(st[3], conds + [[expr_json(st[1]), False]])
    walk(fn.ctx.stmts, [])
    if fn.ctx.dest is not None:
        wints.append((1, fn.ctx.dest))
    iargs = [a for a, x in enumerate(ins) if x['kind'] == 'int']
    for a in iargs:
        ct = ins[a]['ct']
        used = 0
        for base in (0, -1):
            b = {x: (wrap(base, ins[x]['ct'].w, ins[x]['ct'].s) if not ins[x]['ct'].b else (base & 1)) for x in iargs}
            for j in range(1 if ct.b else ct.w):
                c = dict(b)
                c[a] = wrap(b[a] ^ (1 << j), ct.w, ct.s) if not ct.b else (b[a] ^ 1)
                for n, e in wints:
                    m = (1 << (8 * n)) - 1
                    if (pyeval(e, b) & m) != (pyeval(e, c) & m):
                        used |= 1 << j
                        break
        info[a]['bits_used'] = used
        # width of the field the setter gives the argument: the used bits must be the low ones
        info[a]['bits'] = used.bit_length()
        # the argument reaches the payload only under these conditions (it is written inside a conditional): all uses conditional
        cl = cond_args.get(a, [])
        if cl and all(c for c in cl):
            info[a]['cond'] = cl[0]
    return info


def expr_json(e):
    if isinstance(e, tuple):
        return [expr_json(x) for x in e if not isinstance(x, CT)]
    return e


# ------------------------------------------------------------------------------------------------ signatures for harness / meta
def ct_json(ct):
    return {'w': ct.w, 's': ct.s, 'b': ct.b, 'enum': ct.enum}


def size_json(sz):
    if sz is None:
        return None
    e = sz
    while e[0] == 'Cast':
        e = e[3]
    if e[0] == 'Const':
        return {'const': e[1]}
    if e[0] == 'Arg':
        return {'arg': e[1]}
    return {'expr': True}


def fn_meta(world, fn):
    sig = fn.ctx.sig if fn.ctx else (fn.sigctx.sig if getattr(fn, 'sigctx', None) else None)
    d = {'id': fn.id, 'name': fn.cname, 'cxx': fn.name, 'kind': fn.kind, 'translated': fn.err is None, 'why': fn.err, 'qual': fn.qual,
         'harness': False}
    if sig is None:
        return d
    ins, outs = [], []
    for x in sig.ins:
        e = {'kind': x['kind'], 'name': x['name'], 'lv': x['lv'], 'cxx': x['cxx'], 'arr': x.get('arr'), 'inout': bool(x.get('inout'))}
        if x['kind'] == 'int':
            e['ct'] = ct_json(x['ct'])
            if x['ct'].enum:
                e['values'] = [v for _, v in world.enums[x['ct'].enum]['values']]
        ins.append(e)
    for x in sig.outs:
        e = {'kind': x['kind'], 'name': x['name'], 'lv': x['lv'], 'cxx': x['cxx'], 'arr': x.get('arr'), 'size': size_json(x.get('size'))}
        if x['kind'] == 'int':
            e['ct'] = ct_json(x['ct'])
        outs.append(e)
    if fn.ctx and fn.kind == 'S':
        for e, inf in zip(ins, setter_fields(fn)):
            e.update(inf)
    d['ins'], d['outs'] = ins, outs
    d['params'] = [list(p) for p in sig.params]
    if fn.ctx:
        if fn.kind == 'S':
            d['pgn'] = fn.ctx.pgn
            d['prio'] = fn.ctx.prio
        else:
            d['pgn'] = fn.ctx.guard
    d['calls'] = list(fn.ctx.inlined) if fn.ctx else []
    d['guard'] = fn.ctx.guard if (fn.ctx and fn.kind == 'P') else None
    d['may_be_undefined'] = bool(fn.ctx) and 'ED2I' in getattr(fn, 'coq', '')
    if d.get('pgn') is None:
        mm = re.search(r'P[Gg][Nn](\d+)', fn.name)
        if mm:
            d['pgn'] = int(mm.group(1))
    d['harness'] = getattr(sig, 'complete', False) and all(not (o['kind'] == 'text' and (o['size'] is None or 'expr' in o['size'])) for o in outs) and fn.kind in ('S', 'P', 'A')
    return d


def cxx_harness(meta):
    """the dispatch table of harness/h_msgs.cpp: one case per function, typed arguments from the tokens, outputs printed canonically"""
    L = ['// GENERATED by tools/cxx2coq.py - do not edit', 'static bool call_fn(int fid, const std::vector<std::string> &a, tN2kMsg &M, std::string &out) {',
         '  switch (fid) {']
    for d in meta:
        if not d['harness']:
            continue
        L.append('  case %d: { // %s' % (d['id'], d['name']))
        L.append('    if (a.size() != %d) return false;' % len(d['ins']))
        # declarations of the parameter variables
        for kind, var, base in d['params']:
            if kind in ('text', 'textnc'):
                L.append('    const char *%s = 0;' % var)
            elif kind == 'list':
                L.append('    const unsigned long *%s = 0;' % var)
            elif kind == 'buf':
                L.append('    char *%s = 0; size_t %s_sz = 0;' % (var, var))
            else:
                L.append('    %s %s = %s();' % (base, var, base) if not re.search(r'[ *]', base) else '    %s %s = 0;' % (base, var))
        inout = {x['lv'] for x in d['ins'] if x.get('inout')}
        # output sentinels
        for o in d['outs']:
            if o['kind'] == 'int' and o['lv'] not in inout:
                L.append('    %s = (%s)%d;' % (o['lv'], o['cxx'], 1 if (o['ct']['b'] or o['ct']['enum']) else 85))
            elif o['kind'] == 'double':
                L.append('    %s = 12345.0;' % o['lv'])
            elif o['kind'] == 'text' and o.get('arr'):
                L.append('    memset(%s, 0, sizeof(%s)); %s[0] = \'~\';' % (o['lv'], o['lv'], o['lv']))
        # inputs
        for i, x in enumerate(d['ins']):
            if x['kind'] == 'int':
                conv = 'argI' if x['ct']['s'] else 'argU'
                L.append('    %s = (%s)%s(a[%d]);' % (x['lv'], x['cxx'], conv, i))
            elif x['kind'] == 'double':
                L.append('    %s = argD(a[%d]);' % (x['lv'], i))
            elif x['kind'] == 'text' and x.get('arr'):
                L.append('    { const char *t = argT(a[%d]); memset(%s, 0, sizeof(%s)); strncpy(%s, t, sizeof(%s) - 1); }' % (i, x['lv'], x['lv'], x['lv'], x['lv']))
            elif x['kind'] == 'text':
                L.append('    %s = argT(a[%d]);' % (x['lv'], i))
            elif x['kind'] == 'list':
                L.append('    %s = argL(a[%d]);' % (x['lv'], i))
        # output text buffers
        for o in d['outs']:
            if o['kind'] == 'text' and not o.get('arr'):
                sz = o['size']
                szx = str(sz['const']) if 'const' in sz else d['ins'][sz['arg']]['lv']
                # The caller's contract is in the signature: the size parameter of output buffer `X` is the one named after it (`XBufSize`,
                # `XSize`, `XMaxLen` ...).  The buffer is allocated with THAT size, whatever size argument the body hands to GetStr / GetVarStr
                # for it - a body that uses another buffer's size (seed C05-13) then writes outside this buffer, which the sanitizer reports.
                cand = [x['lv'] for x in d['ins'] if x['kind'] == 'int' and re.search(r'size|len', x['name'], re.I)
                        and x['name'].lower().startswith(o['name'].lower()) and x['name'].lower() != o['name'].lower()]
                if len(cand) == 1:
                    szx = cand[0]
                L.append('    %s_sz = (size_t)(%s); %s = newbuf(%s_sz);' % (o['lv'], szx, o['lv'], o['lv']))
        args = ', '.join(['M'] + [('(char *)' + v if k == 'textnc' else v) for k, v, _ in d['params']])
        if d['kind'] == 'S':
            L.append('    %s(%s);' % (d['cxx'], args))
        elif d['kind'] == 'A':
            L.append('    bool r = %s(%s);' % (d['cxx'], args))
            L.append('    outB(out, r);')
        else:
            L.append('    bool r = %s(%s);' % (d['cxx'], args))
            L.append('    outB(out, r);')
            for o in d['outs']:
                if o['kind'] == 'int' and o['ct']['enum'] and not o['ct']['s']:
                    # read the stored representation: a typed load of an enumeration holding a value outside its enumerators' range
                    # (e.g. 15 from a 4 bit field) is what -fsanitize=enum reports, and it would be the harness' load, not the library's
                    L.append('    outU(out, rawU(%s));' % o['lv'])
                elif o['kind'] == 'int':
                    L.append('    out%s(out, (%s)%s);' % ('I' if o['ct']['s'] else 'U', 'long long' if o['ct']['s'] else 'unsigned long long', o['lv']))
                elif o['kind'] == 'double':
                    L.append('    outD(out, %s);' % o['lv'])
                elif o['kind'] == 'text' and o.get('arr'):
                    L.append('    outT(out, %s, sizeof(%s));' % (o['lv'], o['lv']))
                else:
                    L.append('    outT(out, %s, %s_sz);' % (o['lv'], o['lv']))
        L.append('    return true; }')
    L += ['  default: return false;', '  }', '}', '', 'static int fid_of_name(const std::string &n) {']
    for d in meta:
        L.append('  if (n == "%s") return %d;' % (d['name'], d['id']))
    L += ['  return -1;', '}', '']
    return '\n'.join(L)


def load_world():
    world = World()
    for f in SRC_FILES:
        world.add(clang_dump(f, 'N2k'))
    world.add(clang_dump('NMEA2000.cpp', 'SetHeartbeat'))
    world.add(clang_dump('N2kMessages.cpp', 'AppendSatelliteInfo'))
    return world


def translate_world():
    """translate; types that the name filter missed (tSatelliteInfo, tBattTempNoSensor ...) are fetched and the translation is repeated"""
    world = load_world()
    fetched = set()
    for _ in range(4):
        fns = translate_all(world, collect(world))
        new = sorted(t for t in world.unknown_types if t not in fetched)
        if not new:
            break
        for t in new:
            fetched.add(t)
            world.add(clang_dump('N2kMessages.cpp', t))
        world.unknown_types = set()
    return world, fns


def norm_name(n):
    return re.sub(r'[^a-z0-9.]', '', n.lower())


def make_pairs(meta):
    """setter/parser pairs of the same PGN whose parameters correspond by name.  A pair is `full` when every output of the
    parser is fed by an argument of the setter and every argument of the setter comes back as an output."""
    pairs = []
    S = [d for d in meta if d['kind'] == 'S' and d.get('pgn') is not None and 'ins' in d]
    P = [d for d in meta if d['kind'] == 'P' and d.get('pgn') is not None and 'outs' in d]
    for s in S:
        for p in P:
            if p['pgn'] != s['pgn']:
                continue
            sin = {norm_name(x['name']): k for k, x in enumerate(s['ins'])}
            m = []
            for j, o in enumerate(p['outs']):
                a = sin.get(norm_name(o['name']))
                if a is not None and s['ins'][a]['kind'] == o['kind']:
                    m.append((j, a))
            if not m:
                continue
            full = len(m) == len(p['outs']) and {a for _, a in m} == set(range(len(s['ins'])))
            base = bool(re.match(r'SetN2k(Maretron)?PGN\d+', s['cxx'])) and bool(re.match(r'ParseN2k(Maretron)?P[Gg][Nn]\d+', p['cxx']))
            pairs.append({'s': s['id'], 'p': p['id'], 'sname': s['name'], 'pname': p['name'], 'pgn': s['pgn'], 'map': m, 'full': full, 'base': base,
                          'translated': s['translated'] and p['translated']})
    # keep, per function, the pairs that matter: all base x base pairs that are full or best; for an alias its best partner
    def score(q):
        return (q['full'], len(q['map']), q['base'])
    keep = []
    seen = set()
    for q in pairs:
        if q['base'] and (q['full'] or True):
            best_for_s = max((r for r in pairs if r['s'] == q['s'] and r['base']), key=score)
            if q is best_for_s or q['full']:
                keep.append(q)
                seen.add((q['s'], q['p']))
    for d in meta:
        if d['kind'] == 'S':
            mine = [r for r in pairs if r['s'] == d['id']]
        elif d['kind'] == 'P':
            mine = [r for r in pairs if r['p'] == d['id']]
        else:
            continue
        if not mine or any(((r['s'], r['p']) in seen) for r in mine if (r['s'] == d['id'] or r['p'] == d['id']) and ((r['s'], r['p']) in seen)):
            continue
        # prefer a base partner
        best = max(mine, key=lambda r: (r['full'], len(r['map']), bool(re.search(r'PGN\d', r['pname' if d['kind'] == 'S' else 'sname'], re.I))))
        keep.append(best)
        seen.add((best['s'], best['p']))
    keep.sort(key=lambda r: (r['s'], r['p']))
    return keep


def outsig_coq(f, o):
    if o['kind'] == 'int':
        for a, x in enumerate(f.ctx.sig.ins):
            if x.get('inout') and x['lv'] == o['lv']:
                return 'OIO %d' % a
        return 'OI %d' % (1 if (o['ct'].b or o['ct'].enum) else 85)
    if o['kind'] == 'double':
        return 'OD'
    return 'OT %s' % coq_e(o['size'])


def enum_value_bits(world, ct):
    vals = [v for _, v in world.enums[ct.enum]['values']]
    return max(1, max(vals).bit_length())


def argty_coq(world, x):
    if x['kind'] == 'int':
        ct = x['ct']
        if ct.b:
            return 'TInt 1 false'
        if ct.enum and not ct.s:
            return 'TInt %d false' % enum_value_bits(world, ct)
        return 'TInt %d %s' % (ct.w, bs(ct.s))
    if x['kind'] == 'double':
        return 'TDbl'
    return 'TTxt'


def gen_messages_v(fns, meta, world):
    L = ['(* GENERATED by tools/cxx2coq.py from <repo>/src (clang AST) - do not edit.',
         '   One term of the field-level IR (Model/MsgIR.v) per SetN2k*/ParseN2k*/alias function; function ids are positions in source order. *)',
         'From Coq Require Import ZArith List Bool.', 'From N2kV Require Import Model.MsgIR.', 'Import ListNotations.', 'Local Open Scope Z_scope.', '']
    sl, pl, ul = [], [], []
    for fn in fns:
        if fn.err is not None:
            ul.append(fn)
            L.append('(* untranslated %d %s : %s *)' % (fn.id, fn.cname, fn.err.replace('*)', '* )').replace('(*', '( *')))
            continue
        c = fn.ctx
        if fn.kind == 'S':
            dest = 'None' if c.dest is None else '(Some %s)' % coq_e(c.dest)
            L.append('Definition s_%s : setter := {| s_pgn := %d; s_prio := %s; s_dest := %s; s_args := [%s]; s_body :=\n    %s |}.' % (fn.cname, c.pgn, zs(c.prio), dest, '; '.join(argty_coq(world, x) for x in c.sig.ins), fn.coq))
            sl.append(fn)
        else:
            g = 'None' if c.guard is None else '(Some %d)' % c.guard
            L.append('Definition p_%s : parser := {| p_guard := %s; p_body :=\n    %s |}.' % (fn.cname, g, fn.coq))
            pl.append(fn)
        L.append('')
    L.append('Definition all_setters : list (nat * setter) := [%s].' % ';\n  '.join('(%d%%nat, s_%s)' % (f.id, f.cname) for f in sl))
    L.append('Definition all_parsers : list (nat * parser) := [%s].' % ';\n  '.join('(%d%%nat, p_%s)' % (f.id, f.cname) for f in pl))
    L.append('Definition all_outsigs : list (nat * list outsig) := [%s].' % ';\n  '.join('(%d%%nat, [%s])' % (f.id, '; '.join(outsig_coq(f, o) for o in f.ctx.sig.outs)) for f in pl))
    L.append('(* function names as ASCII codes, for the line protocol of the drivers *)')
    L.append('Definition fn_names : list (nat * list Z) := [%s].' % ';\n  '.join('(%d%%nat, [%s])' % (f.id, '; '.join(str(ord(ch)) for ch in f.cname)) for f in fns))
    L.append('Definition untranslated_ids : list nat := [%s].' % '; '.join('%d%%nat' % f.id for f in ul))
    L.append('Definition n_functions : nat := %d%%nat.' % len(fns))
    return '\n'.join(L) + '\n'


def main():
    os.makedirs(GEN, exist_ok=True)
    h = source_hash()
    stamp = os.path.join(GEN, 'stamp-' + h)
    outs = {'GenMessages.v': os.path.join(OUT, 'GenMessages.v'), 'GenObligations.v': os.path.join(OUT, 'GenObligations.v'),
            'GenEnums.v': os.path.join(OUT, 'GenEnums.v'),
            'gen_msgs_dispatch.inc': os.path.join(GEN, 'gen_msgs_dispatch.inc'), 'msgs_meta.json': os.path.join(GEN, 'msgs_meta.json')}
    cache = os.path.join(GEN, 'cache-' + h)
    if os.path.isdir(cache) and all(os.path.exists(os.path.join(cache, k)) for k in outs):
        for k, dst in outs.items():
            write_if_changed(dst, open(os.path.join(cache, k)).read())
        return json.load(open(outs['msgs_meta.json']))
    world, fns = translate_world()
    meta = [fn_meta(world, fn) for fn in fns]
    for _ in range(3):
        for d in meta:
            if d.get('pgn') is None:
                for callee in d.get('calls', []):
                    got = [e.get('pgn') for e in meta if e['cxx'] == callee and e.get('pgn') is not None]
                    if got:
                        d['pgn'] = got[0]
                        break
    pairs = make_pairs(meta)
    files = {'GenMessages.v': gen_messages_v(fns, meta, world), 'gen_msgs_dispatch.inc': cxx_harness(meta)}
    allmeta = {'functions': meta, 'pairs': pairs, 'source_hash': h, 'repo': REPO,
               'enums': {k: v['values'] for k, v in sorted(world.enums.items())}}
    files['GenObligations.v'] = gen_obligations_v(fns, meta, pairs, allmeta, world)
    files['msgs_meta.json'] = json.dumps(allmeta, indent=0, sort_keys=True)
    files['GenEnums.v'] = gen_enums_v(allmeta['enums'])
    import shutil
    for old in [d for d in os.listdir(GEN) if d.startswith('cache-')]:
        shutil.rmtree(os.path.join(GEN, old), ignore_errors=True)
    os.makedirs(cache, exist_ok=True)
    for k, txt in files.items():
        open(os.path.join(cache, k), 'w').write(txt)
        write_if_changed(outs[k], txt)
    return allmeta


# findings reported to the lead that are not yet in known_findings.json (key = PGN<n>.<field>.<kind>, as the C05 oracle prints it)
PENDING_KNOWN_C05 = {
    'PGN127489.Status2.Status.int': 'PGN 127489: SetN2kPGN127489 writes all 16 bits of discrete status 2, tN2kDD223::operator=(uint16_t) used by the parser keeps the low 8 (bits Manufacturer1..8 are lost, e.g. 0x0100 parses as 0)',
    'PGN128776.WindlassControlEvents.Events.int': 'PGN 128776: setter writes the whole events byte, tN2kDD478::SetEvents used by the parser keeps bit 0 only (2 parses as 0)',
    'PGN128777.WindlassOperatingEvents.Events.int': 'PGN 128777: setter writes 6 event bits, tN2kDD483::SetEvents used by the parser keeps 5 (32 parses as 0)',
    'PGN128778.WindlassMonitoringEvents.Events.int': 'PGN 128778: setter writes the whole events byte, tN2kDD477::SetEvents used by the parser keeps the low 3 bits (8 parses as 0)',
}


def known_keys_c05():
    keys = set(PENDING_KNOWN_C05)
    try:
        for k in json.load(open(os.path.join(VERIF, 'known_findings.json'))).get('findings', []):
            if k.get('property') == 'C05' and k.get('status') == 'open':
                keys.add(k['key'])
    except (OSError, ValueError):
        pass
    return keys


def setter_shape(stmts):
    """None when the generic round trip theorem covers the setter body, else the reason"""
    for st in stmts:
        if st[0] == 'WInt':
            continue
        if st[0] == 'WDouble' and st[4][0] in ('DArg', 'DConst'):
            continue
        if st[0] in ('WStr', 'WAISStr'):
            continue
        return {'If': 'conditional fields', 'WVarStr': 'variable length string', 'WList': 'repeated records', 'WDoubleRaw': 'computed scaled value',
                'WDouble': 'computed scaled value'}.get(st[0], st[0])
    return None


def parser_shape(stmts):
    for st in stmts:
        k = st[0]
        if k == 'Read':
            if st[2][0] == 'RVarStr':
                return 'variable length string'
            continue
        if k in ('SetIdx', 'AddIdx'):
            if st[1][0] != 'Const':
                return 'computed index'
            continue
        if k in ('OutI', 'OutD', 'OutT'):
            continue
        if k == 'Ret':
            if st[1][0] != 'Const':
                return 'computed result'
            continue
        if k == 'If':
            if st[2] == [('Ret', ('Const', 0))] and st[3] == []:
                continue
            return 'conditional fields'
        return k
    return None


def weak_guard_pgn(stmts):
    for st in stmts:
        if st[0] == 'OutI' and st[2][0] == 'Const':
            continue
        if st[0] == 'OutD' and st[2][0] == 'DConst':
            continue
        if st[0] == 'If' and st[1][0] == 'Ne' and st[1][1] == ('Pgn',) and st[1][2][0] == 'Const' and st[2] == [('Ret', ('Const', 0))] and st[3] == []:
            return st[1][2][1]
        return None
    return None


def gamma_of(world, fn, meta_d):
    """the argument ranges the round trip theorem assumes: the width the setter gives each integer argument (never more than its type)"""
    out = []
    for x, m in zip(fn.ctx.sig.ins, meta_d['ins']):
        if x['kind'] == 'int':
            ct = x['ct']
            if ct.b:
                tw, sg = 1, False
            elif ct.enum and not ct.s:
                tw, sg = enum_value_bits(world, ct), False
            else:
                tw, sg = ct.w, ct.s
            b = m.get('bits')
            w = tw if (sg or b is None or b == 0) else min(tw, b)
            out.append('TInt %d %s' % (w, bs(sg)))
        elif x['kind'] == 'double':
            out.append('TDbl')
        else:
            out.append('TTxt')
    return out


def gen_enums_v(enums):
    """every enumeration of the library headers with the value of each enumerator as clang computed it (names as Coq strings)"""
    L = ['(* GENERATED by tools/cxx2coq.py from the enumerations of <repo>/src (clang AST) - do not edit *)',
         'From Coq Require Import ZArith List String.', 'Import ListNotations.', 'Local Open Scope Z_scope.', 'Local Open Scope string_scope.', '',
         'Definition gen_enums : list (string * list (string * Z)) := [']
    items = []
    for t, vals in sorted(enums.items()):
        if not re.fullmatch(r'[A-Za-z_][A-Za-z_0-9]*', t):
            continue
        items.append('  ("%s", [%s])' % (t, '; '.join('("%s", %s)' % (n, v if v >= 0 else '(%d)' % v) for n, v in vals)))
    L.append(';\n'.join(items))
    L.append('].')
    return '\n'.join(L) + '\n'


def gen_obligations_v(fns, meta, pairs, allmeta, world):
    byid = {f.id: f for f in fns}
    md = {d['id']: d for d in meta}
    known = known_keys_c05()
    L = ['(* GENERATED by tools/cxx2coq.py - per-function obligations of C05 (closed by vm_compute) - do not edit *)',
         'From Coq Require Import ZArith List Bool.', 'From N2kV Require Import Model.MsgIR Model.MsgExec Spec.MsgSpec Spec.RefLayouts Gen.GenMessages.',
         'Import ListNotations.', 'Local Open Scope Z_scope.', '']
    status = {'rt': [], 'guard': [], 'rt_names': [], 'guard_names': []}
    gam_done = set()
    weak = []
    for f in fns:
        if f.kind == 'S' and f.err is None:
            L.append('Definition gamma_%s : list argty := [%s].' % (f.cname, '; '.join(gamma_of(world, f, md[f.id]))))
    L.append('')
    for f in fns:
        if f.kind != 'P':
            continue
        d = md[f.id]
        if f.err is not None:
            status['guard'].append({'fn': f.cname, 'status': 'untranslated'})
            continue
        wk = weak_guard_pgn(f.ctx.stmts) if f.ctx.guard is None else None
        if wk is not None:
            L.append('(* guard_%s : the PGN test comes after outputs have been preset; the function still returns false for every other PGN *)' % f.cname)
            L.append('Example guard_%s : guard_check_weak p_%s %d = true.  Proof. vm_compute. reflexivity. Qed.' % (f.cname, f.cname, wk))
            status['guard'].append({'fn': f.cname, 'status': 'proved-weak'})
            status['guard_names'].append('guard_%s' % f.cname)
            weak.append('(p_%s, %d)' % (f.cname, wk))
        elif f.ctx.guard is None:
            L.append('(* guard_%s : the function does not start with a test of the PGN *)' % f.cname)
            L.append('Example guard_%s : guard_check p_%s %d = true.  Proof. vm_compute. reflexivity. Qed.' % (f.cname, f.cname, d.get('pgn') or 0))
            status['guard'].append({'fn': f.cname, 'status': 'no-guard'})
        else:
            L.append('Example guard_%s : guard_check p_%s %d = true.  Proof. vm_compute. reflexivity. Qed.' % (f.cname, f.cname, f.ctx.guard))
            status['guard'].append({'fn': f.cname, 'status': 'proved'})
            status['guard_names'].append('guard_%s' % f.cname)
    L.append('')
    for q in pairs:
        s, p = byid[q['s']], byid[q['p']]
        nm = 'rt_%s__%s' % (s.cname, p.cname)
        if s.err is not None or p.err is not None:
            status['rt'].append({'pair': nm, 'status': 'untranslated'})
            L.append('(* %s : untranslated function, no obligation can be stated *)' % nm)
            continue
        why = setter_shape(s.ctx.stmts) or parser_shape(p.ctx.stmts)
        if why:
            status['rt'].append({'pair': nm, 'status': 'shape', 'why': why})
            L.append('(* %s : outside the shape covered by roundtrip_sound (%s): correspondence and oracle only *)' % (nm, why))
            continue
        full = [(j, a) for j, a in q['map'] if md[s.id]['ins'][a]['kind'] in ('int', 'double')]
        excl = []
        for j, a in full:
            fname = re.sub(r'^N2kData\.', '', md[s.id]['ins'][a]['name'])
            kind = 'int' if md[s.id]['ins'][a]['kind'] == 'int' else 'scaled'
            if any(k.startswith('PGN%s.%s.' % (q['pgn'], fname)) for k in known):
                excl.append((j, a))
        keep = [x for x in full if x not in excl]
        ms = lambda l: '[%s]' % '; '.join('(%d%%nat, %d%%nat)' % x for x in l)
        L.append('Example %s : rt_check s_%s p_%s gamma_%s %s = true.  Proof. vm_compute. reflexivity. Qed.' % (nm, s.cname, p.cname, s.cname, ms(keep)))
        status['rt_names'].append(nm)
        st = {'pair': nm, 'status': 'proved', 'fields': len(keep)}
        if excl:
            L.append('Example %s_refuted : rt_check s_%s p_%s gamma_%s %s = false.  Proof. vm_compute. reflexivity. Qed.' % (nm, s.cname, p.cname, s.cname, ms(full)))
            st['status'] = 'partial'
            st['excluded_known'] = ['%s' % md[s.id]['ins'][a]['name'] for _, a in excl]
            status['rt_names'].append(nm + '_refuted')
        status['rt'].append(st)
    L.append('')
    L.append('(* the lists that the summary theorems of Props/Properties_C05.v quantify over *)')
    rtl = []
    for q in pairs:
        s, p = byid[q['s']], byid[q['p']]
        nm = 'rt_%s__%s' % (s.cname, p.cname)
        st = [x for x in status['rt'] if x['pair'] == nm][0]
        if st['status'] in ('proved', 'partial'):
            full = [(j, a) for j, a in q['map'] if md[s.id]['ins'][a]['kind'] in ('int', 'double')]
            excl = set()
            for j, a in full:
                fname = re.sub(r'^N2kData\.', '', md[s.id]['ins'][a]['name'])
                if any(k.startswith('PGN%s.%s.' % (q['pgn'], fname)) for k in known):
                    excl.add((j, a))
            keep = [x for x in full if x not in excl]
            rtl.append('(s_%s, p_%s, gamma_%s, [%s])' % (s.cname, p.cname, s.cname, '; '.join('(%d%%nat, %d%%nat)' % x for x in keep)))
    L.append('Definition rt_pairs : list (setter * parser * list argty * list (nat * nat)) := [\n  %s].' % ';\n  '.join(rtl))
    gl = ['(p_%s, %d)' % (f.cname, f.ctx.guard) for f in fns if f.kind == 'P' and f.err is None and f.ctx.guard is not None]
    L.append('Definition guarded_parsers : list (parser * Z) := [\n  %s].' % ';\n  '.join(gl))
    L.append('Example rt_pairs_checked : forallb (fun q => match q with (s, p, g, m) => rt_check s p g m end) rt_pairs = true.  Proof. vm_compute. reflexivity. Qed.')
    L.append('Definition weak_guarded_parsers : list (parser * Z) := [%s].' % '; '.join(weak))
    L.append('Example weak_guarded_parsers_checked : forallb (fun q => guard_check_weak (fst q) (snd q)) weak_guarded_parsers = true.  Proof. vm_compute. reflexivity. Qed.')
    L.append('Example guarded_parsers_checked : forallb (fun q => guard_check (fst q) (snd q)) guarded_parsers = true.  Proof. vm_compute. reflexivity. Qed.')
    # ---- C15: one layout obligation per listed PGN against Spec/RefLayouts.v
    L.append('')
    L.append('(* C15: the setter of every listed PGN against the reference layout of Spec/RefLayouts.v *)')
    lay = []
    lst = []
    names = {f.cname: f for f in fns}
    for pgn in C15_PGNS:
        sn = C15_SETTER.get(pgn, 'SetN2kPGN%d' % pgn)
        f = names.get(sn)
        if f is None or f.err is not None:
            L.append('(* layout_%d : setter %s is not translated *)' % (pgn, sn))
            L.append('Example layout_%d : false = true.  Proof. vm_compute. reflexivity. Qed.' % pgn)
            lay.append({'pgn': pgn, 'setter': sn, 'status': 'untranslated'})
            continue
        L.append('Example layout_%d : layout_matches s_%s ref_%d = true.  Proof. vm_compute. reflexivity. Qed.' % (pgn, sn, pgn))
        lay.append({'pgn': pgn, 'setter': sn, 'status': 'proved'})
        lst.append('(s_%s, ref_%d)' % (sn, pgn))
    L.append('Definition layout_pairs : list (setter * list reffield) := [\n  %s].' % ';\n  '.join(lst))
    L.append('Example layout_pairs_checked : forallb (fun q => layout_matches (fst q) (snd q)) layout_pairs = true.  Proof. vm_compute. reflexivity. Qed.')
    status['layout'] = lay
    allmeta['obligations'] = status
    return '\n'.join(L) + '\n'



def debug_main():
    world, fns = translate_world()
    ok = [f for f in fns if f.err is None]
    print('functions', len(fns), 'translated', len(ok))
    for f in fns:
        if f.err:
            print('UNTRANSLATED', f.cname, '::', f.err)
    if len(sys.argv) > 2:
        for f in fns:
            if f.cname == sys.argv[2] and f.ctx:
                print(f.coq)
                print('guard', f.ctx.guard, 'pgn', f.ctx.pgn, 'prio', f.ctx.prio, 'dest', f.ctx.dest)
                print('ins', [(d['lv'], d['kind']) for d in f.ctx.sig.ins])
                print('outs', [(d['lv'], d['kind'], d.get('size')) for d in f.ctx.sig.outs])


if __name__ == '__main__':
    if len(sys.argv) > 1 and sys.argv[1] == '--debug':
        debug_main()
    else:
        m = main()
        fl = m['functions']
        print('functions %d translated %d pairs %d' % (len(fl), sum(1 for f in fl if f['translated']), len(m['pairs'])))
        for f in fl:
            if not f['translated']:
                print('untranslated:', f['name'], '::', f['why'])
