# Shared machinery for ./check : building (C++ harness from /repo's working tree, Coq, extracted OCaml),
# running case files through model and implementation, diffing, verdict, evidence.
import zlib, os, sys, subprocess, hashlib, json, time, shutil, re, glob, fcntl
from concurrent.futures import ThreadPoolExecutor

VERIF = os.path.dirname(os.path.dirname(os.path.abspath(__file__)))
REPO = os.environ.get('VERIF_REPO', '/repo')
BUILD = os.environ.get('VERIF_BUILD', os.path.join(VERIF, 'build'))
COQ = os.path.join(VERIF, 'coq')
REPLAYS = os.environ.get('VERIF_REPLAYS', os.path.join(VERIF, 'replays'))
EVID = os.environ.get('VERIF_EVID', os.path.join(VERIF, 'evidence'))      # overridden only by tools/seedcheck.py (scratch runs)
NPROC = 16

LIB_SRCS = ['N2kMsg.cpp', 'N2kStream.cpp', 'N2kMessages.cpp', 'N2kTimer.cpp', 'Seasmart.cpp', 'N2kDeviceList.cpp',
            'N2kGroupFunction.cpp', 'N2kGroupFunctionDefaultHandlers.cpp', 'N2kMaretron.cpp', 'N2kCZone.cpp',
            'NMEA2000.cpp', 'ActisenseReader.cpp']
SAN = ['-fsanitize=address,undefined,float-cast-overflow', '-fno-sanitize-recover=all', '-fno-omit-frame-pointer']
CXX = ['g++', '-std=c++11', '-O1', '-g', '-fno-access-control', '-w'] + SAN
if os.environ.get('VERIF_COV'):
    CXX = CXX + ['--coverage']        # development aid (tools/coverage.py): which lines of /repo/src the quick tier reaches; use with a scratch VERIF_BUILD
FLAGSETS = {
    # 64-bit scheduler build (ESP32 / Linux): clock comes from the fake esp_timer.h in harness/fake_esp
    'w64': ['-DESP_PLATFORM', '-I' + os.path.join(VERIF, 'harness', 'fake_esp')],
    # 32-bit scheduler build (microcontrollers): clock comes from the harness' millis()
    'w32': ['-U__linux__', '-U__linux', '-Ulinux'],
}
ASAN_ENV = dict(os.environ, ASAN_OPTIONS='detect_leaks=0:symbolize=0:abort_on_error=0:allocator_may_return_null=1',
                UBSAN_OPTIONS='print_stacktrace=0')


def log(*a):
    print(*a, file=sys.stderr, flush=True)


def sh(cmd, timeout=None, cwd=None, env=None, input=None):
    p = subprocess.run(cmd, cwd=cwd, env=env, input=input, stdout=subprocess.PIPE, stderr=subprocess.STDOUT,
                       timeout=timeout, text=True, errors='replace')
    return p.returncode, p.stdout


class Lock:
    def __init__(self, name):
        os.makedirs(BUILD, exist_ok=True)
        # the Coq tree is shared by every run whatever VERIF_BUILD says: its lock lives in the tree itself
        self.path = os.path.join(COQ, '.coq.lock') if name == 'coq' else os.path.join(BUILD, name + '.lock')

    def __enter__(self):
        self.f = open(self.path, 'w')
        fcntl.flock(self.f, fcntl.LOCK_EX)

    def __exit__(self, *a):
        fcntl.flock(self.f, fcntl.LOCK_UN)
        self.f.close()


# ---------------------------------------------------------------------------------------------
# C++ side
def src_hash():
    h = hashlib.sha256()
    for f in sorted(glob.glob(os.path.join(REPO, 'src', '*'))):
        if os.path.isfile(f):
            h.update(os.path.basename(f).encode())
            h.update(open(f, 'rb').read())
    return h.hexdigest()[:16]


def file_hash(paths):
    h = hashlib.sha256()
    for f in paths:
        h.update(open(f, 'rb').read())
    return h.hexdigest()[:16]


def build_lib(flagset):
    """compile /repo/src (current working tree) with sanitizers into build/objs/<hash>-<flagset>/libn2k.a"""
    hs = src_hash()
    d = os.path.join(BUILD, 'objs', '%s-%s' % (hs, flagset))
    lib = os.path.join(d, 'libn2k.a')
    with Lock('lib-' + flagset):
        if os.path.exists(lib):
            return d, None
        # drop stale object directories of this flagset (disk is limited)
        for old in glob.glob(os.path.join(BUILD, 'objs', '*-%s' % flagset)):
            shutil.rmtree(old, ignore_errors=True)
        os.makedirs(d)
        srcs = [s for s in LIB_SRCS if os.path.exists(os.path.join(REPO, 'src', s))]

        def cc(s):
            o = os.path.join(d, s[:-4] + '.o')
            return sh(CXX + FLAGSETS[flagset] + ['-I' + os.path.join(REPO, 'src'), '-c', os.path.join(REPO, 'src', s), '-o', o],
                      timeout=600)
        with ThreadPoolExecutor(NPROC) as ex:
            res = list(ex.map(cc, srcs))
        errs = [out for rc, out in res if rc != 0]
        if errs:
            shutil.rmtree(d, ignore_errors=True)
            return None, '\n'.join(errs)
        rc, out = sh(['ar', 'rcs', lib] + [os.path.join(d, s[:-4] + '.o') for s in srcs])
        if rc != 0:
            shutil.rmtree(d, ignore_errors=True)
            return None, out
    return d, None


def build_harness(name, flagset='w64', extra=()):
    """harness/<name>.cpp linked against the sanitizer build of /repo/src; returns (exe, err)"""
    d, err = build_lib(flagset)
    if d is None:
        return None, err
    src = os.path.join(VERIF, 'harness', name + '.cpp')
    deps = [src] + glob.glob(os.path.join(VERIF, 'harness', '*.h'))
    exe = os.path.join(d, '%s-%s' % (name, file_hash(deps)))
    with Lock('h-%s-%s' % (name, flagset)):
        if not os.path.exists(exe):
            for old in glob.glob(os.path.join(d, name + '-*')):
                os.remove(old)
            rc, out = sh(CXX + FLAGSETS[flagset] + list(extra) + ['-I' + os.path.join(REPO, 'src'), '-I' + os.path.join(VERIF, 'harness'),
                                                                 src, os.path.join(d, 'libn2k.a'), '-o', exe], timeout=900)
            if rc != 0:
                return None, out
    return exe, None


def run_impl(exe, lines, timeout=600, per_case_restart=True):
    """feed case lines to the harness; one result line per case.  If the process dies (sanitizer abort, signal),
    the case it died on gets the result 'crash <first sanitizer line>' and the harness is restarted after it."""
    results = []
    i = 0
    n = len(lines)
    crashes = 0
    while i < n:
        p = subprocess.run([exe], input='\n'.join(lines[i:]) + '\n', stdout=subprocess.PIPE, stderr=subprocess.PIPE,
                           env=ASAN_ENV, text=True, errors='replace', timeout=timeout)
        out = p.stdout.split('\n')
        if out and out[-1] == '':
            out.pop()
        # only complete result lines count
        got = out[:n - i]
        results.extend(got)
        i += len(got)
        if i < n:
            # died on case i
            why = 'unknown'
            m = re.search(r'(ERROR: AddressSanitizer: [\w-]+|runtime error: [^\n]*|SEGV[^\n]*|DEADLYSIGNAL)', p.stderr)
            if m:
                why = m.group(1)
            elif p.returncode < 0:
                why = 'signal %d' % (-p.returncode)
            elif p.returncode == 0:
                why = 'short-output'
            results.append('crash ' + why)
            i += 1
            crashes += 1
            if crashes > 200:
                results.extend(['crash too-many'] * (n - i))
                break
    return results


# ---------------------------------------------------------------------------------------------
# Coq side
def coq_makefile():
    mk = os.path.join(COQ, 'Makefile')
    cp = os.path.join(COQ, '_CoqProject')
    files = sorted(os.path.relpath(f, COQ) for f in glob.glob(os.path.join(COQ, '*', '*.v')))
    body = '-Q . N2kV\n' + '\n'.join(files) + '\n'
    old = open(cp).read() if os.path.exists(cp) else ''
    if old != body or not os.path.exists(mk):
        open(cp, 'w').write(body)
        rc, out = sh(['coq_makefile', '-f', '_CoqProject', '-o', 'Makefile'], cwd=COQ)
        if rc != 0:
            raise RuntimeError(out)


def coq_make(targets, timeout=1800, remove=()):
    """full .vo build of the given targets (never -vos).  returns (ok, output).  remove: files deleted first, under the same lock hold"""
    with Lock('coq'):
        for f in remove:
            try:
                os.remove(f)
            except OSError:
                pass
        import gen_tables
        gen_tables.main()              # regenerate coq/Gen/*.v from the current /repo/src (write-if-changed)
        import cxx2coq
        cxx2coq.main()                 # per-PGN setter/parser IR + generated obligations (C05/C15)
        coq_makefile()
        rc, out = sh(['timeout', str(timeout), 'make', '-k', '-j%d' % NPROC] + targets, cwd=COQ, timeout=timeout + 60)
    return rc == 0, out


FORBIDDEN = re.compile(r'\b(Admitted|admit|Axiom|Parameter|Conjecture|Admit Obligations|Unset Guard Checking|bypass_check|'
                       r'Unset Positivity Checking|Unset Universe Checking|type-in-type|impredicative-set)\b')
ALLOWED_AXIOMS = {
    # standard-library axioms (named in the trusted base when they occur)
    'Coq.Logic.FunctionalExtensionality.functional_extensionality_dep',
    'Coq.Logic.Classical_Prop.classic',
    'Coq.Reals.ClassicalDedekindReals.sig_not_dec', 'Coq.Reals.ClassicalDedekindReals.sig_forall_dec',
    'Coq.Logic.Eqdep.Eq_rect_eq.eq_rect_eq', 'Coq.Logic.JMeq.JMeq_eq', 'Coq.Logic.ProofIrrelevance.proof_irrelevance',
}


def scan_forbidden():
    bad = []
    for f in glob.glob(os.path.join(COQ, '*', '*.v')):
        txt = open(f).read()
        # strip comments (non-nested approximation is enough: we do not write nested comments with these words)
        txt2 = re.sub(r'\(\*.*?\*\)', '', txt, flags=re.S)
        for m in FORBIDDEN.finditer(txt2):
            # "Parameter" may legally appear inside a Section as "Variable"; we never use the word at all
            bad.append('%s: %s' % (os.path.relpath(f, VERIF), m.group(0)))
        # Variable / Hypothesis / Context outside a Section declares an axiom
        depth = 0
        for sent in re.split(r'\.\s', txt2):
            w = sent.strip().split()
            if not w:
                continue
            if w[0] == 'Section' or (w[0] == 'Module' and ':=' not in sent):
                depth += 1
            elif w[0] == 'End':
                depth = max(0, depth - 1)
            elif depth == 0 and w[0] in ('Variable', 'Variables', 'Hypothesis', 'Hypotheses', 'Context'):
                bad.append('%s: %s outside a Section' % (os.path.relpath(f, VERIF), w[0]))
    return bad


def props_file(pid):
    return os.path.join(COQ, 'Props', 'Properties_%s.v' % pid)


def theorems_in(path):
    txt = open(path).read()
    txt = re.sub(r'\(\*.*?\*\)', '', txt, flags=re.S)
    return re.findall(r'^\s*(?:Theorem|Corollary|Example|Lemma)\s+(\w+)', txt, flags=re.M)


def check_proofs(pid, clean=False):
    """build Props/Properties_<pid>.vo, read back Print Assumptions.  returns dict"""
    pf = props_file(pid)
    target = 'Props/Properties_%s.vo' % pid
    names = theorems_in(pf)
    if clean:
        with Lock('coq'):
            for ext in ('.vo', '.glob', '.vok', '.vos'):
                try:
                    os.remove(pf[:-2] + ext)
                except OSError:
                    pass
    # always re-run the property file itself so that its Print Assumptions output is captured from this run (removed under the same
    # lock hold as the build, so that concurrent checks of one property cannot see each other's fresh .vo)
    ok, out = coq_make([target], remove=[pf[:-2] + '.vo'])
    res = {'file': os.path.relpath(pf, VERIF), 'theorems': names, 'built': ok, 'output_tail': out[-3000:], 'axioms': {}, 'bad_axioms': []}
    if ok:
        # parse "Print Assumptions" blocks:  either "Closed under the global context" or "Axioms:\n name : type ..."
        blocks = re.split(r'(?=Closed under the global context|Axioms:)', out)
        k = 0
        for b in blocks:
            if b.startswith('Closed under the global context'):
                if k < len(names):
                    res['axioms'][names[k]] = []
                k += 1
            elif b.startswith('Axioms:'):
                axs = re.findall(r'^([A-Za-z_][\w.\']*)\s*:', b[len('Axioms:'):], flags=re.M)
                axs = [a for a in axs if not a.startswith('COQMF')]
                if k < len(names):
                    res['axioms'][names[k]] = axs
                k += 1
                for a in axs:
                    if a not in ALLOWED_AXIOMS and not any(a.endswith('.' + x.split('.')[-1]) and x.endswith(a) for x in ALLOWED_AXIOMS):
                        res['bad_axioms'].append(a)
        res['assumption_blocks'] = k
    if ok and clean:
        # thorough tier: re-check the compiled property file and everything it depends on with the independent checker
        with Lock('coq'):
            rc, cout = sh(['timeout', '1500', 'coqchk', '-o', '-silent', '-Q', '.', 'N2kV', 'N2kV.Props.Properties_%s' % pid], cwd=COQ, timeout=1600)
        m = re.search(r'\* Axioms:(.*?)\* Constants/Inductives relying on type-in-type:(.*?)\* Constants/Inductives relying on unsafe \(co\)fixpoints:(.*?)\* Inductives whose positivity is assumed:(.*)', cout, flags=re.S)
        res['coqchk'] = {'exit': rc, 'axioms': m.group(1).strip() if m else 'unparsed', 'type_in_type': m.group(2).strip() if m else '', 'unsafe_fix': m.group(3).strip() if m else '',
                         'assumed_positivity': m.group(4).strip() if m else ''}
        if rc != 0 or not m or any(res['coqchk'][k] != '<none>' for k in ('type_in_type', 'unsafe_fix', 'assumed_positivity')):
            ok = False
            res['built'] = False
            res['first_error'] = 'coqchk: ' + cout[-600:]
    res['forbidden'] = scan_forbidden()
    res['obligations'] = len(names)
    good = ok and not res['bad_axioms'] and not res['forbidden'] and res.get('assumption_blocks', 0) >= len(names)
    res['discharged'] = len(names) if good else 0
    if not good and not ok:
        m = re.search(r'File "([^"]+)", line (\d+)[^\n]*\n(Error:[^\n]*(?:\n[^\n]+){0,6})', out)
        res['first_error'] = (m.group(1) + ':' + m.group(2) + ' ' + m.group(3)) if m else out[-800:]
    return res


# ---------------------------------------------------------------------------------------------
# extracted model
def build_model(fam):
    """coq/Extract/Ext<fam>.v extracts to build/ocaml/<fam>/model.ml ; ocaml/drv_<fam>.ml is the driver"""
    d = os.path.join(BUILD, 'ocaml', fam)
    os.makedirs(d, exist_ok=True)
    ok, out = coq_make(['Extract/Ext%s.vo' % fam])
    if not ok:
        return None, out
    ml = os.path.join(COQ, 'Extract', 'model_%s.ml' % fam)
    if not os.path.exists(ml):
        # extraction writes into the directory coqc was started in (coq/)
        ml = os.path.join(COQ, 'model_%s.ml' % fam)
    if not os.path.exists(ml):
        return None, 'extraction output model_%s.ml not found\n%s' % (fam, out)
    drv = os.path.join(VERIF, 'ocaml', 'drv_%s.ml' % fam)
    zu = os.path.join(VERIF, 'ocaml', 'zutil.ml')
    key = file_hash([ml, ml + 'i', drv, zu])
    exe = os.path.join(d, 'driver-' + key)
    with Lock('ocaml-' + fam):
        if not os.path.exists(exe):
            for old in glob.glob(os.path.join(d, '*')):
                os.remove(old)
            shutil.copy(ml, os.path.join(d, 'model.ml'))
            shutil.copy(ml + 'i', os.path.join(d, 'model.mli'))
            with open(os.path.join(d, 'driver.ml'), 'w') as f:
                f.write('open Model\n')
                f.write(open(zu).read())
                f.write('\n')
                f.write(open(drv).read())
            rc, out = sh(['ocamlfind', 'ocamlopt', '-O2' if False else '-inline', '50', '-w', '-a', 'model.mli', 'model.ml', 'driver.ml', '-o', exe],
                         cwd=d, timeout=600)
            if rc != 0:
                return None, out
    return exe, None


def _run_model_chunk(exe, lines, timeout, args):
    p = subprocess.run([exe] + list(args), input='\n'.join(lines) + '\n', stdout=subprocess.PIPE, stderr=subprocess.PIPE, text=True, timeout=timeout)
    out = p.stdout.split('\n')
    if out and out[-1] == '':
        out.pop()
    if p.returncode != 0 or len(out) != len(lines):
        raise RuntimeError('model driver failed rc=%d produced %d/%d lines\n%s' % (p.returncode, len(out), len(lines), p.stderr[-2000:]))
    return out


def run_model(exe, lines, timeout=3000, args=()):
    """every line is an independent case: large batches are split over the cores"""
    if len(lines) < 4000:
        return _run_model_chunk(exe, lines, timeout, args)
    from concurrent.futures import ThreadPoolExecutor
    n = min(NPROC, max(2, len(lines) // 2000))
    size = (len(lines) + n - 1) // n
    chunks = [lines[k:k + size] for k in range(0, len(lines), size)]
    with ThreadPoolExecutor(max_workers=n) as ex:
        outs = list(ex.map(lambda c: _run_model_chunk(exe, c, timeout, args), chunks))
    return [l for o in outs for l in o]


# ---------------------------------------------------------------------------------------------
# known findings, replay files, evidence, verdict
def known_findings(pid):
    p = os.path.join(VERIF, 'known_findings.json')
    if not os.path.exists(p):
        return []
    return [k for k in json.load(open(p)).get('findings', []) if k.get('property') == pid and k.get('status') == 'open']


def write_replay(pid, name, header, case_lines):
    os.makedirs(REPLAYS, exist_ok=True)
    path = os.path.join(REPLAYS, '%s-%s.case' % (pid, name))
    with open(path, 'w') as f:
        for k, v in header.items():
            f.write('# %s: %s\n' % (k, str(v).replace('\n', '\n#   ')))
        for l in case_lines:
            f.write(l + '\n')
    return path


def read_replay(path):
    return [l.rstrip('\n') for l in open(path) if l.strip() and not l.startswith('#')]


def corpus_lines(pid):
    out = []
    for f in sorted(glob.glob(os.path.join(REPLAYS, 'corpus', pid, '*.case'))):
        out.extend(read_replay(f))
    return out


class Run:
    """accumulates what one ./check run did and turns it into evidence + exit status"""

    def __init__(self, pid, tier, seed):
        self.pid, self.tier, self.seed = pid, tier, seed
        self.t0 = time.time()
        self.cov = {'evaluations': 0, 'distinct_nontrivial': 0, 'traces_validated_against_impl': 0, 'samples': [],
                    'obligations': 0, 'discharged': 0, 'checker_cmd': '', 'trusted_base': [], 'families': {}}
        self.violations = []   # (replay path, tail words)
        self.known = []
        self.broken = []       # descriptions of broken obligations/correspondences
        self.assumptions = []
        self.distinct = set()
        if not os.environ.get('VERIF_REPLAYING'):
            for old in glob.glob(os.path.join(REPLAYS, pid + '-*.case')):
                os.remove(old)

    def add_proofs(self, res):
        self.cov['obligations'] += res['obligations']
        self.cov['discharged'] += res['discharged']
        self.cov['checker_cmd'] = 'coq_makefile -f _CoqProject -o Makefile && make -k -j16 %s.vo  (coqc 8.16.1, full .vo, Print Assumptions parsed; source scanned for Admitted/Axiom/...)' % res['file'][4:-2]
        self.cov.setdefault('theorems', []).extend(res['theorems'])
        self.cov.setdefault('axioms_per_theorem', {}).update(res['axioms'])
        if 'coqchk' in res:
            self.cov['coqchk'] = res['coqchk']
        if res['discharged'] != res['obligations']:
            why = res.get('first_error') or ('bad axioms %s' % res['bad_axioms'] if res['bad_axioms'] else '') or ('forbidden words %s' % res['forbidden'] if res['forbidden'] else 'Print Assumptions output incomplete')
            self.broken.append('proof obligations of %s do not check: %s' % (res['file'], why))

    def add_cases(self, family, n, nontrivial_keys, samples):
        self.cov['evaluations'] += n
        self.cov['traces_validated_against_impl'] += n
        for k in nontrivial_keys:
            self.distinct.add((family, k))
        f = self.cov['families'].setdefault(family, {'cases': 0})
        f['cases'] += n
        for s in samples[:3]:
            if len(self.cov['samples']) < 12:
                self.cov['samples'].append(s if len(s) < 400 else s[:400] + '...')

    def violation(self, replay, nofail=False):
        self.violations.append((replay, nofail))

    def finish(self, extra=None):
        self.cov['distinct_nontrivial'] = len(self.distinct)
        axs = sorted({a for l in self.cov.get('axioms_per_theorem', {}).values() for a in l})
        self.cov['trusted_base'] = [
            'Coq 8.16.1 kernel via coqc (full .vo build; vm_compute used; native_compute not used)',
            'axioms reported by Print Assumptions for the property theorems of this run: ' + (', '.join(axs) if axs else 'none (closed under the global context)'),
            'Coq extraction (ExtrOcamlBasic only; no Extract Constant / Extract Inductive of our own) and the OCaml 4.13.1 driver in ocaml/',
            'the correspondence: harness/*.cpp built from /repo/src working tree with g++ -O1 -fsanitize=address,undefined,float-cast-overflow, generators and oracle in tools/p_%s.py' % self.pid,
            'modelled rather than verified: the C++ source itself; the Gallina model is hand-written and tied to it by the correspondence (differential testing)',
        ] + self.assumptions
        if extra:
            self.cov.update(extra)
        self.cov['broken'] = self.broken
        self.cov['known_findings_reported'] = self.known
        ev = {'property_id': self.pid, 'tier': self.tier, 'seed': self.seed, 'level': 'proof', 'coverage': self.cov,
              'assumptions': self.assumptions, 'wall_s': round(time.time() - self.t0, 2), 'violations': len(self.violations)}
        os.makedirs(EVID, exist_ok=True)
        json.dump(ev, open(os.path.join(EVID, self.pid + '.json'), 'w'), indent=1)
        for k in self.known:
            print('KNOWN-FINDING: property=%s %s' % (self.pid, k))
        for rp, nofail in self.violations:
            print('VIOLATION property=%s replay=%s%s' % (self.pid, rp, ' no-failing-input-found' if nofail else ''))
        sys.stdout.flush()
        return 1 if self.violations else 0


# ---------------------------------------------------------------------------------------------
# generic correspondence + oracle step
def canon_impl(r):
    """implementation result line -> canonical form comparable with the model's"""
    if r.startswith('crash'):
        return 'oob'
    return r


def short_mark(c):
    """a third of the node cases (chosen by a hash of the case, so a replay makes the same choice) carry short=1: the harness then makes every
    public call with the shortest argument list whose omitted arguments equal the documented defaults, while model and oracles read the
    full argument list - the default arguments of the header are compared like any other behaviour"""
    if not c.startswith('NODE ') or '|' not in c:
        return c
    head, rest = c.split('|', 1)
    head = head.replace(' short=1', '').rstrip()
    if zlib.crc32((head + '|' + rest.strip()).encode()) % 3 == 0:
        head += ' short=1'
    return head + ' |' + rest


AIM_DELAYS = [0, 1, 2, 3, 100, 187, 200, 250, 251, 363, 407, 1000, 2500, 10000, 60000]


def clock_aimed(cases, limit=120):
    """32-bit scheduler build: copies of a sample of the cases with the clock origin moved so that one of their operations happens d ms before
    the clock reads 0xffffffff, for the delays d the library arms (claim answer 2 ms, open delay 200 ms, claim window 250 ms, pending
    information 187+8*src / 187+10*src ms, retries, heartbeat ...): a deadline computed to exactly 0xffffffff - the 'disabled' marker of
    the 32-bit scheduler - must still fire (seeds C03-18, C09-16).  Deterministic (hash of the case)."""
    out = []
    sample = [c for c in cases if c.startswith('NODE ') and '|' in c and ' t0=' in c.split('|')[0]]
    step = max(1, len(sample) // limit)
    for c in sample[::step]:
        head, rest = c.split('|', 1)
        ops = [o.strip() for o in rest.split(';')]
        h = zlib.crc32(c.encode())
        marks = [k for k, o in enumerate(ops) if o and o[0] in 'PRSQCX']
        if not marks:
            continue
        k = marks[h % len(marks)]
        el = 0
        for o in ops[:k]:
            if o.startswith('T '):
                try:
                    el += int(o.split()[1])
                except ValueError:
                    pass
        m = re.search(r' src=(\d+)', head)
        src = int(m.group(1)) if m else 0
        ds = AIM_DELAYS + [187 + 8 * src, 187 + 10 * src]
        d = ds[(h >> 8) % len(ds)]
        t0 = (0xffffffff - d - el) % (1 << 32)
        out.append(re.sub(r' t0=\d+', ' t0=%d' % t0, head, count=1) + '|' + rest)
    return out


def correspond(run, family, harness, flagset, model_fam, cases, oracle, nontrivial=None, canon=canon_impl, known=None, model_args=(), impl_only=False):
    """Run [cases] through the extracted model and through the C++ harness, diff, and apply the property oracle to
    what the implementation did.  oracle(case, impl_result) -> None | 'description of the failure'.
    known(case, what) -> key string of a listed known finding or None."""
    if harness == 'h_node':
        if flagset == 'w32' and not os.environ.get('VERIF_REPLAYING'):
            cases = list(cases) + clock_aimed(cases)
        cases = [short_mark(c) for c in cases]
        if model_fam == 'NODEGF':
            # a quarter of the group-function cases run with an application catch-all handler that declines everything (gfapp=1): transparent
            cases = [(c.replace(' |', ' gfapp=1 |', 1) if (' gfapp=1' not in c and c.startswith('NODE ') and zlib.crc32(c.replace(' short=1', '').encode()) % 4 == 1) else c) for c in cases]
    hexe, err = build_harness(harness, flagset)
    if hexe is None:
        run.broken.append('harness %s does not build against the current /repo/src (%s): %s' % (harness, flagset, (err or '')[-1500:]))
        return
    mexe, err = build_model(model_fam)
    if mexe is None:
        run.broken.append('extracted model %s does not build: %s' % (model_fam, (err or '')[-1500:]))
        return
    t = time.time()
    if flagset == 'w32' and harness in ('h_node', 'h_net') and len(cases) >= 64:
        # the 32-bit scheduler harnesses fork one child per case (function-local statics of N2kMillis64), so cases are independent of each
        # other: the batch is split over the cores
        nch = min(NPROC, max(2, len(cases) // 32))
        size = (len(cases) + nch - 1) // nch
        chunks = [cases[k:k + size] for k in range(0, len(cases), size)]
        with ThreadPoolExecutor(max_workers=nch) as ex:
            outs = list(ex.map(lambda c: run_impl(hexe, c), chunks))
        iout = [l for o in outs for l in o]
    else:
        iout = run_impl(hexe, cases)
    ti = time.time() - t
    t = time.time()
    if impl_only:
        # oracle-only family: behaviour the model does not have (stated in the family's rule); the property oracle judges the implementation
        mout = [(canon(iout[i], cases[i]) if canon.__code__.co_argcount == 2 else canon(iout[i])) for i in range(len(cases))]
    else:
        mout = run_model(mexe, cases, args=model_args)
    tm = time.time() - t
    disagreements = []
    oracle_fail = []
    keys = []
    for i, c in enumerate(cases):
        ci = canon(iout[i], cases[i]) if canon.__code__.co_argcount == 2 else canon(iout[i])
        if mout[i] != ci:
            disagreements.append(i)
        what = oracle(c, iout[i])
        if what:
            oracle_fail.append((i, what))
        if nontrivial is None or nontrivial(c, mout[i]):
            keys.append(c)
    run.add_cases(family, len(cases), keys, ['%s => %s' % (c, m) for c, m in list(zip(cases, mout))[::max(1, len(cases) // 3)]])
    fam = run.cov['families'][family]
    fam.update({'model_s': round(tm, 2), 'impl_s': round(ti, 2), 'disagreements': len(disagreements), 'oracle_failures': len(oracle_fail),
                'flagset': flagset})
    if impl_only:
        fam['oracle_only'] = 'not compared with the model: the family exercises behaviour outside it'
    dist = {}
    for m in mout:
        k = m.split(' ')[0] + (' ' + m.split(' ')[1] if m.startswith(('rt ', 'ret ')) and len(m.split(' ')) > 1 and m.split(' ')[1] in ('true', 'false', '0') else '')
        dist[k] = dist.get(k, 0) + 1
    fam['model_result_distribution'] = dict(sorted(dist.items(), key=lambda kv: -kv[1])[:12])
    reported = set()
    for i, what in oracle_fail:
        kf = known(cases[i], what) if known else None
        if kf:
            if kf not in run.known:
                run.known.append(kf)
            continue
        key = what.split(':')[0]
        if key in reported:
            continue
        reported.add(key)
        rp = write_replay(run.pid, '%s-%d-%d' % (family, run.seed, i),
                          {'property': run.pid, 'family': family, 'seed': run.seed, 'case_index': i, 'failed': 'property oracle on implementation',
                           'what': what, 'impl': iout[i], 'model': mout[i]}, [cases[i]])
        run.violation(rp)
    if disagreements:
        i = disagreements[0]
        run.broken.append('correspondence %s/%s: model and implementation differ on %d of %d cases; first: case %d `%s` model=`%s` impl=`%s`'
                          % (family, flagset, len(disagreements), len(cases), i, cases[i][:300], mout[i][:300], iout[i][:300]))
        fam['first_disagreement'] = {'case': cases[i], 'model': mout[i], 'impl': iout[i]}
        run.disagree_cases = getattr(run, 'disagree_cases', []) + [cases[j] for j in disagreements[:20]]


def conclude(run):
    """after proofs and correspondences: anything broken without a concrete failing input -> no-failing-input-found"""
    if run.broken and not run.violations:
        rp = write_replay(run.pid, 'broken', {'property': run.pid, 'seed': run.seed,
                                              'no_longer_checks': '\n'.join(run.broken)}, getattr(run, 'disagree_cases', []))
        run.violation(rp, nofail=True)
    return run.finish()
