# C06 - scaled numeric fields: generator, property oracle (exact rational arithmetic), correspondence
import random, struct, math
from fractions import Fraction
import vlib

PRECS = [1e-16, 1e-9, 1e-7, 3.125e-8, 1e-6, 3.125e-5, 1e-4, 1e-3, 0.004, 0.01, 0.1, 0.25, 0.5, 1.0, 2.0, 10.0, 60.0, 100.0, 1000.0, 3600.0,
         0.0001, 0.00390625, 1e-5, 86400.0, -0.01]
WIDTHS = [(1, 's'), (1, 'u'), (2, 's'), (2, 'u'), (3, 's'), (3, 'u'), (4, 's'), (4, 'u'), (8, 's')]
NA = -1e9


def db(x):
    return struct.pack('>d', x).hex()


def bd(h):
    return struct.unpack('>d', bytes.fromhex(h))[0]


def fb(x):
    return struct.pack('>f', x).hex()


def lo(n, s):
    return -(1 << (8 * n - 1)) if s == 's' else 0


def orc(n, s):
    return ((1 << (8 * n - 1)) if s == 's' else (1 << (8 * n))) - 2


def nextafter(x, d):
    return math.nextafter(x, d)


def gen(seed, tier):
    r = random.Random(seed * 7919 + 6)
    thorough = tier != 'quick'
    cases = []
    for (n, s) in WIDTHS:
        L, O = lo(n, s), orc(n, s)
        bnd = [L - 2, L - 1, L, L + 1, -2, -1, 0, 1, 2, O - 2, O - 1, O, O + 1, O + 2, O + 3, (L + O) // 2]
        if n == 3 and s == 's':
            bnd += [-1234, -8388608, -8388607, 8388605, -1, -256, -65536, -65537]
        for p in (PRECS if thorough else [1e-16, 1e-7, 0.004, 0.01, 1.0, 3600.0, -0.01]):
            codes = set(bnd)
            if n == 1:
                codes |= set(range(L - 1, O + 4)) if (thorough or p in (0.01, 1.0, 0.25)) else set()
            elif n == 2:
                codes |= set(range(L - 1, O + 4)) if (thorough and p in (0.01, 1.0, 0.004)) else set(range(L, O + 3, 1021 if not thorough else 17))
            for _ in range(25 if not thorough else 600):
                codes.add(r.randint(L, O))
                codes.add(r.randint(L - 5, O + 5))
                if n == 8:
                    codes.add(r.randint(-(1 << 53), 1 << 53)); codes.add(r.randint(-(1 << 40), 1 << 40))
            for c in sorted(codes):
                v = c * p
                cases.append('RTD %d %s %s %s' % (n, s, db(v), db(p)))
                if r.random() < (0.15 if not thorough else 0.6) or c in bnd:
                    # ties and their neighbours, quarter steps
                    for f in (0.5, -0.5, 0.25, -0.25, 0.49999999999999994, 0.75):
                        w = (c + f) * p
                        cases.append('RTD %d %s %s %s' % (n, s, db(w), db(p)))
                    w = (c + 0.5) * p
                    cases.append('RTD %d %s %s %s' % (n, s, db(nextafter(w, math.inf)), db(p)))
                    cases.append('RTD %d %s %s %s' % (n, s, db(nextafter(w, -math.inf)), db(p)))
        for v in [math.nan, math.inf, -math.inf, 0.0, -0.0, 1e300, -1e300, 1e30, -1e30, NA, nextafter(NA, 0), nextafter(NA, -math.inf), 5e-324, -5e-324,
                  1.7976931348623157e308, 2.0 ** 63, -2.0 ** 63, 2.0 ** 63 - 1024, -2.0 ** 63 - 2048, 2.0 ** 31, 2.0 ** 32, -2.0 ** 31 - 1, 9.3e18, -9.3e18]:
            for p in [1e-16, 0.01, 1.0, 3600.0, 1e-300, math.inf, math.nan, 0.0]:
                cases.append('SETD %d %s %s %s' % (n, s, db(v), db(p)))
                cases.append('RTD %d %s %s %s' % (n, s, db(v), db(p)))
        for _ in range(200 if not thorough else 5000):
            p = r.choice(PRECS)
            v = r.choice([r.uniform(-1e6, 1e6), r.uniform(-1, 1), r.gauss(0, 1e3), r.uniform(-1e12, 1e12), struct.unpack('>d', struct.pack('>Q', r.getrandbits(64)))[0]])
            cases.append('RTD %d %s %s %s' % (n, s, db(v), db(p)))
    # the free functions SetBufNByte[U]Double (only the 8-byte one maps N2kDoubleNA to the reserved code) and the setters with a caller-chosen
    # UndefVal (seed C06-12: NA reaches SetBuf8ByteDouble only this way)
    for (n, s) in WIDTHS:
        for p in [1e-16, 1e-7, 0.01, 1.0]:
            for v in [NA, nextafter(NA, 0), 0.0, -0.0, 1.0, -1.0, 123.456, math.nan, math.inf, -1e30, 2.0 ** 63]:
                cases.append('SETB %d %s %s %s' % (n, s, db(v), db(p)))
                for u in [NA, 0.0, -0.0, -1.0, 123.456, math.nan, math.inf]:
                    cases.append('RTU %d %s %s %s %s' % (n, s, db(v), db(p), db(u)))
        for _ in range(20 if not thorough else 1000):
            p = r.choice(PRECS)
            v = r.choice([r.uniform(-1e6, 1e6), r.uniform(-1, 1), NA, 0.0])
            cases.append('SETB %d %s %s %s' % (n, s, db(v), db(p)))
            cases.append('RTU %d %s %s %s %s' % (n, s, db(v), db(p), db(r.choice([v, NA, 0.0, 7.5]))))
    # getters: bounds.  every read offset against every payload length (thorough) / a grid that includes every boundary (quick)
    for (n, s) in WIDTHS:
        for datalen in (range(0, 224) if thorough else list(range(0, 12)) + [100, 221, 222, 223]):
            idxs = range(0, 224) if thorough else sorted(set(list(range(0, 14)) + [datalen - n - 1, datalen - n, datalen - n + 1, datalen - 1, datalen, datalen + 1, 222, 223]))
            for idx in idxs:
                if idx < 0 or idx > 223:
                    continue
                if thorough and abs(idx + n - datalen) > 3 and r.random() > 0.05:
                    continue
                data = bytes(r.randrange(256) for _ in range(min(223, max(datalen, idx + n))))
                if r.random() < 0.3 and idx + n <= len(data):
                    # plant the NA / OR code
                    code = (orc(n, s) + r.choice([0, 1])) & ((1 << (8 * n)) - 1)
                    data = data[:idx] + code.to_bytes(n, 'little') + data[idx + n:]
                p = r.choice(PRECS)
                cases.append('GETD %d %s %s %s %d %d %s' % (n, s, db(p), db(r.choice([NA, -7.0, 0.0, 123.456])), idx, datalen, data.hex() or '-'))
    for kind, n in [('b', 1), ('i2', 2), ('u2', 2), ('u3', 3), ('u4', 4), ('u8', 8)]:
        for _ in range(150 if not thorough else 3000):
            datalen = r.choice([0, 1, 2, 3, 4, 7, 8, 9, 223, r.randint(0, 223)])
            idx = r.choice([0, max(0, datalen - n), max(0, datalen - n + 1), datalen, min(223, datalen + 1), r.randint(0, 223)])
            data = bytes(r.randrange(256) for _ in range(min(223, max(datalen, idx + n))))
            d = r.choice([0, 0xff, (1 << (8 * n)) - 1, 0x7f, 12345 % (1 << (8 * n))])
            if kind == 'i2':
                d = r.choice([0, -1, 0x7fff, -32768])
            cases.append('GETI %s %d %d %d %s' % (kind, d, idx, datalen, data.hex() or '-'))
    for kind, n in [('b', 1), ('i2', 2), ('u2', 2), ('i3', 3), ('u4', 4), ('u8', 8)]:
        for _ in range(25 if not thorough else 600):
            if kind in ('i2', 'i3'):
                v = r.choice([0, -1, 1, -(1 << (8 * n - 1)), (1 << (8 * n - 1)) - 1, r.randint(-(1 << (8 * n - 1)), (1 << (8 * n - 1)) - 1)])
            else:
                v = r.choice([0, 1, (1 << (8 * n)) - 1, (1 << (8 * n)) - 2, r.randrange(1 << (8 * n))])
            cases.append('SETI %s %d' % (kind, v))
    # float fields
    fl = [0.0, -0.0, 1.5, -1e9, 3.4028234663852886e38, -3.4028234663852886e38, 1e-45, math.inf, -math.inf, math.nan, -999999936.0, -1000000064.0]
    for v in fl + [r.uniform(-1e6, 1e6) for _ in range(100)]:
        cases.append('SETF %s' % fb(v))
    for _ in range(300 if not thorough else 6000):
        datalen = r.choice([0, 3, 4, 5, 8, 223, r.randint(0, 223)])
        idx = r.choice([0, max(0, datalen - 4), max(0, datalen - 3), datalen, r.randint(0, 223)])
        data = bytearray(r.randrange(256) for _ in range(min(223, max(datalen, idx + 4))))
        if r.random() < 0.4 and idx + 4 <= len(data):
            data[idx:idx + 4] = r.choice([b'\xff\xff\xff\x7f', b'\x00\x00\xc0\x7f', b'\x01\x00\x80\x7f', b'\x00\x00\x80\x7f', b'\x00\x00\x80\xff', b'\xff\xff\xff\xff', struct.pack('<f', r.uniform(-100, 100))])
        cases.append('GETF %s %d %d %s' % (fb(r.choice([-1e9, 0.0, 42.0])), idx, datalen, bytes(data).hex() or '-'))
    return cases


def frac(x):
    return Fraction(x)


def oracle(case, res):
    t = case.split()
    if res.startswith('crash'):
        return 'undefined-behaviour:%s %s' % (t[0], res)
    if t[0] in ('RTD', 'SETD', 'SETB', 'RTU'):
        n, s, v, p = int(t[1]), t[2], bd(t[3]), bd(t[4])
        rs = res.split()
        # which value means 'not available' for this call, and what it reads back as:
        #   Add..Double(v, precision): N2kDoubleNA;  Add..Double(v, precision, UndefVal): UndefVal (IEEE ==), and for the 8-byte field also
        #   N2kDoubleNA (SetBuf8ByteDouble knows it);  the free functions SetBuf..Double: only the 8-byte one has a 'not available' input
        NAv, back = NA, db(NA)
        if t[0] == 'RTU':
            u = bd(t[5])
            back = 'nan' if math.isnan(u) else db(u)
            NAv = u if (v == u) else (NA if n == 8 else None)
        elif t[0] == 'SETB':
            NAv = NA if n == 8 else None
        stored = bytes.fromhex(rs[0])
        if len(stored) != n:
            return 'width:%d bytes stored for a %d byte field' % (len(stored), n)
        code_u = int.from_bytes(stored, 'little')
        L, O = lo(n, s), orc(n, s)
        na_u = (O + 1) & ((1 << (8 * n)) - 1)
        or_u = O & ((1 << (8 * n)) - 1)
        if NAv is not None and v == NAv:
            if code_u != na_u:
                return 'na:NA not stored as the NA code'
            if t[0] in ('RTD', 'RTU') and rs[1] != back:
                return 'na:NA code does not read back as NA'
            return None
        if code_u == na_u:
            return 'na:a value other than NA stored as the NA code (n=%d %s)' % (n, s)
        bad = math.isnan(v) or math.isinf(v) or math.isnan(p) or p == 0 or math.isinf(p)
        if bad:
            q = None
            if not (math.isnan(v) or math.isnan(p)) and math.isinf(p) and not math.isinf(v):
                return None      # v/inf = 0: a legitimate in-range value
            if code_u != or_u:
                return 'saturate:NaN/inf/division by zero not stored as the out-of-range code (n=%d %s)' % (n, s)
            return None
        q = frac(v) / frac(p)
        if q < L - 1 or q > O + 1:
            return None if code_u == or_u else 'saturate:out of range value stored as %#x instead of the out-of-range code (n=%d %s)' % (code_u, n, s)
        if L <= q <= O - 1:
            if code_u == or_u and q < O - 2:
                return 'quantise:in-range value stored as the out-of-range code (n=%d %s)' % (n, s)
            if t[0] in ('RTD', 'RTU'):
                if rs[1] == 'nan':
                    return 'roundtrip:in-range value reads back as NaN'
                rv = bd(rs[1])
                err = abs(frac(rv) - frac(v)) / abs(frac(p))
                tol = (Fraction(1) if n == 8 else Fraction(1, 2)) + abs(q) * Fraction(1, 2 ** 50) + Fraction(1, 10 ** 12)
                if err > tol:
                    return 'roundtrip:read back value off by %.6g steps (n=%d %s)' % (float(err), n, s)
        return None
    if t[0] == 'GETD':
        n, s, p, dflt, idx, datalen = int(t[1]), t[2], bd(t[3]), t[4], int(t[5]), int(t[6])
        data = bytes.fromhex(t[7]) if t[7] != '-' else b''
        rs = res.split()
        if idx + n > datalen:
            return None if (rs[0] == (dflt if not math.isnan(bd(dflt)) else 'nan') and int(rs[1]) == idx) else 'bounds:field beyond DataLen did not return the default / moved the index'
        if int(rs[1]) != idx + n:
            return 'bounds:index not advanced by the field width'
        c = int.from_bytes(data[idx:idx + n], 'little', signed=(s == 's'))
        if c == orc(n, s) + 1:
            return None if rs[0] == dflt else 'na:NA code not read as the default'
        exp = float(c) * p
        e = 'nan' if math.isnan(exp) else db(exp)
        return None if rs[0] == e else 'get:value read %s differs from code*precision %s (n=%d %s code %d)' % (rs[0], e, n, s, c)
    if t[0] == 'GETI':
        kind, d, idx, datalen = t[1], int(t[2]), int(t[3]), int(t[4])
        data = bytes.fromhex(t[5]) if t[5] != '-' else b''
        n = {'b': 1, 'i2': 2, 'u2': 2, 'u3': 3, 'u4': 4, 'u8': 8}[kind]
        rs = res.split()
        if idx + n > datalen:
            dd = 255 if kind == 'b' else d
            return None if (int(rs[0]) == dd and int(rs[1]) == idx) else 'bounds:integer getter beyond DataLen'
        c = int.from_bytes(data[idx:idx + n], 'little', signed=(kind == 'i2'))
        return None if (int(rs[0]) == c and int(rs[1]) == idx + n) else 'get:integer getter value'
    if t[0] == 'SETI':
        kind, v = t[1], int(t[2])
        n = {'b': 1, 'i2': 2, 'u2': 2, 'i3': 3, 'u4': 4, 'u8': 8}[kind]
        return None if res == (v & ((1 << (8 * n)) - 1)).to_bytes(n, 'little').hex() else 'set:integer bytes'
    if t[0] == 'SETF':
        v = struct.unpack('>f', bytes.fromhex(t[1]))[0]
        exp = b'\xff\xff\xff\x7f' if v == -1e9 else bytes.fromhex(t[1])[::-1]
        return None if res == exp.hex() else 'float:bytes stored'
    if t[0] == 'GETF':
        dflt, idx, datalen = t[1], int(t[2]), int(t[3])
        data = bytes.fromhex(t[4]) if t[4] != '-' else b''
        rs = res.split()
        if idx + 4 > datalen:
            return None if (rs[0] == dflt and int(rs[1]) == idx) else 'bounds:float getter beyond DataLen'
        raw = data[idx:idx + 4]
        f = struct.unpack('<f', raw)[0]
        exp = dflt if (raw == b'\xff\xff\xff\x7f' or math.isnan(f)) else raw[::-1].hex()
        return None if (rs[0] == exp and int(rs[1]) == idx + 4) else 'float:value read'
    return None


def nontrivial(case, mres):
    return True


def check(run, replay=None):
    cases = vlib.read_replay(replay) if replay else vlib.corpus_lines('C06') + gen(run.seed, run.tier)
    run.cov['rule'] = ('per width (1,2,3,4 signed/unsigned, 8 signed) and per resolution (1e-16..3600, one negative): set/get round trips of code*precision for boundary codes '
                       '(min, -1, 0, OR-1, OR, NA, beyond), all 1-byte codes, a stride of 2-byte codes (all of them in the thorough tier), random codes, ties (c+0.5)*p and their floating-point '
                       'neighbours, quarter steps; NaN, +-inf, +-0, huge, denormal, NA and its neighbours against ordinary, zero, infinite and NaN resolutions; '
                       'getters at offsets around DataLen for every width (every offset x every length in the thorough tier) with planted NA/OR codes; integer and float fields. '
                       'non-trivial = distinct case text (every case exercises a setter or getter)')
    run.assumptions += ['little-endian host, IEEE-754 binary64 double and binary32 float (the build this sandbox compiles)',
                        'IEEE rounding of v/precision, val+-0.5 and code*precision is modelled by coq/Model/SoftFloat.v, which is validated bit-for-bit by this correspondence and not proved']
    vlib.correspond(run, 'numeric', 'h_num', 'w64', 'C06', cases, oracle, nontrivial)
