# Specification-level reference for the node's send side, written from the property texts (C01 framing, C11 FIFO, C04 gate),
# NOT from the C++ and not from the Coq model: used by the oracles to judge what the implementation did.
import re

REF_SINGLE = {59392, 59904, 60160, 60416, 60928, 61184, 126992, 126993, 127245, 127250, 127251, 127252, 127257, 127258, 127488, 127493, 127501, 127502, 127505, 127508,
              127750, 127751, 128000, 128259, 128267, 129025, 129026, 129027, 129033, 129283, 129291, 129539, 130306, 130310, 130311, 130312, 130313, 130314, 130315,
              130316, 130576}
REF_FAST = {126208, 126464, 126720, 126983, 126984, 126985, 126986, 126987, 126988, 126996, 126998, 127233, 127237, 127489, 127496, 127497, 127498, 127503, 127504,
            127506, 127507, 127509, 127510, 127511, 127512, 127513, 127514, 128275, 128520, 129029, 129038, 129039, 129040, 129041, 129044, 129045, 129284, 129285,
            129301, 129302, 129538, 129540, 129541, 129542, 129545, 129547, 129549, 129551, 129556, 129792, 129793, 129794, 129795, 129796, 129797, 129798, 129799,
            129800, 129801, 129802, 129803, 129804, 129805, 129806, 129807, 129808, 129809, 129810, 130052, 130053, 130054, 130060, 130061, 130064, 130065, 130066,
            130067, 130068, 130069, 130070, 130071, 130072, 130073, 130074, 130320, 130321, 130322, 130323, 130324, 130330, 130561, 130562, 130563, 130564, 130565,
            130566, 130567, 130569, 130570, 130571, 130572, 130573, 130574, 130577, 130578}
DEF_TX_FAST = [126208, 126464, 126996, 126998]      # fast-packet PGNs every device transmits by default (group function, PGN lists, product/configuration information)


def _coq_list(name):
    """the reference classification lists live in coq/Spec/PgnClassRef.v (single source for the theorems and for these oracles)"""
    import os, re
    try:
        txt = open(os.path.join(os.path.dirname(os.path.dirname(os.path.abspath(__file__))), 'coq', 'Spec', 'PgnClassRef.v')).read()
        txt = re.sub(r'\(\*.*?\*\)', ' ', txt, flags=re.S)
        m = re.search(r'Definition %s : list Z :=\s*\[(.*?)\]\.' % name, txt, flags=re.S)
        return {int(x) for x in re.findall(r'\d+', m.group(1))}
    except Exception:
        return None


REF_FAST = _coq_list('ref_fast') or REF_FAST
REF_SINGLE = _coq_list('ref_single') or REF_SINGLE


def ref_class(pgn, cfg):
    """'fast' | 'single' | None (the reference does not know)"""
    if pgn == 126720 or 130816 <= pgn <= 131071:
        return 'fast'
    if pgn in cfg.get('fp1', []) or pgn in cfg.get('fp0', []):
        return 'fast'
    if pgn == 61184 or 65280 <= pgn <= 65535:
        return 'single'
    if 'fp0' in cfg:
        # the application replaced the default fast-packet list: only system/mandatory fast packets remain
        if pgn in (126208, 126464, 126996, 126998, 65240):
            return 'fast'
        return None if pgn in REF_FAST else ('single' if pgn in REF_SINGLE else None)
    if pgn in REF_FAST:
        return 'fast'
    if pgn in REF_SINGLE:
        return 'single'
    return None


def pdu1(pgn):
    return ((pgn >> 8) & 0xff) < 240


def ref_can_id(prio, pgn, src, dst):
    if pdu1(pgn):
        return (prio & 7) << 26 | (pgn & 0x1ff00) << 8 | dst << 8 | src
    return (prio & 7) << 26 | pgn << 8 | src


def ref_fp_decode(frames):
    """frames: list of 8-byte lists -> (seqid, payload) ; raises on malformed"""
    f0 = frames[0]
    sid = f0[0] >> 5
    ln = f0[1]
    data = list(f0[2:])
    for k, f in enumerate(frames[1:], 1):
        if len(f) != 8 or f[0] != (sid << 5 | k):
            raise ValueError('frame %d: counter/sequence byte %02x' % (k, f[0]))
        data += f[1:]
    if len(data) < ln:
        raise ValueError('announced %d bytes, frames carry %d' % (ln, len(data)))
    if any(b != 0xff for b in data[ln:]):
        raise ValueError('padding is not 0xff')
    if len(frames) != (1 if ln <= 6 else 2 + (ln - 7) // 7):
        raise ValueError('%d frames for %d bytes' % (len(frames), ln))
    return sid, data[:ln]


def own_addr(src0, i):
    """SetMode(mode, src0): the address device i starts with (successive addresses from a valid source wrap to 0 after 251)"""
    s = src0 + i
    return s - 252 if (src0 <= 251 and s > 251) else s & 255


def parse_case(line):
    cfgs, opss = line.split('|', 1)
    cfg = {}
    for tok in cfgs.split()[1:]:
        k, v = tok.split('=', 1)
        if k in ('fp0', 'fp1', 'sf0', 'sf1', 'onopen') or k.startswith('tx'):
            cfg[k] = [int(x) for x in v.split(',') if x]
        elif k in ('conf', 'pconf', 'prod'):
            cfg[k] = v
        else:
            cfg[k] = int(v)
    ops = [o.split() for o in opss.split(';')]
    return cfg, ops


def parse_result(res):
    """-> (list per op of event tuples, state string)"""
    body, _, state = res.partition('|')
    per_op = []
    for chunk in body.split(';'):
        evs = []
        for t in chunk.split():
            p = t.split(':')
            if p[0] == 'tx':
                evs.append(('tx', int(p[1], 16), int(p[2]), [] if p[3] == '-' else list(bytes.fromhex(p[3])), p[4] == '1'))
            elif p[0] == 'res':
                evs.append(('res', p[1] == '1'))
            elif p[0] == 'dlv':
                evs.append(('dlv', int(p[1]), int(p[2]), int(p[3]), int(p[4]), int(p[5]), [] if p[6] == '-' else list(bytes.fromhex(p[6]))))
            else:
                evs.append((p[0],) + tuple(p[1:]))
        per_op.append(evs)
    return per_op, state.strip()


def declared_fast(cfg, idev):
    return set(DEF_TX_FAST) | {p for p in cfg.get('tx%d' % idev, []) if ref_class(p, cfg) == 'fast'}
