#!/usr/bin/python3
# development aid: run only the correspondence / oracle part of a check (no proof build), evidence and replays go to a scratch directory.
#   tools/corr.py Cnn [quick|thorough] [seed]
import sys, os, importlib
os.environ.setdefault('VERIF_EVID', '/tmp/corr_evid')
os.environ.setdefault('VERIF_REPLAYS', '/tmp/corr_replays')
os.makedirs(os.environ['VERIF_EVID'], exist_ok=True); os.makedirs(os.environ['VERIF_REPLAYS'], exist_ok=True)
sys.path.insert(0, os.path.dirname(os.path.abspath(__file__)))
import vlib
pid = sys.argv[1]
tier = sys.argv[2] if len(sys.argv) > 2 else 'quick'
seed = int(sys.argv[3]) if len(sys.argv) > 3 else 1
run = vlib.Run(pid, tier, seed)
importlib.import_module('p_' + pid).check(run, None)
for f, d in run.cov['families'].items():
    print(pid, f, {k: d.get(k) for k in ('cases', 'disagreements', 'oracle_failures', 'failures')}, str(d.get('first_disagreement'))[:600] if d.get('disagreements') else '')
print('violations', run.violations[:5], 'known', len(run.known), 'broken', run.broken[:3])
