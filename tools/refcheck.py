#!/usr/bin/python3
# False-alarm test: a behaviour-preserving rewrite of /repo (produced by an independent agent) must not make a check fire.
#   refcheck.py <name> <diff> [check-prop ...]      (default: all claimed checks)
# scratch worktree of /repo HEAD + the patch: the repository's suite must pass; then every listed quick check runs against it
# (VERIF_REPO = scratch, scratch evidence / replays).  Result: /verif/refactors/<name>/{patch.diff, meta.json}.
import sys, os, re, subprocess, json, shutil

VERIF = os.path.dirname(os.path.dirname(os.path.abspath(__file__)))


def sh(cmd, **kw):
    p = subprocess.run(cmd, shell=isinstance(cmd, str), stdout=subprocess.PIPE, stderr=subprocess.STDOUT, text=True, errors='replace', **kw)
    return p.returncode, p.stdout


def main():
    name, diff = sys.argv[1], sys.argv[2]
    checks = sys.argv[3:] or [c['property_id'] for c in json.load(open(os.path.join(VERIF, 'MANIFEST.json')))['checks']]
    sr = '/tmp/rf_%s' % name
    sh('git -C /repo worktree remove --force %s' % sr)
    sh('git -C /repo worktree add --detach %s HEAD' % sr)
    res = {'name': name, 'checks': {}}
    try:
        rc, out = sh('git -C %s apply %s' % (sr, diff))
        res['applies_to_head'] = rc == 0
        if rc != 0:
            res['apply_error'] = out[-400:]
        else:
            rc, out = sh('cmake -S %s -B %s/_b -G Ninja >/dev/null && cmake --build %s/_b 2>&1 | tail -3 && ctest --test-dir %s/_b 2>&1 | tail -4' % (sr, sr, sr, sr), timeout=1800)
            res['suite'] = 'pass' if '100% tests passed' in out else 'FAIL'
            shutil.rmtree(sr + '/_b', ignore_errors=True)
            env = dict(os.environ, VERIF_REPO=sr, VERIF_BUILD='/tmp/rfb_%s' % name, VERIF_EVID=sr + '/evid', VERIF_REPLAYS=sr + '/replays')
            os.makedirs(sr + '/replays', exist_ok=True)
            if os.path.isdir(os.path.join(VERIF, 'replays', 'corpus')):
                shutil.copytree(os.path.join(VERIF, 'replays', 'corpus'), sr + '/replays/corpus')
            for c in checks:
                rc, out = sh('./check %s --tier quick' % c, cwd=VERIF, timeout=3600, env=env)
                viol = [l for l in out.split('\n') if l.startswith('VIOLATION')]
                res['checks'][c] = {'exit': rc, 'violations': [v.replace(sr, '<scratch>') for v in viol]}
                for v in viol[:1]:
                    mm = re.search(r'replay=(\S+)', v)
                    if mm and os.path.exists(mm.group(1)):
                        res['checks'][c]['replay_head'] = open(mm.group(1)).read()[:900]
    finally:
        sh('git -C /repo worktree remove --force %s' % sr)
        shutil.rmtree('/tmp/rfb_%s' % name, ignore_errors=True)
    dst = os.path.join(VERIF, 'refactors', name)
    os.makedirs(dst, exist_ok=True)
    if os.path.abspath(diff) != os.path.abspath(os.path.join(dst, 'patch.diff')):
        shutil.copy(diff, os.path.join(dst, 'patch.diff'))
    res['fired'] = [c for c, v in res['checks'].items() if v['exit'] != 0 or v['violations']]
    json.dump(res, open(os.path.join(dst, 'meta.json'), 'w'), indent=1)
    print(name, 'applies' if res.get('applies_to_head') else 'DOES NOT APPLY', 'suite', res.get('suite'), 'fired', res['fired'])


if __name__ == '__main__':
    main()
