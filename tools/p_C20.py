# C20 - ring buffers: generator (exhaustive small scopes + random long), independent Python oracle, correspondence
import random, itertools
import vlib


def gen(seed, tier):
    r = random.Random(seed * 104729 + 20)
    thorough = tier != 'quick'
    cases = []
    # --- exhaustive operation sequences, plain ring
    alpha = ['a', 'A', 'r', 'R', 'p', 'c', 'n', 'e']
    L = 6 if thorough else 5
    for size in ([3, 4, 5, 6] if thorough else [3, 4]):
        for seq in itertools.product(alpha, repeat=L):
            k = 0
            toks = []
            for o in seq:
                if o in 'aA':
                    k += 1; toks.append(o + str(k))
                else:
                    toks.append(o)
            cases.append('PLAIN %d %s' % (size, ' '.join(toks)))
    for size in [0, 1, 2, 3, 7, 64, 1000, 65535]:
        for _ in range((20 if not thorough else 100) if size < 60000 else 3):
            n = r.randint(1, 60) if size < 100 else (r.randint(500, 3000) if size < 60000 else r.randint(20, 60))
            toks = []
            for i in range(n):
                o = r.choice('aaaAArrRpcnne') if r.random() < 0.98 else 'c'
                toks.append(o + (str(r.randrange(1 << 32)) if o in 'aA' else ''))
            # long fill / drain phases so that indices wrap
            if 64 <= size < 60000 and r.random() < 0.7:
                toks = ['a%d' % i for i in range(size + 3)] + ['r'] * (size // 2) + toks + ['n', 'e']
            cases.append('PLAIN %d %s' % (size, ' '.join(toks)))
    # --- exhaustive operation sequences, priority ring
    Lp = 6 if thorough else 5
    for size, maxp in ([(3, 1), (3, 2), (4, 2), (4, 3), (5, 2), (6, 4)] if thorough else [(3, 2), (4, 2)]):
        alpha_p = ['a%d' % p for p in range(maxp)] + ['r', 'R', 'n', 'e255'] + ['q%d' % p for p in range(maxp)] + (['c', 'e0'] if maxp <= 2 else [])
        if size >= 5:
            alpha_p = ['a%d' % p for p in range(maxp)] + ['R'] + ['q%d' % p for p in range(maxp)]
        for seq in itertools.product(alpha_p, repeat=Lp if len(alpha_p) <= 9 else Lp - 1):
            k = 0
            toks = []
            for o in seq:
                if o[0] == 'a':
                    k += 1; toks.append('%s:%d' % (o, k))
                else:
                    toks.append(o)
            cases.append('PRIO %d %d %s' % (size, maxp, ' '.join(toks)))
    for size, maxp in [(0, 0), (2, 1), (3, 255), (5, 3), (8, 254), (16, 4), (300, 7), (1000, 254), (65535, 2)]:
        for _ in range((25 if not thorough else 120) if size < 60000 else 3):
            n = r.randint(5, 80) if size < 100 else (r.randint(500, 2500) if size < 60000 else r.randint(20, 60))
            toks = []
            k = 0
            for i in range(n):
                o = r.choice('aaaaAArRqqqnec') if r.random() < 0.97 else 'c'
                if o in 'aA':
                    k += 1
                    p = r.choice([0, 1, 2, maxp - 1, maxp, 255, r.randrange(256)]) % 256
                    toks.append('%s%d:%d' % (o, max(p, 0), k))
                elif o in 'qe':
                    p = r.choice([0, 1, 2, max(maxp - 1, 0), maxp, 255, r.randrange(256)]) % 256
                    toks.append('%s%d' % (o, p))
                else:
                    toks.append(o)
            if 16 <= size < 60000 and r.random() < 0.6:
                toks = ['a%d:%d' % (i % max(1, min(maxp, 5)), 100000 + i) for i in range(size + 2)] + ['q1'] * (size // 3) + ['R'] * (size // 3) + toks
            cases.append('PRIO %d %d %s' % (size, maxp, ' '.join(toks)))
    return cases


def oracle(case, res):
    """independent reference: FIFO list / span list"""
    t = case.split()
    if res.startswith('crash'):
        return 'memory:%s' % res
    got = res.split('|')[0].split()
    if t[0] == 'PLAIN':
        size = max(3, int(t[1])); q = []; exp = []
        for o in t[2:]:
            if o[0] in 'aA':
                if len(q) < size - 1:
                    q.append(int(o[1:])); exp.append('1')
                else:
                    exp.append('0')
            elif o[0] in 'rR':
                exp.append(str(q.pop(0)) if q else '-')
            elif o[0] == 'p':
                exp.append(str(q[0]) if q else '-')
            elif o[0] == 'c':
                q = []; exp.append('.')
            elif o[0] == 'n':
                exp.append(str(len(q)))
            elif o[0] == 'e':
                exp.append('1' if not q else '0')
        return None if got == exp else 'fifo:plain ring answered %s, a FIFO of capacity size-1 answers %s' % (' '.join(got)[:80], ' '.join(exp)[:80])
    if t[0] == 'PRIO':
        size = max(3, int(t[1])); maxp = int(t[2]); maxp = 1 if maxp < 1 else (254 if maxp == 255 else maxp)
        span = []; exp = []

        def take(p):
            for i, x in enumerate(span):
                if x is not None and x[0] == p:
                    span[i] = None
                    while span and span[0] is None:
                        span.pop(0)
                    return x[1]
            return None
        for o in t[3:]:
            if o[0] in 'aA':
                p, v = o[1:].split(':'); p = min(int(p), maxp - 1)
                if len(span) < size - 1:
                    span.append((p, int(v))); exp.append('1')
                else:
                    exp.append('0')
            elif o[0] in 'rR':
                ps = sorted({x[0] for x in span if x is not None})
                if ps:
                    v = take(ps[0]); exp.append(str(v) if o[0] == 'r' else '%d:%d' % (v, ps[0]))
                else:
                    exp.append('-')
            elif o[0] == 'q':
                v = take(min(int(o[1:]), maxp - 1)); exp.append('-' if v is None else str(v))
            elif o[0] == 'c':
                span = []; exp.append('.')
            elif o[0] == 'n':
                exp.append(str(len(span)))
            elif o[0] == 'e':
                p = int(o[1:])
                exp.append(('1' if not span else '0') if p >= maxp else ('0' if any(x is not None and x[0] == p for x in span) else '1'))
        return None if got == exp else 'prio:priority ring answered %s, the span machine answers %s' % (' '.join(got)[:80], ' '.join(exp)[:80])
    return None


def check(run, replay=None):
    cases = vlib.read_replay(replay) if replay else vlib.corpus_lines('C20') + gen(run.seed, run.tier)
    run.cov['rule'] = ('plain ring: ALL sequences of length 5 (quick; 6 thorough) over {add, add-by-ref, read, read-by-ref, peek, clear, count, isEmpty} for sizes 3..4 (3..6 thorough) + random long '
                       'sequences for sizes 0,1,2,3,7,64,1000,65535 with fill/drain phases; priority ring: ALL sequences of length 5 (6) over adds of every priority, read, read-any, read-of-priority, '
                       'count, isEmpty, clear for (size,priorities) in {(3,2),(4,2)} (more thorough) + random long sequences up to size 65535 / 254 priorities incl. out-of-range priorities and clamped sizes; '
                       'the extracted model, the extracted list-machine specification and the C++ are compared per operation and on head/tail; non-trivial = distinct sequence')
    vlib.correspond(run, 'rings', 'h_ring', 'w64', 'C20', cases, oracle, None)
