#!/usr/bin/python3
# soak: runs the quick (or thorough) command of every claimed check for several VERIF_SEED values with scratch evidence, to look for false
# alarms on the unchanged tree.   tools/soak.py [quick|thorough] seed1 seed2 ... [-- Cnn ...]
import json, subprocess, sys, os, time
V = os.path.dirname(os.path.dirname(os.path.abspath(__file__)))
args = sys.argv[1:]
only = []
if '--' in args:
    only = args[args.index('--') + 1:]
    args = args[:args.index('--')]
tier = args[0] if args and args[0] in ('quick', 'thorough') else 'quick'
seeds = [int(a) for a in args if a.isdigit()] or [2, 3]
m = json.load(open(os.path.join(V, 'MANIFEST.json')))
bad = 0
for seed in seeds:
    for c in m['checks']:
        pid = c['property_id']
        if only and pid not in only:
            continue
        ev = '/tmp/soak_evid_%d' % seed
        rp = '/tmp/soak_replays_%d' % seed
        os.makedirs(ev, exist_ok=True); os.makedirs(rp, exist_ok=True)
        if not os.path.exists(rp + '/corpus'):
            os.symlink(os.path.join(V, 'replays', 'corpus'), rp + '/corpus')
        env = dict(os.environ, VERIF_SEED=str(seed), VERIF_EVID=ev, VERIF_REPLAYS=rp)
        t = time.time()
        p = subprocess.run('./check %s --tier %s' % (pid, tier), shell=True, cwd=V, env=env, stdout=subprocess.PIPE, stderr=subprocess.STDOUT, text=True)
        open('/tmp/soak_out_%d_%s_%s.log' % (seed, tier, pid), 'w').write(p.stdout)
        v = [l for l in p.stdout.split('\n') if l.startswith('VIOLATION')]
        print('seed %d %s %s rc=%d %6.1fs %s' % (seed, tier, pid, p.returncode, time.time() - t, v[:2]), flush=True)
        bad += p.returncode != 0
sys.exit(1 if bad else 0)
