# C09 - NMEA group function (PGN 126208) requests and commands are answered and take effect:
# generator, independent oracle (reference layouts in c09_gen.py + the property text), correspondence of the NODEGF model family.
from nodesim import own_addr
import copy
import random
import vlib
from nodesim import parse_case, parse_result, ref_fp_decode
from nodegen import iso_request, claim
from c09_gen import *

FAST = {126208, 126464, 126996, 126998}
REQ_FIELDS = {
    60928: {1: 3, 2: 2, 3: 1, 4: 1, 5: 1, 6: 1, 7: 1, 8: 1, 9: 1, 10: 1},
    126464: {1: 1},
    126996: {1: 2, 2: 2, 3: 32, 4: 32, 5: 32, 6: 32, 7: 1, 8: 1},
    126998: {1: 'var', 2: 'var', 3: 'var'},
}
CMD_FIELDS = {60928: {3: 1, 4: 1, 8: 1}, 126998: {1: 'var', 2: 'var'}}
INTERVALS = [0xffffffff, 0xfffffffe, 0, 1, 49, 50, 999, 1000, 1001, 5000, 59999, 60000, 60001, 655320, 655321, 0x7fffffff, 0x80000000, 0xfffffff0, 0xfffffffd]
OFFSETS = [0xffff, 0, 1, 100, 5999, 6000, 6001, 0x7fff, 0x8000, 0xfffc, 0xfffe]


# ------------------------------------------------------------------------------------------------ generator
def block(r, how, src, dst, payload, wait=True):
    """one complete message, then ParseMessages until it has been read, 3 ms for the delayed address claim, ParseMessages"""
    fr = carry(r, how, src, dst, payload)
    n = sum(1 for f in fr if f.startswith('R'))
    return ['M'] + fr + ['P'] * (1 + n // 20) + (['T 3', 'P'] if wait else [])


def ops_of(blocks):
    """'M' is only a marker for the oracle's segmentation: it travels as an empty op"""
    out = []
    for b in blocks:
        out += ['' if o == 'M' else o for o in b]
    return out


def field_values(pgn, idev, st):
    """reference current values of the selectable fields of device idev as (field -> bytes)"""
    nm = ref_name(idev, st['devinst'][idev], st['sysinst'][idev])
    if pgn == 60928:
        di = (nm >> 32) & 255
        return {1: le(nm & 0x1fffff, 3), 2: le((nm >> 21) & 0x7ff, 2), 3: [di & 7], 4: [di >> 3], 5: [(nm >> 40) & 255], 6: [1], 7: [(nm >> 49) & 127],
                8: [(nm >> 56) & 15], 9: [(nm >> 60) & 7], 10: [1]}
    if pgn == 126464:
        return {1: [0]}
    if pgn == 126996:
        m, sw, ver, ser = st.get('prod') or (MODEL_ID, SW_CODE, MODEL_VER, SERIAL)
        return {1: le(N2K_VERSION, 2), 2: le(PRODUCT_CODE, 2), 3: fix32(m), 4: fix32(sw), 5: fix32(ver), 6: fix32(ser), 7: [CERT_LEVEL], 8: [LOAD_EQ]}
    if pgn == 126998:
        return {1: varstr(st['d1']), 2: varstr(st['d2']), 3: varstr(st.get('manuf', MANUF_INFO))}
    return {}


def fresh_state(ndev, noconf=False):
    # noconf: the application configured no manufacturer information / descriptions at all (until a command stores one)
    return {'devinst': [0] * ndev, 'sysinst': [0] * ndev, 'd1': b'', 'd2': b'', 'hb': [60000] * ndev, 'manuf': b'' if noconf else MANUF_INFO, 'noconf': noconf}


def wrong(r, v):
    v = list(v)
    if not v:
        return [r.randrange(256)]
    k = r.randrange(len(v))
    v[k] ^= r.choice([1, 2, 4, 0x10, 0x80])
    return v


def hb_per_device_cases(r, thorough):
    """multi-device nodes whose devices are given DIFFERENT heartbeat intervals by request group functions; the heartbeat forced by each request
    (and by a later request that changes nothing but the offset) must state the interval of the device that was asked (also used by the C12 check)"""
    cases = []
    for rep in range(4 if not thorough else 40):
        ndev = r.choice([2, 3])
        src0 = r.choice([22, 100])
        cfg = node(ndev=ndev, src=src0, mode=r.choice([1, 2]), extra=' hb=1')
        ivs = r.sample([1000, 2500, 5000, 7000, 12000, 30000, 60000], ndev)
        blocks = []
        for i in range(ndev):
            blocks.append(block(r, 'fp', 50, own_addr(src0, i), gf_request(126993, ivs[i], 0xffff), wait=False))
        order = list(range(ndev))
        r.shuffle(order)
        for i in order:
            blocks.append(block(r, 'fp', 51, own_addr(src0, i), gf_request(126993, 0xffffffff, r.choice([0, 100, 500])), wait=False))
        # "turn off" (interval 0) is not allowed for the heartbeat: refused, and the scheduled heartbeats go on (seed C12-15)
        victim = r.randrange(ndev)
        blocks.insert(len(blocks) - 1, block(r, 'fp', 52, own_addr(src0, victim), gf_request(126993, 0, 0xffff), wait=False))
        tail = ['T %d' % (max(ivs) + 1500), 'P', 'T 3', 'P', 'T %d' % (max(ivs) + 1500), 'P']
        cases.append(case(cfg, ops_of(blocks) + tail))
    return cases


def conf_change_cases(r, thorough):
    """configured strings + a command that replaces one description + read-back by ISO request (also used by the C08 check)"""
    cases = []
    # E3. the application configured its strings (SetProgmemConfigurationInformation / SetConfigurationInformation, descriptions not
    #     empty); a command replaces ONE description: the other one and the manufacturer information must still be reported
    def ctext(n):
        return bytes(r.choice(b'ABCDEFGHIJKLMNOPQRSTUVWXYZabcdefghijklmnopqrstuvwxyz0123456789 .-') for _ in range(n))
    for rep in range(6 if not thorough else 60):
        la, lb, lm = r.choice([(5, 9, 12), (18, 1, 30), (70, 70, 60), (1, 70, 3), (33, 34, 35)])
        key = r.choice(['pconf', 'pconf', 'conf'])
        cfg = node(extra=' %s=%s,%s,%s' % (key, ctext(la).hex(), ctext(lb).hex(), ctext(lm).hex()))
        if rep % 3 == 2:
            # both configuration calls, in either order (the second one counts): SetConfigurationInformation makes a local copy that
            # SetProgmemConfigurationInformation has to let go of before a command writes a description (seed C07-21)
            cfg = node(extra=' conf=%s,%s,%s pconf=%s,%s,%s%s' % (ctext(la).hex(), ctext(lb).hex(), ctext(lm).hex(), ctext(lb or 1).hex(), ctext(la or 1).hex(), ctext(lm).hex(), r.choice([' cthenp=1', ' cthenp=1', ''])))
        blocks = [['M', iso_request(51, 22, 126998), 'P', 'T 3', 'P']]
        for _k in range(r.choice([1, 2, 3])):
            f = r.choice([1, 2])
            blocks.append(block(r, r.choice(['fp', 'tp']), 50, 22, gf_command(126998, 8, [(f, varstr(ctext(r.choice([0, 1, 20, 69, 70]))))])))
            blocks.append(['M', iso_request(51, 22, 126998), 'P', 'T 3', 'P'])
        blocks.append(block(r, 'fp', 52, 22, gf_request(126998)))
        cases.append(case(cfg, ops_of(blocks)))
    return cases


def gen(seed, tier):
    r = random.Random(seed * 7919 + 9)
    thorough = tier != 'quick'
    cases = []
    cfg1 = node()
    peers = [50, 51, 0, 251]

    # A. function codes x target PGNs x addressed/broadcast x carriage
    pg_all = DEDICATED + OTHER_TX + UNKNOWN + PROPRIETARY
    for how in ('fp', 'tp'):
        for dst in (22, 255):
            blocks = []
            for pgn in pg_all:
                for fc in range(0, 7):
                    if fc == 0:
                        p = gf_request(pgn)
                    elif fc == 1:
                        p = gf_command(pgn)
                    elif fc == 2:
                        p = gf_ack(pgn, r.randrange(7), r.randrange(5), [r.randrange(7) for _ in range(r.randrange(4))])
                    else:
                        p = gf_rw(fc, pgn, 1, [(1, [0])], [2] if fc in (3, 4) else [[2, 7]], manuf=(MANUF_CODE if pgn in PROPRIETARY else None))
                    blocks.append(block(r, how, r.choice(peers), dst, p))
            for fc in (7, 8, 100, 255):
                blocks.append(block(r, how, 50, dst, [fc] + le(60928, 3) + [0xff] * 7))
            step = 12
            for k in range(0, len(blocks), step):
                cases.append(case(cfg1, ops_of(blocks[k:k + step])))

    # B. selection fields of the four PGNs: matching, mismatching, unknown, truncated, repeated; addressed and broadcast
    st = fresh_state(1)
    for pgn in (60928, 126464, 126996, 126998):
        cur = field_values(pgn, 0, st)
        blocks = []
        for dst in (22, 255):
            for f, v in cur.items():
                blocks.append(block(r, 'fp', 50, dst, gf_request(pgn, pairs=[(f, v)])))
                blocks.append(block(r, 'fp', 50, dst, gf_request(pgn, pairs=[(f, wrong(r, v))])))
                blocks.append(block(r, 'fp', 50, dst, gf_request(pgn, pairs=[(f, v), (f, v)])))                      # repeated, both matching
                blocks.append(block(r, 'fp', 50, dst, gf_request(pgn, pairs=[(f, wrong(r, v)), (f, v)])))            # repeated, first mismatching
                blocks.append(block(r, 'fp', 50, dst, gf_request(pgn, pairs=[(f, v[:max(0, len(v) - 1)])])))        # truncated value
                blocks.append(block(r, 'fp', 50, dst, gf_request(pgn, pairs=[(f, v)], count=2)))                    # count beyond the data
                g = r.choice(list(cur))
                blocks.append(block(r, 'fp', 50, dst, gf_request(pgn, pairs=[(f, v), (g, cur[g])])))
                blocks.append(block(r, 'fp', 50, dst, gf_request(pgn, pairs=[(f, v), (g, wrong(r, cur[g]))])))
            for uf in (0, 11, 200, 255):
                blocks.append(block(r, 'fp', 50, dst, gf_request(pgn, pairs=[(uf, [1])])))
                f = r.choice(list(cur))
                blocks.append(block(r, 'fp', 50, dst, gf_request(pgn, pairs=[(f, cur[f]), (uf, [1]), (f, cur[f])])))
                blocks.append(block(r, 'fp', 50, dst, gf_request(pgn, pairs=[(uf, [1]), (f, cur[f])])))
            allf = [(f, v) for f, v in cur.items()]
            if sum(len(v) + 1 for f, v in allf) + 11 <= 223:
                blocks.append(block(r, 'fp', 50, dst, gf_request(pgn, pairs=allf)))
                blocks.append(block(r, 'tp', 50, dst, gf_request(pgn, pairs=allf)))
        if pgn == 126464:
            for v in (0, 1, 2, 255):
                blocks.append(block(r, 'fp', 50, 22, gf_request(pgn, pairs=[(1, [v])])))
        if pgn == 126998:
            for s in (b'', b'x', MANUF_INFO[:-1], MANUF_INFO + b'!', b'a' * 70, b'a' * 71):
                for typ in (1, 0, 2):
                    blocks.append(block(r, 'fp', 50, 22, gf_request(pgn, pairs=[(3, varstr(s if typ else bytes(sum(([c, 0] for c in s), [])), typ))])))
            blocks.append(block(r, 'fp', 50, 22, gf_request(pgn, pairs=[(1, [2])])))            # length byte only
            blocks.append(block(r, 'fp', 50, 22, gf_request(pgn, pairs=[(1, [0, 1])])))
            blocks.append(block(r, 'fp', 50, 22, gf_request(pgn, pairs=[(1, [1, 1])])))
            blocks.append(block(r, 'fp', 50, 22, gf_request(pgn, pairs=[(1, [255, 1, 65])])))
            blocks.append(block(r, 'fp', 50, 22, gf_request(pgn, pairs=[(3, [len(MANUF_INFO) + 9, 1] + list(MANUF_INFO))])))   # announced longer than the message
        step = 10
        for k in range(0, len(blocks), step):
            cases.append(case(cfg1, ops_of(blocks[k:k + step])))

    # C. transmission interval / offset over the ranges, for the heartbeat and for PGNs without interval support
    ivs = INTERVALS + [r.getrandbits(32) for _ in range(6 if not thorough else 200)] + [r.randrange(1000, 60001) for _ in range(4 if not thorough else 100)]
    offs = OFFSETS + [r.getrandbits(16) for _ in range(3 if not thorough else 100)] + [r.randrange(0, 6001) for _ in range(2 if not thorough else 50)]
    for pgn in (126993, 60928, 126996, 59392, 127250):
        blocks = []
        for iv in ivs:
            for off in (offs if pgn == 126993 else r.sample(offs, 3)):
                blocks.append(block(r, 'fp', 50, r.choice([22, 22, 255]), gf_request(pgn, iv, off), wait=(pgn == 60928)))
        step = 8
        for k in range(0, len(blocks), step):
            # heartbeat cases: leave the heartbeat on, read the new interval back from the forced heartbeat
            cases.append(case(node(extra=' hb=1') if pgn == 126993 else cfg1, ops_of(blocks[k:k + step])))
    for n in (1, 2, 255):
        cases.append(case(cfg1, ops_of([block(r, 'fp', 50, 22, gf_request(126993, 5000, 0xffff, [(1, [0])] * min(n, 2), count=n))])))

    # D. parameter pair counts 0..255 (count byte inconsistent with the data)
    counts = list(range(256)) if thorough else [0, 1, 2, 3, 4, 5, 15, 16, 17, 127, 128, 253, 254, 255] + r.sample(range(6, 253), 10)
    for pgn, fc in [(60928, 0), (60928, 1), (126998, 1), (126996, 0), (59392, 0), (127250, 1), (126996, 3), (127250, 5)]:
        blocks = []
        for n in counts:
            pairs = [(3, [r.randrange(8)])] * r.choice([0, 1, 2])
            if fc == 0:
                p = gf_request(pgn, pairs=pairs, count=n)
            elif fc == 1:
                p = gf_command(pgn, pairs=pairs, count=n)
            else:
                p = gf_rw(fc, pgn, 0, [], [], npar=n)
            blocks.append(block(r, 'fp', 50, 22, p, wait=(pgn == 60928)))
        for k in range(0, len(blocks), 12):
            cases.append(case(cfg1, ops_of(blocks[k:k + 12] + [['T 3', 'P']])))

    # E. command sequences with read-back
    for rep in range(4 if not thorough else 40):
        ndev = r.choice([1, 2, 3])
        src0 = r.choice([22, 100])
        cfg = node(ndev=ndev, src=src0, mode=r.choice([1, 2]))
        blocks = []
        for _ in range(6):
            i = r.randrange(ndev)
            me = own_addr(src0, i)
            y = r.random()
            if y < 0.45:
                pairs = [(f, [r.randrange(256)]) for f in r.sample([3, 4, 8, 3, 8, 5, 1], r.choice([1, 1, 2, 3]))]
                blocks.append(block(r, r.choice(['fp', 'fp', 'tp']), 50, me, gf_command(60928, r.choice([8, 8, 8, 9, 3]), pairs)))
                blocks.append(['M', iso_request(51, me, 60928), 'P', 'T 3', 'P'])
            elif y < 0.9:
                texts = [b'', b'engine room', b'port side, frame 12', bytes(r.randrange(32, 127) for _ in range(r.choice([1, 69, 70, 71, 100]))), 'bågen'.encode(), bytes([0xc3, 0xa4, 0x80, 0x41])]
                pairs = [(f, varstr(r.choice(texts), typ=r.choice([1, 1, 1, 0]))) for f in r.sample([1, 2, 1, 3], r.choice([1, 2]))]
                blocks.append(block(r, r.choice(['fp', 'tp']), 50, me, gf_command(126998, r.choice([8, 8, 9, 15, 2]), pairs)))
                blocks.append(['M', iso_request(51, me, 126998), 'P', 'T 3', 'P'])
                if r.random() < 0.5 and pairs[0][0] in (1, 2):
                    blocks.append(block(r, 'fp', 52, me, gf_request(126998, pairs=[pairs[0]])))
            else:
                blocks.append(block(r, 'fp', 50, me, gf_command(r.choice([126996, 126464, 126993, 59392, 127250, 65300]), 8, [(1, [1])])))
        cases.append(case(cfg, ops_of(blocks)))
    # E1b. a description longer than the 70 characters the library keeps, FOLLOWED by another pair in the same message: the reader must step over
    #      the whole string so that the next field number is read where it stands (seed C09-19)
    for L in ((71, 80) if not thorough else (71, 72, 80, 100, 150, 200)):
        long_ = bytes(65 + (k % 26) for k in range(L))
        blocks = [block(r, r.choice(['fp', 'tp']), 50, 22, gf_command(126998, 8, [(1, varstr(long_)), (2, varstr(b'STBD'))])), ['M', iso_request(51, 22, 126998), 'P', 'T 3', 'P'],
                  block(r, 'fp', 52, 22, gf_request(126998, pairs=[(2, varstr(b'STBD'))])),
                  block(r, 'fp', 52, 22, gf_request(126998, pairs=[(1, varstr(long_)), (2, varstr(b'STBD'))]))]
        cases.append(case(cfg1, ops_of(blocks)))
    # E2. installation descriptions in UCS-2 (type 0) whose UTF-8 form ends at / around the 70-byte limit of the library's field buffer with
    #     a 1-, 2- or 3-byte character: the conversion into the 71-byte buffer must cut on a character boundary and stay inside
    lasts = ['A', '\u00e4', '\u6c34']
    combos = [(n, c) for n in (66, 67, 68, 69, 70, 71) for c in lasts] + [(r.randrange(0, 80), r.choice(lasts)) for _ in range(4 if not thorough else 60)]
    for k in range(0, len(combos), 3):
        blocks = []
        for n, c in combos[k:k + 3]:
            fill = ''.join(r.choice(['x', 'y', '\u00f6', '\u6d77']) if r.random() < 0.15 else chr(r.randrange(65, 91)) for _ in range(n))
            # the ASCII-only variant puts the last character exactly at UTF-8 offset n
            txt = (fill if r.random() < 0.3 else 'Z' * n) + c + r.choice(['', '', 'tail', '\u6c34\u6c34'])
            f = r.choice([1, 2])
            blocks.append(block(r, r.choice(['fp', 'tp']), 50, 22, gf_command(126998, 8, [(f, varstr(txt.encode('utf-16-le'), typ=0))])))
            blocks.append(['M', iso_request(51, 22, 126998), 'P', 'T 3', 'P'])
        cases.append(case(cfg1, ops_of(blocks)))
    cases += conf_change_cases(r, thorough)
    cases += hb_per_device_cases(r, thorough)
    # E4. product information set by the application, strings of 1..32 characters (32 = the whole field): requests whose selection field
    #     equals the stored string, differs in the LAST character only, differs in the first, is a proper prefix / extension of it
    def ptext(n):
        return bytes(r.choice(b'ABCDEFGHIJKLMNOPQRSTUVWXYZabcdefghijklmnopqrstuvwxyz0123456789 .-') for _ in range(n))
    for rep in range(5 if not thorough else 50):
        lens = r.choice([(32, 32, 32, 32), (31, 32, 1, 16), (32, 5, 32, 8), (16, 32, 31, 32)])
        strs = [ptext(n) for n in lens]
        cfg = node(extra=' prod=%s' % ','.join(x.hex() for x in strs))
        blocks = [['M', iso_request(51, 22, 126996), 'P', 'T 3', 'P']]
        for f, cur in zip((3, 4, 5, 6), strs):
            last = bytes([cur[-1] ^ 1])
            variants = [cur, cur[:-1] + last, bytes([cur[0] ^ 1]) + cur[1:], cur[:-1], cur + b'x']
            for v in (variants if thorough else r.sample(variants, 3) + [cur[:-1] + last]):
                blocks.append(block(r, 'fp', 50, 22, gf_request(126996, pairs=[(f, fix32(v))])))
        for k in range(0, len(blocks), 8):
            cases.append(case(cfg, ops_of(blocks[k:k + 8])))
    # heartbeat: request then the periodic heartbeat states the interval
    for iv, off in [(1000, 0xffff), (5000, 100), (60000, 6000), (0xfffffffe, 0), (2500, 0)] + ([(r.randrange(1000, 60001), r.choice([0, 0xffff, r.randrange(6001)])) for _ in range(20)] if thorough else []):
        cases.append(case(node(extra=' hb=1'), ops_of([block(r, 'fp', 50, 22, gf_request(126993, iv, off), wait=False)]) + ['T %d' % (min(iv, 60000) + 7000), 'P', 'T %d' % min(iv, 60000), 'P']))

    # the behaviours listed as known findings, in cases of their own
    for prio in (3, 9):
        cases.append(case(cfg1, ops_of([block(r, 'fp', 50, 22, gf_command(60928, prio, [(3, [6]), (8, [9])])), ['M', iso_request(51, 22, 60928), 'P', 'T 3', 'P']])))
    cases.append(case(cfg1, ops_of([block(r, 'fp', 50, 22, gf_command(126998, 2, [(1, varstr(b'bilge'))])), ['M', iso_request(51, 22, 126998), 'P', 'T 3', 'P']])))
    cases.append(case(cfg1, ops_of([block(r, 'fp', 50, 22, gf_command(126998, 8, [(1, varstr(b'bilge'))])), ['M', iso_request(51, 22, 126998), 'P', 'T 3', 'P'],
                                    block(r, 'fp', 50, 22, gf_command(126998, 8, [(1, [9, 1, 65, 66])])), ['M', iso_request(51, 22, 126998), 'P', 'T 3', 'P']])))
    cases.append(case(cfg1, ops_of([block(r, 'fp', 50, 22, gf_command(60928, 8, [(3, [])], count=1)), ['M', iso_request(51, 22, 60928), 'P', 'T 3', 'P']])))
    for pgn in (126996, 126464, 59392):
        cases.append(case(cfg1, ops_of([block(r, 'fp', 50, 22, gf_command(pgn, 8, [(1, [1])]))])))

    # a node for which the application configured no configuration information at all: refused until a description is commanded
    for how in ('fp', 'tp'):
        cases.append(case(node(extra=' noconf=1'), ops_of([
            block(r, how, 50, 22, gf_request(126998)), block(r, how, 50, 255, gf_request(126998)), ['M', iso_request(51, 22, 126998), 'P', 'T 3', 'P'],
            block(r, how, 50, 22, gf_request(126998, pairs=[(1, varstr(b''))])), block(r, how, 50, 22, gf_request(126998, pairs=[(3, varstr(MANUF_INFO))])),
            block(r, how, 50, 22, gf_command(126998, 8, [(2, varstr(b'aft locker'))])), ['M', iso_request(51, 22, 126998), 'P', 'T 3', 'P'],
            block(r, how, 50, 22, gf_request(126998, pairs=[(2, varstr(b'aft locker')), (3, varstr(b''))]))])))

    # F. modes, multi-device nodes, broadcast requests
    for mode in (0, 1, 2, 3, 4):
        for ndev in (1, 3):
            cfg = node(mode=mode, ndev=ndev, src=30)
            blocks = []
            for pgn in (60928, 126464, 126996, 126998, 126993, 59392, 127250):
                blocks.append(block(r, 'fp', 50, r.choice([30 + ndev - 1, 255]), gf_request(pgn)))
            blocks.append(block(r, 'fp', 50, 30, gf_command(60928, 8, [(3, [4])])))
            blocks.append(block(r, 'fp', 50, 255, gf_request(60928, pairs=[(1, le(2, 3))])))   # unique number of device 1 only
            cases.append(case(cfg, ops_of(blocks)))

    # F2. multi-device nodes whose devices declare DIFFERENT transmit lists: a request addressed to device k for a PGN without a dedicated
    #     handler is acknowledged with "temporarily not available" (2) when it is on k's list and "not supported" (1) otherwise (seed C09-10)
    for ndev in (2, 3):
        lists = [[127488, 129029], [130306, 127250, 127488 if ndev == 3 else 128267], [128267, 129029]][:ndev]
        extra = ''.join(' tx%d=%s' % (i, ','.join(str(p) for p in l)) for i, l in enumerate(lists))
        cfg = node(ndev=ndev, src=30, extra=extra)
        blocks = []
        for k in range(ndev):
            for pgn in (127488, 129029, 130306, 127250, 128267, 127505):
                blocks.append(block(r, r.choice(['fp', 'fp', 'tp']), r.choice(peers), 30 + k, gf_request(pgn)))
        r.shuffle(blocks)
        for k in range(0, len(blocks), 9):
            cases.append(case(cfg, ops_of(blocks[k:k + 9])))

    # F3. a request for 60928 (answered by an address claim that the library delays by 2 ms) while an ISO-TP transmission of the same device
    #     is open and ends - by the peer's EndOfMsgAck / Abort, or with the last BAM packet - before the claim has gone out: the claim must
    #     still be sent (seed C09-14: the "something is pending" flag cleared by the end of the transfer)
    from nodegen import tp_cm
    for _ in range(8 if not thorough else 120):
        src = r.choice([22, 100])
        cfg = node(src=src)
        data = bytes(r.randrange(256) for _ in range(r.choice([9, 14, 20]))).hex()
        rq = block(r, 'fp', 51, src, gf_request(60928), wait=False)        # ['M', R, R, 'P']
        kind = r.choice(['ack', 'abort', 'bam'])
        if kind == 'bam':
            ops = ['S 0 6 130816 15 255 1 %s' % data, 'T 51', 'P', 'T 51'] + ['' if o == 'M' else o for o in rq[:-1]] + ['P', 'T 51', 'P', 'T 3', 'P', 'T 60', 'P', 'T 3', 'P']
        else:
            npk = (len(data) // 2 + 6) // 7
            end = tp_cm(50, src, 19, len(data) // 2, 0, npk, 255, 130816) if kind == 'ack' else tp_cm(50, src, 255, 1, 255, 255, 255, 130816)
            ops = ['S 0 6 130816 15 50 1 %s' % data, tp_cm(50, src, 17, npk, 1, 255, 255, 130816), 'P', 'T 1'] + ['' if o == 'M' else o for o in rq[:-1]] + [end, 'P', 'T 3', 'P', 'T 3', 'P']
        cases.append(case(cfg, ops))

    # G. random structured messages (shared with the correspondence fuzz)
    for _ in range(40 if not thorough else 1500):
        ndev = r.choice([1, 1, 2])
        cfg = node(ndev=ndev, src=22, mode=r.choice([1, 1, 2]))
        blocks = []
        for _k in range(5):
            blocks.append(block(r, r.choice(['fp', 'fp', 'tp']), r.choice(peers), r.choice([22, 22, 22 + ndev - 1, 255]), rand_gf(r)))
        cases.append(case(cfg, ops_of(blocks)))
    return cases


def retry_cases(r, thorough):
    """H. the answer to a request group function for 126996 / 126998 cannot be sent (driver blocked, send buffer too small to hold it); it is
    repeated 187 + 8 (10) x address ms later; the bus stays blocked across the first `fails` repeats and is released before the next one:
    exactly one complete answer must appear (seed C09-11: the retry was given up after one failed repeat)"""
    cases = []
    for _ in range(10 if not thorough else 120):
        src = r.choice([0, 3, 22, 25, 60])
        pgn = r.choice([126996, 126998])
        per = 187 + (8 if pgn == 126996 else 10) * src
        fails = r.choice([0, 1, 1, 2, 3])
        cfg = node(src=src, q=r.choice([3, 8, 12]))
        ops = ['A ' + '0' * 400] + ['' if o == 'M' else o for o in block(r, 'fp', 50, src, gf_request(pgn), wait=False)]
        for _k in range(fails):
            ops += ['T %d' % (per + 2), 'P']
        ops += ['T %d' % r.choice([1, per // 2]), 'A', 'T %d' % (per + 2), 'P', 'T %d' % (per + 2), 'P', 'T 3000', 'P', 'P']
        cases.append(case(cfg, ops))
    return cases


def retry_oracle(case_line, res):
    if res.startswith('crash') or res.startswith('oob'):
        return 'memory:' + res
    cfg, ops = parse_case(case_line)
    per_op, _state = parse_result(res)
    evs = [e for k, g in enumerate(per_op) for e in g if e[0] == 'tx' and e[4]]
    msgs, err = tx_messages(evs)
    want = None
    for o in ops:
        if o and o[0] == 'R':
            want = want or None
    # the requested PGN is the one named in the request group function (bytes 1..3 of its payload = frame 0 data bytes 3..5)
    rq = [o for o in ops if o and o[0] == 'R']
    d = bytes.fromhex(rq[0][3])
    pgn = d[3] | d[4] << 8 | d[5] << 16
    if msgs is None:
        # frames of an answer that was cut by the blocked bus precede the complete one: count complete answers by their frame sequence instead
        msgs = []
    n = 0
    cur = None
    for e in evs:
        cid, data = e[1], e[3]
        p = (cid >> 8) & 0x3ffff if ((cid >> 16) & 0xff) >= 240 else (cid >> 8) & 0x3ff00
        if p != pgn:
            continue
        if data[0] & 0x1f == 0:
            cur = [data[1], 6, data[0] >> 5, 0]
        elif cur is not None and (data[0] >> 5) == cur[2] and (data[0] & 0x1f) == cur[3] + 1:
            cur[1] += 7; cur[3] += 1
        else:
            cur = None
        if cur is not None and cur[1] >= cur[0]:
            n += 1
            cur = None
    if n != 1:
        return 'retry:%d complete answer(s) with PGN %d reached the bus after the driver accepted frames again, the property requires exactly one' % (n, pgn)
    return None


def rand_pairs(r, pgn):
    pairs = []
    st = fresh_state(1)
    cur = field_values(pgn, 0, st)
    for _ in range(r.choice([0, 0, 1, 1, 2, 3, 5])):
        f = r.choice([1, 2, 3, 4, 5, 6, 7, 8, 9, 10, 11, 0, 255, r.randrange(256)])
        y = r.random()
        if y < 0.4 and f in cur:
            v = cur[f] if r.random() < 0.7 else wrong(r, cur[f])
        elif y < 0.55:
            v = bytes(r.randrange(256) for _ in range(r.choice([0, 1, 2, 3, 4, 32])))
        elif y < 0.75:
            s = r.choice([b'', MANUF_INFO, b'abc', bytes(r.randrange(1, 255) for _ in range(r.randrange(0, 80))), 'ä€x'.encode()])
            v = varstr(s[:250], typ=r.choice([1, 1, 1, 0, 2]))
        elif y < 0.85:
            v = varstr(bytes(r.randrange(256) for _ in range(2 * r.randrange(0, 40))), typ=0)
        else:
            v = [r.choice([0, 1, 2, 5, 7, 0x82, 25, 4, 255, r.randrange(256)])]
        pairs.append((f, list(v)))
    return pairs


def rand_gf(r):
    pgn = r.choice(DEDICATED * 3 + OTHER_TX + UNKNOWN + PROPRIETARY + [r.randrange(1 << 24)])
    fc = r.choice([0, 0, 0, 0, 1, 1, 1, 2, 3, 4, 5, 6, 7, 8, 100, 255])
    pairs = rand_pairs(r, pgn)
    cnt = None if r.random() < 0.8 else r.choice([0, 1, 2, 3, 100, 254, 255])
    if fc == 0:
        p = gf_request(pgn, r.choice(INTERVALS[:3] * 3 + INTERVALS + [r.getrandbits(32)]), r.choice(OFFSETS[:2] * 4 + OFFSETS + [r.getrandbits(16)]), pairs, cnt)
    elif fc == 1:
        p = gf_command(pgn, r.choice([8, 8, 8, 9, 15, 0, 3, 7]), pairs, cnt, reserved=r.choice([15, 0]))
    elif fc == 2:
        p = gf_ack(pgn, r.randrange(16), r.randrange(16), [r.randrange(16) for _ in range(r.randrange(5))])
    elif fc in (3, 4, 5, 6):
        p = gf_rw(fc, pgn, r.randrange(256), pairs, [r.randrange(256) for _ in range(r.randrange(4))], manuf=(r.randrange(2048) if r.random() < 0.4 else None))
    else:
        p = [fc] + [r.randrange(256) for _ in range(r.randrange(0, 20))]
    y = r.random()
    if y < 0.15:
        p = p[:r.randrange(0, len(p) + 1)]
    elif y < 0.2:
        p = p + [r.randrange(256) for _ in range(r.randrange(1, 30))]
    return p[:223]


# ------------------------------------------------------------------------------------------------ oracle
def tp_ok(interval, offset, limits=None):
    """is the requested transmission interval / offset one the library documents as acceptable for this PGN"""
    iok = interval in (0xffffffff, 0xfffffffe, 0) or (limits is not None and limits[0] <= interval <= limits[1])
    ook = offset in (0xffff, 0) or (limits is not None and offset <= limits[2])
    return iok and ook


def read_var(d, k):
    """reference reader of a variable length string field at d[k:]: (text bytes | None, next index, why None: 'malformed' (cut off, impossible
    length or type) or 'undecided' (the reference does not say what a device stores: longer than a description, NUL / 0xff / surrogates inside))"""
    if k + 2 > len(d):
        return None, len(d), 'malformed'
    ln, typ = d[k], d[k + 1]
    if ln < 2 or typ > 1 or k + ln > len(d) or ln == 255:
        return None, len(d), 'malformed'
    body = bytes(d[k + 2:k + ln])
    if typ == 0:
        if len(body) % 2:
            return None, k + ln, 'undecided'
        try:
            txt = body.decode('utf-16-le')
        except UnicodeDecodeError:
            return None, k + ln, 'undecided'
        if any(0xd800 <= ord(c) < 0xe000 for c in txt) or '\0' in txt:
            return None, k + ln, 'undecided'
        body = txt.encode('utf-8')
    if 0 in body or 255 in body or len(body) > 70:
        return None, k + ln, 'undecided'
    return body, k + ln, ''


def decode_pairs(d, k, n, table):
    """-> list of (field, value bytes | text | None) for the pairs that could be decoded, status 'clean' | 'unknown' | 'truncated'"""
    out = []
    for _ in range(n):
        if k >= len(d):
            return out, 'truncated'
        f = d[k]
        k += 1
        if f not in table:
            out.append((f, None))
            return out, 'unknown'
        sz = table[f]
        if sz == 'var':
            v, k2, why = read_var(d, k)
            if v is None:
                return out, ('truncated' if why == 'malformed' else 'undecided')
            out.append((f, v))
            k = k2
        else:
            if k + sz > len(d):
                return out, 'truncated'
            out.append((f, list(d[k:k + sz])))
            k += sz
    return out, ('clean' if k == len(d) else 'trailing')


def matches(pgn, f, v, idev, st):
    cur = field_values(pgn, idev, st)
    if pgn == 60928:
        if f in (6, 10):
            return True            # reserved fields select nothing
        masks = {1: 0x1fffff, 2: 0x7ff, 3: 7, 4: 0x1f, 5: 0xff, 7: 0x7f, 8: 0xf, 9: 7}
        val = sum(b << (8 * k) for k, b in enumerate(v)) & masks[f]
        return val == sum(b << (8 * k) for k, b in enumerate(cur[f]))
    if pgn == 126464:
        return v[0] in (0, 1)
    if pgn == 126996 and f in (3, 4, 5, 6):
        def txt(b):
            b = bytes(b)
            for stop in (0, 255):
                if stop in b:
                    b = b[:b.index(stop)]
            return b
        return txt(v) == txt(cur[f])
    if pgn == 126998:
        return bytes(v) == bytes(cur[f][2:])
    return list(v) == list(cur[f])


def is_tx(pgn, cfg, idev):
    return pgn in DEF_TX or pgn in cfg.get('tx%d' % idev, [])


def expect(d, dst, tp, idev, cfg, st, tainted=()):
    """what the property + the documented error codes demand for message d addressed to (or broadcast reaching) device idev.
    -> dict kind: 'none' | 'pgn' | 'ack' | 'one' (exactly one answer, not decidable which) ; for 'ack': pgn, n, pgnec, tpec, codes (list, None = unchecked)
    and 'effect': function applied to the reference state when the command must take effect"""
    bc = dst == 255
    if len(d) < 1:
        return {'kind': 'none'}
    fc = d[0]
    if fc in (2, 4, 6) or fc > 6:
        return {'kind': 'none'}
    if bc and fc != 0:
        return {'kind': 'none'}
    hdr = {0: 11, 1: 6}.get(fc, 7)
    if len(d) < 4:
        return {'kind': 'none' if bc else 'one'}
    pgn = d[1] | d[2] << 8 | d[3] << 16
    if fc in (3, 5):
        if pgn in PROPRIETARY or pgn == 126720 or 130816 <= pgn <= 131071 or pgn == 61184 or 65280 <= pgn <= 65535:
            hdr = 9
        if len(d) < hdr:
            return {'kind': 'one', 'pgn': pgn}
        return {'kind': 'ack', 'pgn': pgn, 'n': d[hdr - 1], 'pgnec': 6 if is_tx(pgn, cfg, idev) else 1, 'tpec': 0, 'codes': [0] * d[hdr - 1]}
    if len(d) < hdr:
        return {'kind': 'maybe-pgn' if bc else 'one', 'pgn': pgn}
    if fc == 0:
        interval = d[4] | d[5] << 8 | d[6] << 16 | d[7] << 24
        offset = d[8] | d[9] << 8
        n = d[10]
        if pgn == 126993:
            ok = tp_ok(interval, offset, (1000, 60000, 6000)) and interval != 0
            if n > 0:
                return {'kind': 'none'} if bc else {'kind': 'ack', 'pgn': pgn, 'n': n, 'pgnec': 0, 'tpec': 0 if ok else 1, 'codes': [5] * n}
            if interval == 0xffffffff and offset == 0xffff:
                return {'kind': 'none'} if bc else {'kind': 'ack', 'pgn': pgn, 'n': 0, 'pgnec': 2, 'tpec': 0, 'codes': []}
            if not ok:
                return {'kind': 'none'} if bc else {'kind': 'ack', 'pgn': pgn, 'n': 0, 'pgnec': 0, 'tpec': 1, 'codes': []}

            def eff(st, idev=idev, interval=interval):
                st['hb'][idev] = st['hb'][idev] if interval == 0xffffffff else 60000 if interval == 0xfffffffe else interval
            return {'kind': 'pgn', 'pgn': pgn, 'effect': eff}
        if pgn not in REQ_FIELDS:
            if bc:
                return {'kind': 'none'}
            ok = tp_ok(interval, offset)
            if not is_tx(pgn, cfg, idev):
                return {'kind': 'ack', 'pgn': pgn, 'n': n, 'pgnec': 1, 'tpec': 0, 'codes': [0] * n}
            return {'kind': 'ack', 'pgn': pgn, 'n': n, 'pgnec': 2 if ok else 0, 'tpec': 0 if ok else 1, 'codes': [0] * n}
        pairs, status = decode_pairs(d, 11, n, REQ_FIELDS[pgn])
        ok = tp_ok(interval, offset)
        if n > 0 and ((pgn == 126998 and 'conf' in tainted) or (pgn == 60928 and ('dev', idev) in tainted)):
            return {'kind': 'maybe-pgn' if bc else 'one', 'pgn': pgn}       # the reference lost track of the current values
        codes = []
        allmatch = True
        for f, v in pairs:
            if v is None:
                codes.append(1)
                allmatch = False
            else:
                m = matches(pgn, f, v, idev, st)
                codes.append(0 if m else 3)
                allmatch = allmatch and m
        if status == 'unknown':
            codes += [2] * (n - len(codes))
        elif status in ('truncated', 'undecided'):
            codes += [None] * (n - len(codes))
        if status in ('clean', 'trailing') and allmatch and ok:
            return {'kind': 'pgn', 'pgn': pgn}
        if bc:
            # a broadcast request that does not select this device is ignored; undecidable (truncated) ones may be answered by the PGN
            return {'kind': 'none'} if (not allmatch or not ok or status == 'unknown') else {'kind': 'maybe-pgn', 'pgn': pgn}
        if status in ('truncated', 'undecided') and allmatch and ok:
            return {'kind': 'one', 'pgn': pgn, 'n': n}
        return {'kind': 'ack', 'pgn': pgn, 'n': n, 'pgnec': 0, 'tpec': 0 if ok else 1, 'codes': codes}
    # command, addressed
    prio = d[4] & 15
    n = d[5]
    if pgn == 126993:
        return {'kind': 'ack', 'pgn': pgn, 'n': n, 'pgnec': 1, 'tpec': 0 if prio in (8, 9, 15) else 1, 'codes': [0] * n}
    if pgn not in CMD_FIELDS:
        # the library cannot execute commands for this PGN: the Acknowledge has to say so somewhere ('unsupported' = some code must be non-zero)
        return {'kind': 'ack', 'pgn': pgn, 'n': n, 'pgnec': 0 if is_tx(pgn, cfg, idev) else 1, 'tpec': 0 if prio in (8, 9, 15) else 1, 'codes': [0] * n,
                'unsupported': is_tx(pgn, cfg, idev) and prio in (8, 9, 15)}
    pairs, status = decode_pairs(d, 6, n, CMD_FIELDS[pgn])
    codes = [1 if v is None else 0 for f, v in pairs] + [None] * (n - len(pairs))
    tpec = (0 if prio == 8 else 1) if pgn == 60928 else (0 if prio in (8, 9, 15) else 1)
    res = {'kind': 'ack', 'pgn': pgn, 'n': n, 'pgnec': 0, 'tpec': tpec, 'codes': codes}
    if status == 'truncated' and len(pairs) < n and 6 + sum(1 + (len(v) if isinstance(v, list) else len(v) + 2) for f, v in pairs) < len(d):
        res['must_fail'] = len(pairs)          # a parameter whose field number is present but whose value is cut / malformed cannot be "accepted"
    if status in ('clean', 'trailing'):
        def eff(st, idev=idev, pairs=pairs, pgn=pgn):
            for f, v in pairs:
                if pgn == 60928:
                    if f == 3:
                        st['devinst'][idev] = (st['devinst'][idev] & ~7) | (v[0] & 7)
                    elif f == 4:
                        st['devinst'][idev] = (st['devinst'][idev] & 7) | (v[0] & 0x1f) << 3
                    else:
                        st['sysinst'][idev] = v[0] & 15
                else:
                    st['d1' if f == 1 else 'd2'] = bytes(v)
                    st['noconf'] = False
        if tpec == 0:
            res['effect'] = eff
        else:
            res['refused_effect'] = eff    # a command refused for its priority setting must leave the values alone
    else:
        res['taint'] = True       # the reference does not say what a partly understood command leaves behind
    return res


def tx_messages(evs):
    """driver frames of one segment -> list of (pgn, src, dst, payload | None, via) in sending order"""
    msgs = []
    open_fp = {}
    for e in evs:
        if e[0] != 'tx':
            continue
        cid, ln, data = e[1], e[2], e[3]
        pf = (cid >> 16) & 0xff
        pgn = (cid >> 8) & 0x3ff00 if pf < 240 else (cid >> 8) & 0x3ffff
        dst = (cid >> 8) & 0xff if pf < 240 else 255
        src = cid & 0xff
        if pgn == 60416:
            if data and data[0] in (16, 32):
                msgs.append((data[5] | data[6] << 8 | data[7] << 16, src, dst, None, 'tp'))
            continue
        if pgn == 60160:
            continue
        if pgn in FAST:
            key = (pgn, src, dst)
            if data[0] & 0x1f == 0:
                open_fp[key] = [data]
                msgs.append([pgn, src, dst, open_fp[key], 'fp'])
            elif key in open_fp:
                open_fp[key].append(data)
            else:
                msgs.append([pgn, src, dst, [data], 'fp-orphan'])
            continue
        msgs.append((pgn, src, dst, list(data[:ln]), 'single'))
    out = []
    for m in msgs:
        if m[4] == 'fp':
            try:
                sid, payload = ref_fp_decode(m[3])
            except (ValueError, IndexError) as ex:
                return None, 'fast packet answer malformed: %s' % ex
            out.append((m[0], m[1], m[2], payload, 'fp'))
        elif m[4] == 'fp-orphan':
            return None, 'fast packet continuation frame without first frame'
        else:
            out.append(tuple(m))
    return out, None


def reassemble_rx(seg_ops):
    """the complete PGN 126208 message a segment delivers to the node: (src, dst, payload, tp) or None"""
    fp = None
    tp = None
    for o in seg_ops:
        if not o or o[0] != 'R':
            continue
        cid, ln, data = int(o[1], 16), int(o[2]), list(bytes.fromhex(o[3]))
        pf = (cid >> 16) & 0xff
        pgn = (cid >> 8) & 0x3ff00 if pf < 240 else (cid >> 8) & 0x3ffff
        dst = (cid >> 8) & 0xff if pf < 240 else 255
        src = cid & 0xff
        if pgn == GF:
            if data[0] & 0x1f == 0:
                fp = [src, dst, data[1], data[2:ln]]
            elif fp is not None:
                fp[3] += data[1:ln]
        elif pgn == 60416 and data[0] in (16, 32) and (data[5] | data[6] << 8 | data[7] << 16) == GF:
            tp = [src, dst, data[1] | data[2] << 8, []]
        elif pgn == 60160 and tp is not None:
            tp[3] += data[1:ln]
    if fp is not None and len(fp[3]) >= fp[2]:
        return fp[0], fp[1], fp[3][:fp[2]], False
    if tp is not None and len(tp[3]) >= tp[2]:
        return tp[0], tp[1], tp[3][:tp[2]], True
    return None


def oracle(case, res):
    if res.startswith('crash'):
        return 'memory:' + res
    cfg, ops = parse_case(case)
    per_op, state = parse_result(res)
    if any(o and o[0] in ('A', 'S', 'C', 'H', 'F') for o in ops) or cfg.get('cold') or cfg.get('q', 40) < 40:
        return None               # the property's premises (accepting driver, room in the queue, claimed addresses) are the generator's business
    ndev, src0, mode = cfg['ndev'], cfg['src'], cfg['mode']
    own = [own_addr(src0, i) for i in range(ndev)]
    st = fresh_state(ndev, bool(cfg.get('noconf')))
    if cfg.get('prod'):                               # product strings set by the application (cut to 32 characters)
        st['prod'] = tuple(bytes.fromhex(x)[:32] if x != '-' else b'' for x in cfg['prod'].split(','))
    if cfg.get('pconf') or cfg.get('conf'):          # configuration strings set by the application (installation descriptions 1, 2, manufacturer information)
        # both calls made: the later one counts (conf, or - with cthenp=1 - the constant strings of pconf)
        eff = cfg.get('pconf') if (cfg.get('pconf') and (cfg.get('cthenp') == 1 or not cfg.get('conf'))) else cfg.get('conf')
        a, b, m = [bytes.fromhex(x)[:70] if x != '-' else b'' for x in eff.split(',')]
        st['d1'], st['d2'], st['manuf'] = a, b, m
    tainted = set()
    soft = []                      # failures that are listed known findings: recorded, the implementation's behaviour is adopted, checking goes on
    alts = []                      # reference states in which a refused command has been applied after all
    # segments: an empty op (the generator's marker) starts a new message block
    segs = []
    for k, o in enumerate(ops):
        if not o:
            segs.append([])
        elif segs:
            segs[-1].append(k)
    for seg in segs:
        sops = [ops[k] for k in seg]
        evs = [e for k in seg if k < len(per_op) for e in per_op[k]]
        msgs, err = tx_messages(evs)
        if msgs is None:
            return 'framing:' + err
        isoreq = [o for o in sops if o[0] == 'R' and ((int(o[1], 16) >> 8) & 0x3ff00) == 59904]
        m = reassemble_rx(sops)
        src, dst, d, tp = m if (m is not None and not isoreq) else (0, 0, [], False)
        if m is not None and not isoreq and mode not in (1, 2):
            if any(p == GF or p in REQ_FIELDS for p, *_ in msgs):
                return 'mode:node in mode %d answered a group function' % mode
        targets = list(range(ndev)) if dst == 255 else ([own.index(dst)] if dst in own else [])
        if m is None or isoreq or mode not in (1, 2):
            targets = []
        for i in targets:
            ex = expect(d, dst, tp, i, cfg, st, tainted)
            mine = [x for x in msgs if x[1] == own[i]]
            acks = [x for x in mine if x[0] == GF]
            if any(x[3] is not None and x[3][:1] != [FC_ACK] for x in acks):
                return 'answer:device %d sent a group function other than Acknowledge' % i
            what = 'fc %d pgn %s to %s' % (d[0] if d else -1, (d[1] | d[2] << 8 | d[3] << 16) if len(d) > 3 else '?', 'device %d' % i if dst != 255 else 'all (device %d)' % i)
            if ex['kind'] == 'none':
                if acks or any(x[0] in (126464, 126996, 126998, 126993) for x in mine) or (any(x[0] == 60928 for x in mine) and ('dev', i) not in tainted and not isoreq):
                    return 'silence:%s must not be answered, device sent %s' % (what, [(x[0], x[2]) for x in mine])
                continue
            want_dst = src
            for x in acks:
                if x[2] != want_dst:
                    return 'requester:Acknowledge for %s went to %d instead of the requester %d' % (what, x[2], want_dst)
            served = [x for x in mine if x[0] == ex.get('pgn') and x[0] != GF]
            if st.get('noconf') and ex.get('pgn') == 126998:
                served = [x for x in mine if x[0] == 59392 and (x[3] is None or (x[3][0] == 1 and x[3][5:8] == le(126998, 3)))]
            if ex['kind'] == 'pgn':
                if acks:
                    return 'match:%s selects the device and asks for a served PGN but was refused with Acknowledge %s' % (what, bytes(acks[0][3]).hex())
                if not served:
                    return 'match:%s selects the device but PGN %d was not sent' % (what, ex['pgn'])
                if 'effect' in ex:
                    ex['effect'](st)
                    # the forced heartbeat already states the new interval
                    hb = [x for x in served if x[0] == 126993]
                    if hb and hb[0][3][:2] != le(st['hb'][i] // 10, 2):
                        return 'readback-126993:heartbeat after the request states %d x 10 ms, requested %d ms' % (hb[0][3][0] | hb[0][3][1] << 8, st['hb'][i])
                continue
            if ex['kind'] == 'maybe-pgn':
                if acks:
                    return 'silence:broadcast %s answered by Acknowledge' % what
                continue
            if ex['kind'] == 'one':
                if len(acks) + (1 if served and d[0] == FC_REQUEST else 0) != 1:
                    return 'one-answer:%s needs exactly one answer, got %d Acknowledge(s) and %d message(s) of the PGN' % (what, len(acks), len(served))
                continue
            # 'ack'
            if served and d[0] == FC_REQUEST:
                return 'nomatch:%s must be refused but PGN %d was sent' % (what, ex['pgn'])
            if len(acks) != 1:
                return 'one-answer:%s needs exactly one Acknowledge, got %d' % (what, len(acks))
            a = parse_ack(acks[0][3]) if acks[0][3] is not None else None
            if a is None:
                return 'ack-layout:Acknowledge %s does not follow the layout (count, nibble packing, padding)' % bytes(acks[0][3] or []).hex()
            if a['pgn'] != ex['pgn'] or a['n'] != ex['n']:
                return 'echo:Acknowledge for %s echoes PGN %d and %d parameters, request had %d' % (what, a['pgn'], a['n'], ex['n'])
            if a['pgnec'] != ex['pgnec']:
                return 'pgn-code:%s acknowledged with PGN error code %d, documented %d' % (what, a['pgnec'], ex['pgnec'])
            if a['tpec'] != ex['tpec']:
                return 'tp-code:%s acknowledged with transmission/priority error code %d, documented %d' % (what, a['tpec'], ex['tpec'])
            for k, (got, want) in enumerate(zip(a['codes'], ex['codes'])):
                if want is not None and got != want:
                    return 'param-code:%s parameter %d acknowledged with code %d, documented %d' % (what, k + 1, got, want)
            if ex.get('unsupported') and a['pgnec'] == 0 and a['tpec'] == 0 and not any(a['codes']):
                w = 'command-unsupported-acked:%s cannot be executed by the library but the Acknowledge reports no error at all' % what
                if not is_known(w):
                    return w
                soft.append(w)
            if 'must_fail' in ex and ex['must_fail'] < len(a['codes']) and a['codes'][ex['must_fail']] == 0:
                w = 'invalid-value-accepted:%s parameter %d has a cut or malformed value but is acknowledged as accepted' % (what, ex['must_fail'] + 1)
                if not is_known(w):
                    return w
                soft.append(w)
            if 'effect' in ex:
                ex['effect'](st)
            if 'refused_effect' in ex:
                alt = copy.deepcopy(st)
                ex['refused_effect'](alt)
                alts.append((alt, what))
            if ex.get('taint'):
                tainted.add(('dev', i))
                tainted.add('conf')
        # read back: claims / configuration information / heartbeats of this segment must state the reference values
        for pgn, src, dst, payload, via in msgs:
            if src not in own:
                return 'source:answer from address %d which is not one of ours' % src
            i = own.index(src)
            if pgn == 60928 and via == 'single' and ('dev', i) not in tainted:
                want = ref_name(i, st['devinst'][i], st['sysinst'][i])
                if payload != le(want, 8):
                    hit = [(a, w) for a, w in alts if payload == le(ref_name(i, a['devinst'][i], a['sysinst'][i]), 8)]
                    if hit:
                        w = 'refused-applied:%s was refused (priority setting not supported) but the address claim carries the commanded instances' % hit[-1][1]
                        if not is_known(w):
                            return w
                        soft.append(w)
                        st = hit[-1][0]
                        alts = []
                        continue
                    return 'readback-60928:address claim of device %d carries NAME %s, the commanded instances give %016x' % (i, bytes(payload[::-1]).hex(), want)
            if pgn == 126998 and via == 'fp' and 'conf' not in tainted:
                want = ref_confinfo(st['d1'], st['d2'], st['manuf'])
                if payload != want and not any(b >= 0x80 for b in st['d1'] + st['d2']):
                    hit = [(a, w) for a, w in alts if payload == ref_confinfo(a['d1'], a['d2'], a['manuf'])]
                    if hit:
                        w = 'refused-applied:%s was refused (priority setting not supported) but the configuration information carries the commanded text' % hit[-1][1]
                        if not is_known(w):
                            return w
                        soft.append(w)
                        st = hit[-1][0]
                        alts = []
                        continue
                    if any(b >= 0x80 for a, w in alts for b in a['d1'] + a['d2']):
                        tainted.add('conf')        # a refused command with non-ASCII text may have been applied: the reference cannot tell the payload
                        continue
                    return 'readback-126998:configuration information %s, the commanded descriptions give %s' % (bytes(payload).hex(), bytes(want).hex())
            if pgn == 126993 and ('hb', i) not in tainted:
                if mode in (1, 2) and payload[:2] != le(st['hb'][i] // 10, 2):
                    return 'readback-126993:heartbeat of device %d states interval %d x 10 ms, requested %d ms' % (i, payload[0] | payload[1] << 8, st['hb'][i])
    return soft[0] if soft else None


PENDING_KNOWN = {
    # oracle key -> (finding key, text): behaviour the property text does not allow but which is not repaired
    'refused-applied': ('C09-refused-command-applied',
                        'a Command (PGN 60928 / 126998) whose priority setting is refused (Acknowledge: transmit interval or priority not supported) '
                        'still changes the instances / installation descriptions'),
    'invalid-value-accepted': ('C09-command-invalid-value-accepted',
                               'a Command parameter whose value is cut off or malformed (126998: invalid variable string clears the description; 60928: missing byte is read '
                               'as 0xff) is applied and acknowledged with parameter error code 0'),
    'command-unsupported-acked': ('C09-command-unsupported-acked',
                                  'the default handler acknowledges a Command for a transmit PGN it cannot execute (e.g. 126996, 126464, 59392) with PGN, priority and all '
                                  'parameter error codes 0'),
}


def is_known(what):
    return known(None, what) is not None


def known(case, what):
    for k in vlib.known_findings('C09'):
        if what.startswith(k['key']):
            return k['line']
    for p, (key, text) in PENDING_KNOWN.items():
        if what.startswith(p):
            return '%s: %s' % (key, text)
    return None


def nontrivial(case, mres):
    return 'tx:' in mres


def check(run, replay=None):
    cases = vlib.read_replay(replay) if replay else vlib.corpus_lines('C09') + gen(run.seed, run.tier)
    run.cov['rule'] = ('per case one opened node (modes 0..4, 1..3 devices) and a list of complete PGN 126208 messages: 7 function codes (+ codes 7, 8, 100, 255) x target PGNs (60928, 126464, 126993, '
                       '126996, 126998, other transmit PGNs, unknown, proprietary) x addressed/broadcast x fast packet / ISO-TP (RTS/CTS, BAM); selection pairs matching / mismatching / unknown / truncated / '
                       'repeated for every field of the four PGNs; intervals and offsets over the 32/16 bit ranges incl. special values; pair counts 0..255 inconsistent with the data; command then read-back '
                       '(ISO request 60928 / 126998, group function request with the new value, heartbeat); random structured and truncated messages.  Model (gf_lib) and C++ compared on every driver frame, '
                       'delivery and the state dump in both scheduler builds; the oracle (reference layouts + documented error codes, independent of the Coq model) judges every answer of the implementation; '
                       'non-trivial = case in which the node transmitted')
    rreplay = bool(replay) and any(l.startswith('# family: gf-retry-') for l in open(replay))
    for fs in (() if rreplay else ('w64', 'w32')):
        vlib.correspond(run, 'groupfn-' + fs, 'h_node', fs, 'NODEGF', cases, oracle, nontrivial, known=known, model_args=[fs])
    if rreplay or not replay:
        rcases = cases if rreplay else retry_cases(random.Random(run.seed * 7919 + 99), run.tier != 'quick')
        for fs in ('w64', 'w32'):
            vlib.correspond(run, 'gf-retry-' + fs, 'h_node', fs, 'NODEGF', rcases, retry_oracle, nontrivial, model_args=[fs])
