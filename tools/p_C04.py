# C04 - nothing is transmitted when the node is not entitled to transmit: generator, independent oracle (tools/c04_gen.py),
# correspondence on the node harness in both scheduler builds.
import vlib
import c04_gen

# Findings of this check that are reported to the lead but not yet listed in known_findings.json.  Listed ones take precedence.
PENDING_KNOWN = {}


def known(case, what):
    for k in vlib.known_findings('C04'):
        if what.startswith(k['key']):
            return k['line']
    for key, line in PENDING_KNOWN.items():
        if what.startswith(key):
            return line
    return None


def check(run, replay=None):
    cases = vlib.read_replay(replay) if replay else vlib.corpus_lines('C04') + c04_gen.gen(run.seed, run.tier)
    run.cov['rule'] = ('histories x all 5 modes: cold starts with sends/requests/claims/polls at t0, t0+1, t0+199..203 and around the first claim window; claim starts '
                       '(StartAddressClaim, competing claims with lower/higher/equal/short NAME for each of our addresses) followed at offsets 0,1,50,100,249,250,251,252,300 ms by '
                       'application sends (own device, other devices, device index -1, PGN 60928), ISO requests (addressed/broadcast; 60928/126996/126464/126998/unknown), '
                       'TP RTS/CTS/DT to the claiming device, own BAM/RTS sessions in flight, heartbeat due, delayed product/configuration information due; 1..3 devices '
                       'with one claiming; devices driven to the null address by 253 lower-NAME claims; refusing/accepting driver patterns with queues of 1..4 frames '
                       '(frames queued before a claim start and flushed inside/after the window); random node histories.  The oracle follows addresses and claim windows '
                       'from the case and the log and judges every CANSendFrame call at production and at departure time; the final state dump cross-checks its bookkeeping.  '
                       'Debug modes (dm_ClearText, dm_Actisense) divert all output to a stream, are not part of the shared node model and are not exercised.')
    breplay = bool(replay) and any(l.startswith('# family: settle-blocking-') for l in open(replay))
    if breplay or not replay:
        # a CAN driver whose CANOpen() takes time, or fails a few times first: "no node transmits before its CAN interface has been opened and
        # has settled" counts the 200 ms from the moment CANOpen() returned successfully.  The model's CANOpen is instantaneous and always
        # succeeds, so this family is judged by the property oracle only (seed C04-11)
        import random
        from nodesim import parse_result
        r = random.Random(run.seed * 7919 + 411)
        bcases = []
        if breplay:
            bcases = cases
        else:
            for d, f in [(50, 0), (199, 0), (200, 0), (300, 0), (1, 0), (0, 1), (0, 3), (120, 2), (1000, 1), (250, 0)] + ([(r.choice([10, 100, 400]), r.choice([0, 1])) for _ in range(30)] if run.tier != 'quick' else []):
                for mode in (1, 2, 3, 4):
                    ops = ['P']
                    for _k in range(r.randint(6, 14)):
                        ops += [r.choice(['T 0', 'T 1', 'T 50', 'T 100', 'T 149', 'T 199', 'T 200', 'T 201', 'T 999', 'T 1000', 'T 1001']),
                                r.choice(['P', 'P', 'S 0 6 127250 15 255 0 0102030405060708', 'S 0 6 129029 15 255 0 ' + '11' * 20, 'Q hb 1', 'Q pi 0'])]
                    bcases.append('NODE mode=%d ndev=%d src=%d q=40 slots=5 t0=%d cold=1 copen=%d,%d | %s' % (mode, r.choice([1, 2]), r.choice([22, 100]), r.choice([5000, 4294967000, 10 ** 12]), d, f, ' ; '.join(ops)))

        def settle_oracle(case, res):
            if res.startswith('crash') or res.startswith('oob'):
                return 'memory:' + res
            head, opss = case.split('|', 1)
            kv = dict(x.split('=', 1) for x in head.split()[1:] if '=' in x)
            d = int(kv['copen'].split(',')[0])
            ops = [o.split() for o in opss.split(';')]
            per_op, _st = parse_result(res)
            now, settle = 0, None
            for k, (o, evs) in enumerate(zip(ops, per_op)):
                if o and o[0] == 'T':
                    now += int(o[1])
                for e in evs:
                    if e[0] == 'note' and len(e) > 2 and e[1] == 'canopen':
                        now += d
                        if str(e[2]) == '1':
                            settle = now
                    elif e[0] == 'tx':
                        if settle is None or now - settle < 200:
                            return 'settle-blocking:op %d (%s): frame %x handed to the driver %s' % (k, ' '.join(o)[:30], e[1], 'before CANOpen() succeeded' if settle is None else '%d ms after CANOpen() returned (the interface settles for 200 ms)' % (now - settle))
                    elif e[0] == 'res' and e[1] and (settle is None or now - settle < 200):
                        return 'settle-blocking:op %d (%s): application send accepted %s' % (k, ' '.join(o)[:30], 'before CANOpen() succeeded' if settle is None else '%d ms after CANOpen() returned' % (now - settle))
            return None
        for fs in ('w64', 'w32'):
            vlib.correspond(run, 'settle-blocking-' + fs, 'h_node', fs, 'NODE', bcases, settle_oracle, None, model_args=[fs], impl_only=True)
        if breplay:
            return
    sreplay = bool(replay) and any(l.startswith('# family: claim-slow-driver-') for l in open(replay))
    if sreplay or not replay:
        # a CAN driver whose CANSendFrame() takes time (a full mailbox, wait_sent): the 250 ms in which a device sends nothing but claims count
        # from the moment the claim has been handed over, not from the moment the library decided to claim.  The model's driver takes no time,
        # so this family is judged by the property oracle only (seed C04-20)
        import random
        from nodesim import parse_result
        r = random.Random(run.seed * 7919 + 412)
        scases = []
        if sreplay:
            scases = cases
        else:
            for txms in ([40, 10, 100] if run.tier == 'quick' else [1, 5, 10, 40, 100, 200, 249]):
                for mode in (1, 2):
                    for _ in range(2 if run.tier == 'quick' else 6):
                        ops = []
                        for _k in range(r.randint(1, 3)):
                            ops += ['C 0', 'T %d' % r.choice([250 - txms // 2, 249 - 1, 230, 250 - 1, 200, 100, 250 + txms + 5, 251 + txms]), 'S 0 6 127250 15 255 0 0102030405060708', 'T 300', 'P']
                        scases.append('NODE mode=%d ndev=1 src=%d q=40 slots=5 t0=%d txms=%d | %s' % (mode, r.choice([22, 100]), r.choice([5000, 4294967000, 10 ** 12]), txms, ' ; '.join(ops)))

        def slow_oracle(case, res):
            if res.startswith('crash') or res.startswith('oob'):
                return 'memory:' + res
            head, opss = case.split('|', 1)
            kv = dict(x.split('=', 1) for x in head.split()[1:] if '=' in x)
            d = int(kv['txms'])
            ops = [o.split() for o in opss.split(';')]
            per_op, _st = parse_result(res)
            now, handed = 0, None          # handed: the time at which the last address claim of device 0 had been handed to the driver
            for k, (o, evs) in enumerate(zip(ops, per_op)):
                if o and o[0] == 'T':
                    now += int(o[1])
                start = now
                for e in evs:
                    if e[0] == 'tx':
                        now += d
                        if ((e[1] >> 8) & 0x1ff00) == 60928:
                            handed = now
                        elif handed is not None and start - handed < 249:
                            return 'claim-slow-driver:op %d (%s): frame %x handed to the driver %d ms after the address claim had been handed over (the claim is pending for 250 ms)' % (k, ' '.join(o)[:30], e[1], start - handed)
                    elif e[0] == 'res' and e[1] and o and o[0] == 'S' and handed is not None and start - handed < 249:
                        return 'claim-slow-driver:op %d: application send accepted %d ms after the address claim had been handed over' % (k, start - handed)
            return None
        for fs in ('w64', 'w32'):
            vlib.correspond(run, 'claim-slow-driver-' + fs, 'h_node', fs, 'NODE', scases, slow_oracle, None, model_args=[fs], impl_only=True)
        if sreplay:
            return
    st = {}
    CH = 4000       # the 64-bit harness runs all cases of a batch in one process and never frees a node: keep batches moderate
    for fs in ('w64', 'w32'):
        orc = c04_gen.make_oracle(fs)
        for b in range(0, len(cases), CH):
            vlib.correspond(run, 'gate-%s%s' % (fs, '' if len(cases) <= CH else '-%d' % (b // CH)), 'h_node', fs, 'NODE', cases[b:b + CH], orc, None, known=known, model_args=[fs])
        st[fs] = dict(orc.stats)
    run.cov['oracle_stats'] = st
