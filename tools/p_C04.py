# C04 - nothing is transmitted when the node is not entitled to transmit: generator, independent oracle (tools/c04_gen.py),
# correspondence on the node harness in both scheduler builds.
import vlib
import c04_gen

# Findings of this check that are reported to the lead but not yet listed in known_findings.json.  Listed ones take precedence.
PENDING_KNOWN = {}


def known(case, what):
    for k in vlib.known_findings('C04'):
        if what.startswith(k['key']):
            return k['line']
    for key, line in PENDING_KNOWN.items():
        if what.startswith(key):
            return line
    return None


def check(run, replay=None):
    cases = vlib.read_replay(replay) if replay else vlib.corpus_lines('C04') + c04_gen.gen(run.seed, run.tier)
    run.cov['rule'] = ('histories x all 5 modes: cold starts with sends/requests/claims/polls at t0, t0+1, t0+199..203 and around the first claim window; claim starts '
                       '(StartAddressClaim, competing claims with lower/higher/equal/short NAME for each of our addresses) followed at offsets 0,1,50,100,249,250,251,252,300 ms by '
                       'application sends (own device, other devices, device index -1, PGN 60928), ISO requests (addressed/broadcast; 60928/126996/126464/126998/unknown), '
                       'TP RTS/CTS/DT to the claiming device, own BAM/RTS sessions in flight, heartbeat due, delayed product/configuration information due; 1..3 devices '
                       'with one claiming; devices driven to the null address by 253 lower-NAME claims; refusing/accepting driver patterns with queues of 1..4 frames '
                       '(frames queued before a claim start and flushed inside/after the window); random node histories.  The oracle follows addresses and claim windows '
                       'from the case and the log and judges every CANSendFrame call at production and at departure time; the final state dump cross-checks its bookkeeping.  '
                       'Debug modes (dm_ClearText, dm_Actisense) divert all output to a stream, are not part of the shared node model and are not exercised.')
    st = {}
    CH = 4000       # the 64-bit harness runs all cases of a batch in one process and never frees a node: keep batches moderate
    for fs in ('w64', 'w32'):
        orc = c04_gen.make_oracle(fs)
        for b in range(0, len(cases), CH):
            vlib.correspond(run, 'gate-%s%s' % (fs, '' if len(cases) <= CH else '-%d' % (b // CH)), 'h_node', fs, 'NODE', cases[b:b + CH], orc, None, known=known, model_args=[fs])
        st[fs] = dict(orc.stats)
    run.cov['oracle_stats'] = st
