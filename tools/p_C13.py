# C13 - timed behaviour is independent of the clock origin, including the 32-bit wrap: metamorphic runs.
# The same scenario script (configuration and op list byte-identical, only `t0=` differs) is executed at the reference origin 5000
# and at origins 1000 (0 for cold starts), 2^31 +- k, 2^32 - k, 2^33 - k (k = 1, 50, 200, half the scenario length, scenario
# length + 10), 2^32 + 5, 2^32 + 500 / 700 / 900 (wrap inside the prelude of an opened node), 10^12 in both scheduler builds.  Oracle (this file, plain Python, independent of the Coq model): every
# run must produce, op by op, exactly the events of the reference run (frames with identifier / length / data / driver answer,
# send results, deliveries, notes), and the same internal state once the absolute times in the dump are made relative to the
# origin.  Builds are never compared with each other (the 32-bit scheduler fires at now >= next, the 64-bit one at now > next).
# The one documented effect: in the 32-bit build a timer whose expiry time would be 0xFFFFFFFF (the "disabled" value) is stored as 0
# and fires one millisecond late.  Runs in which some arming operation can hit that value ("sentinel-exposed") are counted, not
# judged; directed cases show that the effect is exactly one millisecond.
# The Coq node model is tied to the C++ on exactly these lines (model and harness outputs are diffed line by line).
from nodesim import own_addr
import random, re, time
import vlib
import c13_gen

M32 = 1 << 32
M64 = 1 << 64
REF_T0 = 5000
SENTINEL = M32 - 1
FAMILY = 'origin-'
# Scripts in which the application sets the heartbeat interval/offset to the default values (60000, 10000) BEFORE Open() are a
# separate, analysed origin dependence (reported under the key `origin-hb-before-open`): tN2kSyncScheduler::UpdateNextTime then works
# against SyncOffset == 0, i.e. the absolute clock, and Open()'s own SetHeartbeatIntervalAndOffset(60000, 10000) sees "no change"
# and keeps that time, so the first heartbeat comes at clock value 10000 + n*60000 instead of 10 s after Open().  Not generated
# unless this switch is on (with it on, the check reports the finding unless it is listed as known).
INCLUDE_HB_BEFORE_OPEN = True
# confirmed defects that are not repaired (yet): key -> line printed as KNOWN-FINDING.  (`origin-hb-before-open` was repaired in /repo e3d90bc:
# the scenario is generated and must pass; Coq: Spec/HbSpec.v hb_open_resync_stmt.)
PENDING_KNOWN = {}
# The node harness maps three fenced arrays per case and never unmaps them: one (64-bit build) process runs out of memory mappings
# (vm.max_map_count, "ERROR: Failed to mmap") after about 10 800 cases, so the lines are fed in chunks.
CHUNK = 4000


# ---------------------------------------------------------------------------------------------------------------------------
# case lines
def with_origin(case, t0):
    """the same case with clock origin t0 (everything else byte-identical)"""
    assert t0 >= 0
    cfg, bar, ops = case.partition('|')
    if re.search(r'(^|\s)t0=\d+', cfg):
        cfg = re.sub(r'(^|\s)t0=\d+', lambda m: '%st0=%d' % (m.group(1), t0), cfg, count=1)
    else:
        cfg = cfg.rstrip() + ' t0=%d ' % t0
    return cfg + bar + ops


def origin_of(case):
    m = re.search(r'(?:^|\s)t0=(\d+)', case.partition('|')[0])
    return int(m.group(1)) if m else 0


def is_cold(case):
    return re.search(r'(^|\s)cold=1(\s|$)', case.partition('|')[0]) is not None


def op_list(case):
    return [o.split() for o in case.partition('|')[2].split(';')]


def script_length(case):
    return sum(int(o[1]) for o in op_list(case) if len(o) > 1 and o[0] == 'T' and o[1].isdigit())


def max_gap(case):
    return max([int(o[1]) for o in op_list(case) if len(o) > 1 and o[0] == 'T' and o[1].isdigit()] + [0])


def origins(case, tier='quick', r=None):
    """clock origins for one scenario (reference excluded)"""
    n = script_length(case)
    cold = is_cold(case)
    ks = [1, 50, 200, max(2, n // 2), n + 10]
    if tier != 'quick' and r is not None:
        ks += [r.randint(1, n + 10) for _ in range(4)]
    out = [1000] + ([0] if cold else [])
    for k in ks:
        out += [(1 << 31) - k, (1 << 31) + k, M32 - k, (1 << 33) - k]
    out += [M32 + 5, 10 ** 12]
    if not cold:
        # the 32-bit clock wraps inside the prelude: before Open (prelude poll 100), while the first address claim runs, after it
        out += [M32 + 900, M32 + 700, M32 + 500]
    lo = 0 if cold else 1000            # the prelude of an opened node starts 1000 ms before the origin
    res = []
    for t in out:
        if t >= lo and t != REF_T0 and t not in res:
            res.append(t)
    return res


# ---------------------------------------------------------------------------------------------------------------------------
# the documented 32-bit effect: which arming operations of a run can produce the expiry value 0xFFFFFFFF
def frame_pf(idhex):
    try:
        return (int(idhex, 16) >> 16) & 0xff
    except ValueError:
        return -1


def addresses_in(case, results):
    """every source address our devices can have had in these runs: configured, seen in sent frames, in the final state; + null"""
    cfg = case.partition('|')[0]
    m = re.search(r'(?:^|\s)src=(\d+)', cfg)
    n = re.search(r'(?:^|\s)ndev=(\d+)', cfg)
    src0, ndev = int(m.group(1)) if m else 0, int(n.group(1)) if n else 1
    a = {own_addr(src0, i) for i in range(ndev)} | {254}
    for res in results:
        a |= {int(x, 16) & 255 for x in re.findall(r'\btx:([0-9a-f]+):', res)}
        a |= {int(x) for x in re.findall(r'\{src=(\d+)', res)}
    return a


def sentinel_arms(case, results=()):
    """-> [(op index or -1 for the prelude, clock value, delay)] such that clock + delay == 0xFFFFFFFF (mod 2^32).
    Conservative list of the library's tN2kScheduler::FromNow calls: constructor (0), Open (200 twice over the first calls), address
    claim 250 (StartAddressClaim: open, C op, received claims / commanded address at a poll), ISO-TP 50 / 100 (tp sends, polls when the
    script has ISO-TP traffic), pending information 187+src*8 and 187+src*10 (polls, when the script has ISO requests)."""
    t0 = origin_of(case)
    cold = is_cold(case)
    ops = op_list(case)
    pfs = {frame_pf(o[1]) for o in ops if len(o) > 1 and o[0] == 'R'}
    has_tp = any(o and o[0] == 'S' and len(o) > 6 and o[6] == '1' for o in ops) or (0xEC in pfs)
    has_claim = bool(pfs & {0xEE, 0xEC, 0xEB})          # address claim, or commanded address carried by ISO-TP
    has_req = 0xEA in pfs
    pend = set()
    if has_req:
        for s in addresses_in(case, results):
            pend |= {187 + s * 8, 187 + s * 10}
    cand = []
    if cold:
        cand.append((-1, t0, 0))
    else:
        cand += [(-1, t0 - 1000, 0), (-1, t0 - 1000, 200), (-1, t0 - 800, 250), (-1, t0 - 799, 250)]
    now = t0
    for i, o in enumerate(ops):
        if not o:
            continue
        if o[0] == 'T' and len(o) > 1 and o[1].isdigit():
            now += int(o[1])
        elif o[0] == 'C':
            cand.append((i, now, 250))
        elif o[0] == 'S':
            if len(o) > 6 and o[6] == '1':
                cand.append((i, now, 50))
            if cold:
                cand += [(i, now, 200), (i, now, 250)]
        elif o[0] in ('Q', 'I', 'X', 'D', 'M'):
            # public calls: SendIsoAddressClaim(.., FromNow) arms the pending claim with its argument, SetDeviceInformationInstances with 2 ms,
            # Restart the claim windows; the sending ones may open a cold node (200, 250) or fail and arm a retry
            if o[0] == 'Q' and len(o) > 4 and o[1] == 'ac' and o[4].isdigit() and int(o[4]) > 0:
                cand.append((i, now, int(o[4])))
            cand += [(i, now, 2), (i, now, 250)]
            if cold:
                cand.append((i, now, 200))
            for s_ in addresses_in(case, results):
                cand += [(i, now, 187 + s_ * 8), (i, now, 187 + s_ * 10)]
        elif o[0] == 'P':
            if cold:
                cand += [(i, now, 200), (i, now, 250)]
            if has_claim:
                cand.append((i, now, 250))
            if has_tp:
                cand += [(i, now, 50), (i, now, 100)]
            cand += [(i, now, d) for d in pend]
    return [(i, t, d) for i, t, d in cand if (t + d) % M32 == SENTINEL]


# ---------------------------------------------------------------------------------------------------------------------------
# comparison of one run with the reference run of the same script
def split_result(res):
    ev, _, dump = res.partition('|')
    return ev, dump.strip()


def norm_dump(dump, t0, fs):
    """state dump with every absolute time replaced by (time - origin): tN2kScheduler values (claim= pc= pp= pf=) are 64-bit in w64 and
    32-bit in w32; the heartbeat time is 64-bit, in w32 reconstructed from millis() with a roll counter that starts at 0 in every case,
    so it is comparable modulo 2^32 only; reassembly slots carry the 32-bit MsgTime as 9th field"""
    M = M32 if fs == 'w32' else M64
    d = re.sub(r'\b(claim|pc|pp|pf)=(\d+)', lambda m: '%s=@%d' % (m.group(1), (int(m.group(2)) - t0) % M), dump)
    if not re.match(r'\s*open=3', dump):
        # a node that has not completed Open(): the heartbeat schedulers refer to the absolute clock (SyncOffset is set at open, where every
        # schedule is recomputed) and nothing can observe them - SendHeartbeat does nothing before open; their next time is not compared
        d = re.sub(r'\bhb=(\d+)/', 'hb=@-/', d)
    d = re.sub(r'\bhb=(\d+)/', lambda m: 'hb=@%d/' % ((int(m.group(1)) - t0) % M), d)

    def slots(m):
        out = []
        for e in m.group(1).split():
            f = e.split(':')
            if len(f) > 8 and f[8].isdigit():
                f[8] = '@%d' % ((int(f[8]) - t0) % M32)
            out.append(':'.join(f))
        return 'slots[' + ' '.join(out) + ']'
    return re.sub(r'slots\[(.*?)\]', slots, d)


def dump_diff(a, b):
    """names the first differing item of two normalised dumps"""
    ta, tb = a.split(), b.split()
    for x, y in zip(ta, tb):
        if x != y:
            xs, ys = re.split(r'([ {}\[\]])', x), re.split(r'([ {}\[\]])', y)
            key = re.match(r'[a-z]+\d*', x)
            return '%s: reference %s, here %s' % (key.group(0) if key else 'state', x[:120], y[:120])
    return 'state: reference has %d items, here %d' % (len(ta), len(tb))


def compare(ref_case, ref_res, case, res, fs, dumps=True):
    """None when the run [case -> res] shows exactly the behaviour of the reference run, else 'origin:<what>:<details>'"""
    if ref_res.startswith(('crash', 'bad')) or res.startswith(('crash', 'bad')):
        if ref_res.split(' ')[0] == res.split(' ')[0]:
            return None
        return 'origin:result:reference run gives `%s`, origin %d gives `%s`' % (ref_res[:60], origin_of(case), res[:60])
    if ref_res == 'oob' or res == 'oob':
        return None if ref_res == res else 'origin:result:reference run gives `%s`, origin %d gives `%s`' % (ref_res[:60], origin_of(case), res[:60])
    eva, da = split_result(ref_res)
    evb, db = split_result(res)
    if eva != evb:
        ca, cb = [c.strip() for c in eva.split(';')], [c.strip() for c in evb.split(';')]
        ops = op_list(case)
        now = 0
        for k in range(max(len(ca), len(cb))):
            if k < len(ops) and len(ops[k]) > 1 and ops[k][0] == 'T' and ops[k][1].isdigit():
                now += int(ops[k][1])
            x = ca[k] if k < len(ca) else '<missing>'
            y = cb[k] if k < len(cb) else '<missing>'
            if x != y:
                tx, ty = x.split(), y.split()
                odd = [t for t in tx if t not in ty] + [t for t in ty if t not in tx] or tx + ty
                kind = {'tx': 'frames', 'dlv': 'deliveries', 'res': 'results'}.get(odd[0].split(':')[0], 'events')
                return ('origin:%s:%s op %d (`%s`, %d ms after the origin): origin %d gives `%s`, origin %d gives `%s`'
                        % (kind, fs, k, ' '.join(ops[k])[:60] if k < len(ops) else '?', now, origin_of(ref_case), x[:200] or '-', origin_of(case), y[:200] or '-'))
    if dumps:
        na, nb = norm_dump(da, origin_of(ref_case), fs), norm_dump(db, origin_of(case), fs)
        if na != nb:
            return 'origin:state:%s same events but different state relative to the origin (%d vs %d): %s' % (fs, origin_of(ref_case), origin_of(case), dump_diff(na, nb))
    return None


def hb_set_before_open(case, res):
    """cold start in which the application sets the heartbeat interval before Open() has completed: tN2kSyncScheduler then computes
    its next time against SyncOffset as left by whatever ran before (0 in a fresh process), i.e. against the absolute clock"""
    if not is_cold(case):
        return False
    chunks = split_result(res)[0].split(';')
    opened = next((k for k, c in enumerate(chunks) if 'note:open' in c), len(chunks))
    return any(o and o[0] == 'H' and k <= opened for k, o in enumerate(op_list(case)))


def judge(ref_case, ref_res, case, res, fs):
    """compare, with a key of its own for differences of scripts that set the heartbeat before Open()"""
    w = compare(ref_case, ref_res, case, res, fs)
    if w and w.startswith('origin:') and hb_set_before_open(ref_case, ref_res):
        w = 'origin-hb-before-open:' + w[len('origin:'):]
    return w


def op_groups(case):
    """ops grouped by the time they execute at: [(relative time, [op indices], text of the non-T ops)]"""
    groups = []
    now = 0
    cur = None
    for i, o in enumerate(op_list(case)):
        if o and o[0] == 'T' and len(o) > 1 and o[1].isdigit() and int(o[1]) > 0:
            now += int(o[1])
            cur = None
            continue
        if cur is None:
            cur = [now, [], []]
            groups.append(cur)
        cur[1].append(i)
        cur[2].append(' '.join(o))
    return groups


def one_ms_shift(case, ref_res, res):
    """directed sentinel cases: is [res] the reference behaviour with events moved by at most one millisecond?  -> (ok, moved groups, why)
    Every group of ops (same clock value) must show the reference's events of the same group, or those of the group with the same ops
    one millisecond earlier."""
    eva, evb = split_result(ref_res)[0], split_result(res)[0]
    ca, cb = [c.strip() for c in eva.split(';')], [c.strip() for c in evb.split(';')]
    if len(ca) != len(cb):
        return False, 0, 'different number of ops'
    gs = op_groups(case)
    moved = 0
    for j, (t, idx, text) in enumerate(gs):
        a = [ca[i] for i in idx if i < len(ca)]
        b = [cb[i] for i in idx if i < len(cb)]
        if a == b:
            continue
        prev = gs[j - 1] if j > 0 else None
        if prev is not None and prev[0] == t - 1 and prev[2] == text and [ca[i] for i in prev[1]] == b:
            moved += 1
            continue
        return False, moved, 'ops at %d ms: reference `%s`, here `%s`; not the reference behaviour of 1 ms earlier' % (t, ' ; '.join(a)[:200], ' ; '.join(b)[:200])
    return True, moved, ''


def oracle_trivial(case, res):
    return 'memory:' + res if res.startswith('crash') else None


def known(case, what):
    key = what.split(':')[0]
    if key in PENDING_KNOWN:
        return PENDING_KNOWN[key]
    for k in vlib.known_findings('C13'):
        if what.startswith(k['key']):
            return k['line']
    return None


# ---------------------------------------------------------------------------------------------------------------------------
def minimise(exe, fs, ref_case, case, what, budget=120):
    """greedy: drop chunks of ops, then single ops, while the two origins still differ in the same way and the run stays unexposed"""
    key = ':'.join(what.split(':')[:2]) + ':'      # a candidate is kept when the two origins still differ in the same kind of observation
    cfg_r, cfg_o = ref_case.partition('|')[0], case.partition('|')[0]
    ops = [o.strip() for o in case.partition('|')[2].split(';')]

    def differs(cand):
        a, b = cfg_r + '| ' + ' ; '.join(cand), cfg_o + '| ' + ' ; '.join(cand)
        ra, rb = vlib.run_impl(exe, [a])[0], vlib.run_impl(exe, [b])[0]     # a process each: SyncOffset is a static of the library
        if fs == 'w32' and (sentinel_arms(a, (ra, rb)) or sentinel_arms(b, (ra, rb))):
            return False
        w = judge(a, ra, b, rb, fs)
        return bool(w) and w.startswith(key)
    n = 0
    chunk = max(1, len(ops) // 2)
    while chunk >= 1 and n < budget:
        i = 0
        while i < len(ops) and n < budget:
            cand = ops[:i] + ops[i + chunk:]
            n += 1
            if cand and differs(cand):
                ops = cand
            else:
                i += chunk
        chunk //= 2
    merged = []
    for o in ops:                           # T a ; T b  ->  T a+b
        t, m = o.split(), (merged[-1].split() if merged else [])
        if len(t) == 2 and len(m) == 2 and t[0] == m[0] == 'T' and t[1].isdigit() and m[1].isdigit() and int(t[1]) + int(m[1]) < M32:
            merged[-1] = 'T %d' % (int(t[1]) + int(m[1]))
        else:
            merged.append(o)
    if len(merged) < len(ops) and differs(merged):
        ops = merged
    return cfg_r + '| ' + ' ; '.join(ops), cfg_o + '| ' + ' ; '.join(ops)


def gen(seed, tier):
    """-> (scenarios [(name, reference line, [lines at the other origins])], sentinel cases [(name, reference line, exposed line, delay)])"""
    r = random.Random(seed * 2654435761 % (1 << 31) + 17)
    scen = []
    extra = c13_gen.hb_before_open(seed, tier) if INCLUDE_HB_BEFORE_OPEN else []
    for name, line in c13_gen.directed(seed, tier) + c13_gen.randoms(seed, tier) + extra:
        ref = with_origin(line, REF_T0)
        assert max_gap(ref) < M32
        scen.append((name, ref, [with_origin(ref, t) for t in origins(ref, tier, r)]))
    sent = []
    for name, line, arm, delay in c13_gen.sentinel_directed():
        ref = with_origin(line, REF_T0)
        for base in (0, M32):
            sent.append((name, ref, with_origin(ref, base + SENTINEL - delay - arm), delay))
    return scen, sent


def run_both(run, fs, lines, hexe, mexe, fam, fresh=()):
    """model and implementation on the same lines; records the correspondence like vlib.correspond does.  Lines listed in [fresh] get
    a harness process of their own (tN2kSyncScheduler::SyncOffset is a static that the previous case of a batch leaves behind; it
    matters only when the heartbeat is set before Open())"""
    t = time.time()
    mout = vlib.run_model(mexe, lines, args=[fs])
    tm = time.time() - t
    t = time.time()
    iout = []
    for k in range(0, len(lines), CHUNK):
        iout += vlib.run_impl(hexe, lines[k:k + CHUNK])
    for i in fresh:
        iout[i] = vlib.run_impl(hexe, [lines[i]])[0]
    ti = time.time() - t
    dis = [i for i in range(len(lines)) if mout[i] != vlib.canon_impl(iout[i])]
    run.add_cases(fam, len(lines), lines, ['%s => %s' % (c, m) for c, m in list(zip(lines, mout))[::max(1, len(lines) // 3)]])
    f = run.cov['families'][fam]
    f['model_s'] = round(f.get('model_s', 0) + tm, 2)
    f['impl_s'] = round(f.get('impl_s', 0) + ti, 2)
    f['disagreements'] = f.get('disagreements', 0) + len(dis)
    f.setdefault('oracle_failures', 0)
    f['flagset'] = fs
    if dis:
        i = dis[0]
        run.broken.append('correspondence %s/%s: model and implementation differ on %d of %d cases; first: case %d `%s` model=`%s` impl=`%s`'
                          % (fam, fs, len(dis), len(lines), i, lines[i][:300], mout[i][:300], iout[i][:300]))
        f.setdefault('first_disagreement', {'case': lines[i], 'model': mout[i], 'impl': iout[i]})
        run.disagree_cases = getattr(run, 'disagree_cases', []) + [lines[j] for j in dis[:20]]
    return iout


def report(run, fs, hexe, name, ref_case, case, what, reported, ref_res, res, do_min=True):
    fam = FAMILY + fs
    run.cov['families'][fam]['oracle_failures'] = run.cov['families'][fam].get('oracle_failures', 0) + 1
    kf = known(case, what)
    if kf:
        if kf not in run.known:
            run.known.append(kf)
        return
    key = ':'.join(what.split(':')[:2]) + ':' + fs
    if key in reported:
        return
    reported.add(key)
    a, b = ref_case, case
    if do_min and not what.startswith('memory'):
        try:
            a, b = minimise(hexe, fs, ref_case, case, what)
        except Exception as ex:          # minimisation is a convenience only
            vlib.log('C13: minimisation failed: %r' % (ex,))
    if (a, b) != (ref_case, case):
        ra, rb = vlib.run_impl(hexe, [a])[0], vlib.run_impl(hexe, [b])[0]
        what = judge(a, ra, b, rb, fs) or what
    else:
        ra, rb = ref_res, res
    rp = vlib.write_replay(run.pid, '%s%s-%d-%d' % (FAMILY, fs, run.seed, len(reported)),
                           {'property': run.pid, 'family': fam, 'seed': run.seed, 'scenario': name, 'build': fs,
                            'failed': 'metamorphic oracle on implementation: same script, two clock origins (lines come in pairs: reference, other)',
                            'what': what, 'reference_origin': origin_of(a), 'origin': origin_of(b), 'impl_reference': ra, 'impl_other': rb}, [a, b])
    run.violation(rp)


def judge_pairs(run, fs, hexe, pairs, results, stats, reported, do_min=True):
    """pairs: [(scenario name, index of the reference line, index of the other line)] into lines/results"""
    lines, iout = results
    for name, ia, ib in pairs:
        for i in {ia, ib}:
            w = oracle_trivial(lines[i], iout[i])
            if w:
                report(run, fs, hexe, name, lines[ia], lines[i], w, reported, iout[ia], iout[i], do_min=False)
        arms = []
        if fs == 'w32':
            arms = sentinel_arms(lines[ia], (iout[ia], iout[ib])) + sentinel_arms(lines[ib], (iout[ia], iout[ib]))
        what = judge(lines[ia], iout[ia], lines[ib], iout[ib], fs)
        stats['pairs'] += 1
        if arms:
            stats['exposed'] += 1
            if what:
                stats['exposed_differing'] += 1
                if 'example' not in stats:
                    stats['example'] = {'build': fs, 'scenario': name, 'arming op / clock / delay': arms[0], 'difference': what[:600],
                                        'reference': lines[ia][:600], 'other': lines[ib][:600]}
            continue
        if what:
            report(run, fs, hexe, name, lines[ia], lines[ib], what, reported, iout[ia], iout[ib], do_min)


def judge_sentinel(run, fs, hexe, sent, lines, iout, base, stats, reported):
    """directed cases of the documented effect: 32-bit build: events move by exactly one millisecond; 64-bit build: no difference"""
    for k, (name, ref, oth, delay) in enumerate(sent):
        ra, rb = iout[base + 2 * k], iout[base + 2 * k + 1]
        for c, x in ((ref, ra), (oth, rb)):
            w = oracle_trivial(c, x)
            if w:
                report(run, fs, hexe, name, ref, c, w, reported, ra, x, do_min=False)
        if fs == 'w64':
            what = compare(ref, ra, oth, rb, fs)
            if what:
                report(run, fs, hexe, name, ref, oth, what, reported, ra, rb)
            continue
        d = stats.setdefault('directed', {'cases': 0, 'moved_by_1ms': 0, 'no_difference': 0, 'not_exposed': 0})
        d['cases'] += 1
        if not sentinel_arms(oth, (ra, rb)):
            d['not_exposed'] += 1           # would be a mistake in this file: the classification must recognise its own directed cases
            run.broken.append('C13 generator: directed sentinel case %s is not classified as exposed: %s' % (name, oth[:200]))
            continue
        if ra.startswith('crash') or rb.startswith('crash'):
            continue
        ok, moved, why = one_ms_shift(oth, ra, rb)
        if not ok:
            report(run, fs, hexe, name, ref, oth, 'sentinel-more-than-1ms:%s timer armed at clock+%d == 0xFFFFFFFF: %s' % (fs, delay, why), reported, ra, rb, do_min=False)
        elif moved:
            d['moved_by_1ms'] += 1
            d.setdefault('example', {'case': oth[:500], 'reference': split_result(ra)[0][:500], 'exposed': split_result(rb)[0][:500]})
        else:
            d['no_difference'] += 1


RULE = ('family devlist-pacing: the device-list pacing histories (claims, arriving information, send failures, steps around 1000 ms and 60 s) each run from 11 clock origins by the device-list harness and model (C18_pacing_shift).  '
        'metamorphic: every scenario script (fixed op list and configuration) is run at the reference clock origin 5000 and at origins 1000 (0 for cold starts), 2^31-k, 2^31+k, 2^32-k, '
        '2^33-k (k = 1, 50, 200, half the scenario length, scenario length + 10; thorough: 4 further random k), 2^32+5, 2^32+500/700/900 (opened nodes: wrap inside the prelude) and 10^12, in the '
        '64-bit and the 32-bit scheduler build.  No single step and no distance between two polls reaches 2^32 ms.  Scenarios: '
        'directed timelines polling 1 ms before / at / after every library timeout - cold open (0 / 200 ms) with address claim contention (lower / higher / equal NAME during and after the '
        '250 ms claim, address exhaustion), application StartAddressClaim, ISO requests with a refusing driver and the pending-information retry at 187+src*8 / 187+src*10 ms, RTS/CTS and BAM '
        'sessions in both roles (50 / 100 ms timeouts, hold, completion), heartbeat (10 s offset, 60 s period, changed interval/offset, per device), reassembly-slot eviction at 99 / 100 / '
        '101 ms (fast packet and ISO-TP slots), mixtures with 1..9 devices, heartbeat across silent gaps of up to 2^32-1 ms - plus nodegen.random_history scripts.  Oracle: each run shows op '
        'by op exactly the events of the reference-origin run of the same build, and the same state dump after subtracting the origin from every absolute time (32-bit values modulo 2^32).  '
        'Only exception (32-bit build): runs in which an arming operation can compute the expiry value 0xFFFFFFFF are counted as sentinel-exposed and not judged; directed cases check '
        'that this effect moves events by exactly one millisecond.  Builds are not compared with each other.  Model and C++ are compared on every line.  non-trivial = distinct line')


def check(run, replay=None):
    run.cov['rule'] = RULE
    t_start = time.time()
    mexe, err = vlib.build_model('NODE')
    if mexe is None:
        run.broken.append('extracted model NODE does not build: %s' % (err or '')[-1500:])
        return
    if replay:
        lines = vlib.read_replay(replay)
        scen, sent = [('replay-%d' % k, lines[2 * k], [lines[2 * k + 1]]) for k in range(len(lines) // 2)], []
    else:
        scen, sent = gen(run.seed, run.tier)
        corpus = vlib.corpus_lines('C13')
        scen = [('corpus-%d' % k, corpus[2 * k], [corpus[2 * k + 1]]) for k in range(len(corpus) // 2)] + scen
    lines, pairs, fresh = [], [], []
    for name, ref, others in scen:
        ia = len(lines)
        lines.append(ref)
        for o in others:
            pairs.append((name, ia, len(lines)))
            lines.append(o)
        if replay or name.startswith(('corpus', 'hb-before-open')):
            fresh += range(ia, len(lines))
    base = len(lines)
    for name, ref, oth, delay in sent:
        lines += [ref, oth]
    stats = {'pairs': 0, 'exposed': 0, 'exposed_differing': 0}
    reported = set()
    for fs in ('w64', 'w32'):
        hexe, err = vlib.build_harness('h_node', fs)
        if hexe is None:
            run.broken.append('harness h_node does not build against the current /repo/src (%s): %s' % (fs, (err or '')[-1500:]))
            continue
        iout = run_both(run, fs, lines, hexe, mexe, FAMILY + fs, fresh)
        judge_pairs(run, fs, hexe, pairs, (lines, iout), stats, reported)
        judge_sentinel(run, fs, hexe, sent, lines, iout, base, stats, reported)
    # device-list request pacing (N2kDeviceList.h ReadyForRequest*): the pacing histories of the C18 generator, each run from 11 clock
    # origins by the device-list harness and its model, judged by the C18 oracle (key pacing-origin); theorem C18_pacing_shift
    dl_replay = bool(replay) and any(l.startswith('# family: devlist-pacing') for l in open(replay))
    if dl_replay or not replay:
        import p_C18
        dls = [l for l in (vlib.read_replay(replay) if dl_replay else vlib.corpus_lines('C18') + p_C18.gen(run.seed, run.tier)) if l.startswith('DLS ')]
        vlib.correspond(run, 'devlist-pacing', 'h_devlist', 'w64', 'C18', dls, p_C18.oracle, p_C18.nontrivial, known=p_C18.known)
    run.cov['scenarios'] = len(scen)
    run.cov['scenario_kinds'] = sorted({n.split('#')[0] for n, _, _ in scen})
    run.cov['origins_per_scenario'] = [min(len(o) + 1 for _, _, o in scen), max(len(o) + 1 for _, _, o in scen)] if scen else [0, 0]
    run.cov['lines_per_build'] = len(lines)
    run.cov['pairs_compared'] = stats['pairs']
    run.cov['state_dump_compared'] = True
    run.cov['sentinel_exposed'] = stats['exposed']
    run.cov['sentinel_differing'] = stats['exposed_differing']
    if 'example' in stats:
        run.cov['sentinel_example'] = stats['example']
    run.cov['sentinel_directed'] = stats.get('directed', {})
    run.cov['check_s'] = round(time.time() - t_start, 2)
