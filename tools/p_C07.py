# C07 - no bus traffic makes the library touch memory unsafely, hang or over-deliver: protocol-grammar fuzz (tools/c07_gen.py),
# property-level oracle, correspondence with the node model incl. its out-of-bounds flag (node harness, both scheduler builds).
import random
import vlib
import c07_gen
from nodegen import random_history, random_history_api, iso_request
from nodesim import parse_result

MAX_DATA = 223          # tN2kMsg::MaxDataLen, from the property text
MAX_FRAMES_PER_PARSE = 20


def gen(seed, tier):
    thorough = tier != 'quick'
    cases = []
    seeds = [seed * 1000003 + 7] if not thorough else [seed * 1000003 + 7 + 7919 * k for k in range(20)]
    for s in seeds:
        r = random.Random(s)
        # every device count x every mode x cold/opened at least once, then free choice
        for ndev in range(1, 10):
            for mode in range(5):
                for cold in (False, True):
                    cases.append(c07_gen.history(r, max_ops=45, ndev=ndev, mode=mode, cold=cold))
        for _ in range(1160):
            cases.append(c07_gen.history(r, max_ops=r.choice([30, 50, 70])))
        for _ in range(150):
            cases.append(random_history(r, n_ops=40))
        for _ in range(150):
            cases.append(random_history_api(r, n_ops=40))       # public calls of the application mixed in: any device index, any argument
        for _ in range(100):
            cases.append(c07_gen.d14_history(r))
        # configuration calls in unusual but legal places: SetDeviceCount after the device table exists (before Open(): it must be ignored,
        # seed C07-15) and transmit lists that grow after the sequence-counter table of a device was allocated by its first fast-packet
        # send, followed by more distinct fast-packet PGNs than the table has cells (seed C07-14); then ordinary traffic
        FPS = [129029, 127489, 128275, 130577, 129540, 130074, 129038, 129039, 129041, 129794, 129809, 129810]
        for _ in range(24):
            h = c07_gen.history(r, max_ops=30, ndev=r.choice([1, 1, 2]), mode=r.choice([1, 2]), cold=True)
            head, ops = h.split(' | ', 1)
            cases.append(head + ' | Z 2 %d ; %s ; %s' % (r.choice([2, 3, 9]), ops, ' ; '.join([iso_request(50, 255, 126996), 'P', iso_request(50, 255, 60928), 'P', 'T 300', 'P', 'P'])))
        for _ in range(24):
            ndev = r.choice([1, 2, 3])
            i = r.randrange(ndev)
            src = r.choice([22, 100])
            first = r.sample(FPS, r.choice([0, 1, 2]))
            send = lambda p: 'S %d 6 %d 15 255 0 %s' % (i, p, bytes(r.randrange(256) for _ in range(r.choice([9, 20, 40]))).hex())
            ops = [send(r.choice(first + [126996]))]
            ops += ['W t %d %s' % (i, ','.join(str(p) for p in r.sample(FPS, r.choice([6, 8, 12]))))]
            ops += [send(p) for p in r.sample(FPS, 9)] + ['P', 'W t %d -' % i] + [send(p) for p in r.sample(FPS, 4)] + ['P']
            cases.append('NODE mode=1 ndev=%d src=%d q=40 slots=5 t0=5000%s | %s' % (ndev, src, (' tx%d=%s' % (i, ','.join(map(str, first)))) if first else '', ' ; '.join(ops)))
    return cases


def oracle(case, res):
    """the property, applied to what the implementation did: no unsafe access (sanitizer / fenced arrays), no message longer than
    223 bytes handed to the application, at most 20 frames (hence at most 20 deliveries) consumed per ParseMessages call"""
    if res.startswith('crash'):
        return 'memory:' + res
    if res.startswith('bad'):
        return None
    per_op, state = parse_result(res)
    for k, evs in enumerate(per_op):
        n = 0
        for e in evs:
            if e[0] == 'note' and len(e) > 1 and e[1] == 'rxover':
                return 'unbounded-parse:op %d: one ParseMessages call took %s frames from the driver (bound 20)' % (k, e[2] if len(e) > 2 else '?')
            if e[0] == 'dlv':
                n += 1
                if e[5] > MAX_DATA or e[5] < 0 or len(e[6]) > MAX_DATA:
                    return 'overdeliver:op %d hands the application a message of %d bytes (PGN %d from %d)' % (k, e[5], e[2], e[3])
        if n > MAX_FRAMES_PER_PARSE:
            return 'unbounded-parse:op %d delivered %d messages in one call' % (k, n)
    return None


def nontrivial(case, mres):
    return 'R ' in case


def check(run, replay=None):
    cases = vlib.read_replay(replay) if replay else vlib.corpus_lines('C07') + gen(run.seed, run.tier)
    run.cov['rule'] = ('protocol-grammar fuzz: per history one node (1..9 devices, modes 0..4, cold and opened starts, 1..8 reassembly slots, send queues 0..40 frames, clock origins '
                       'around 2^31/2^32/2^33) and 30..110 operations drawn from episodes: clock jumps (incl. 2^31, 2^32 +-1), driver refusals, application sends / StartAddressClaim / heartbeat '
                       'settings, address claims (NAME 0, all-ones, ours +-1, DLC 0..8, address storms), ISO requests DLC 0..8, every system PGN with DLC 0..8, fast packets announcing '
                       '0/223/224/255 bytes with lost/duplicated/reordered/superfluous frames, ISO-TP reception (RTS/BAM, sizes 0,8,223,224,1785,65535, inconsistent packet counts, TP.DT '
                       'duplicated/reordered/missing/superfluous, address loss and timeouts in the middle), ISO-TP sending (S tp=1, then CTS/EndAck/Abort fitting or not, address loss), TP.CM/TP.DT '
                       'for sessions that do not exist, commanded address via BAM and RTS with addresses 0..255, partial PGN 126208 traffic (never complete for us: group functions are outside '
                       'the shared model), raw random identifiers; plus nodegen.random_history and randomised D-14 scenarios.  Oracle: no sanitizer/fence fault, every delivered message <= 223 '
                       'bytes, <= 20 deliveries per ParseMessages.  Model (incl. its out-of-bounds flag) and C++ compared on every event and the state dump, both scheduler builds; '
                       'family gf-*: the complete PGN 126208 traffic of the C09 generator (requests, commands, read/write, UCS-2 strings ending around the 70-byte field buffer) against the model '
                       'with the library handlers (gf_lib) under the same oracle; family devlist: the device-list histories of the C18 generator under the memory oracle; non-trivial = history with received frames')
    # the 64-bit harness handles all cases of one call in one process and never frees a node (tNMEA2000 has no destructor), so a call
    # gets a bounded number of cases: beyond ~10^4 histories the sanitizer's allocator gives up, which would look like a crash
    CHUNK = 2500
    chunks = [cases[k:k + CHUNK] for k in range(0, len(cases), CHUNK)]
    for fs in (() if (replay and any(l.startswith(('# family: gf-', '# family: devlist', '# family: actisense', '# family: handlers')) for l in open(replay))) else ('w64', 'w32')):
        for k, chunk in enumerate(chunks):
            fam = 'safe-' + fs if len(chunks) == 1 else 'safe-%s-c%02d' % (fs, k)
            vlib.correspond(run, fam, 'h_node', fs, 'NODE', chunk, oracle, nontrivial, model_args=[fs])
    # complete group-function traffic (PGN 126208 requests / commands / read / write incl. UCS-2 strings around the 70-byte field buffer):
    # the cases of the C09 generator under this property's oracle, against the node model with the library handlers (gf_lib; C07_gf_lib_ok)
    gf_replay = bool(replay) and any(l.startswith('# family: gf-') for l in open(replay))
    if gf_replay or not replay:
        import p_C09
        gcases = cases if gf_replay else p_C09.gen(run.seed, run.tier)
        for fs in ('w64', 'w32'):
            vlib.correspond(run, 'gf-' + fs, 'h_node', fs, 'NODEGF', gcases, oracle, nontrivial, model_args=[fs])
    # the optional device list (tN2kDeviceList): the message histories of the C18 generator under this property's memory oracle (any
    # sanitizer fault = violation), against the device-list model whose heap discipline is the subject of C18_heap_safe (re-exported here)
    dl_replay = bool(replay) and any(l.startswith('# family: devlist') for l in open(replay))
    if dl_replay or not replay:
        import p_C18
        dcases = cases if dl_replay else p_C18.gen(run.seed, run.tier)
        vlib.correspond(run, 'devlist', 'h_devlist', 'w64', 'C18', dcases, lambda c, res: ('memory:' + res) if (res.startswith('crash') or 'canary' in res) else None, None)
    # the Actisense side: SendInActisenseFormat's worst-case buffer (also reached from ParseMessages / SendMsg through message forwarding)
    # and the stream reader's buffers - the cases of the C17 generator (every payload length x escape densities, forwarding nodes in every
    # mode, malformed streams) under this property's memory oracle, against the model of C17 (seed C07-10)
    ac_replay = bool(replay) and any(l.startswith('# family: actisense') for l in open(replay))
    if ac_replay or not replay:
        import p_C17
        acases = cases if ac_replay else p_C17.gen(run.seed, run.tier)
        vlib.correspond(run, 'actisense', 'h_acti', 'w64', 'C17', acases, lambda c, res: ('memory:' + res) if (res.startswith('crash') or 'canary' in res) else None, None)
    # the handler list (attach / detach / re-attach / destroy tMsgHandler objects, two bus objects): the histories of the C14 generator under
    # this property's memory oracle - a stale link is a use after free or a walk that never ends (seed C07-16)
    h_replay = bool(replay) and any(l.startswith('# family: handlers') for l in open(replay))
    if h_replay or not replay:
        import p_C14
        hcases = cases if h_replay else p_C14.gen(run.seed, run.tier)
        vlib.correspond(run, 'handlers', 'h_handlers', 'w64', 'C14', hcases, lambda c, res: ('memory:' + res) if (res.startswith(('crash', 'timeout', 'hang')) or 'canary' in res) else None, None)
