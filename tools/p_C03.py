# C03 - address claiming converges to unique addresses and the lower NAME wins.
#   (a) single node through h_node/NODE: foreign claims with lower/higher/equal NAMEs (0, all-ones, ours +-1), from the preferred address,
#       adjacent ones, across the 251->0 wrap, the whole range (252 lower-NAME claims inside one claim run), commanded addresses, ticks;
#   (b) several nodes through h_net/NET: 2..6 participants (library instances with 1..3 devices, foreign ISO 11783-5 reference nodes) on a
#       simulated bus without loop-back: random schedules + ALL schedules of bounded length for 2..3 participants, both scheduler builds,
#       clock origins near 2^32;
#   (c) the oracle below, written from the property text (plain Python, independent of the Coq model), applied to what the C++ did;
#   (d) exhaustive exploration of every schedule of the MODEL network for small scopes (drv_NET.ml, `EXPL` lines): a search, not a proof -
#       it stands in for the convergence statement (Spec/ClaimSpec.v, converges_stmt), which is not proved.
#
# Oracle (what the property demands, and the keys it reports):
#   premise       NAMEs of all claimants are pairwise distinct and foreign claimants follow ISO 11783-5 (8-byte claims): histories that
#                 break the premise (equal NAMEs, raw claim frames) are only checked for memory safety and correspondence.
#   defend        a participant holding x that receives claim(x, n) with n above its NAME keeps x and answers with its own claim for x.
#   yield         ... with n below its NAME it leaves x (the lower NAME wins) and, if it takes another address y <= 251, claims y.
#   unflagged-change   every change of a library device's address happens with the address-changed indication raised.
#   tx-source     every frame of a library node carries an address one of its devices reports (before or after the operation); a claim
#                 carries the address its device reports after the operation.
#   commanded-address:sibling-collision / sibling-collision   two devices of one library instance report the same address <= 251.
#   unique        at quiescence (nothing pending anywhere, every claim window over) no address <= 251 is held twice.
#   null-with-free-address   at quiescence a library device sits at 254 although some address in 0..251 is held by nobody.
#   address-range at quiescence a library device reports an address that is neither in 0..251 nor 254 (known finding: SetMode(mode, 251)
#                 on a two-device node puts the second device at 252).
#   report        the addresses the library reports at the end are those its frames carried (book-keeping of the run agrees with the dump).
from nodesim import own_addr
import random, re, itertools
import vlib
from nodegen import claim, can_id, rx, tp_rts, tp_dt
from nodesim import parse_case, parse_result

ALL1 = (1 << 64) - 1
NAME0 = 0xc0328200ffc00001          # NAME of device 0 of the single-node harness; device i has NAME0 + i
NULL, MAXA = 254, 251
T0S = [5000, 4294967000, 4294966800, 4294967295 - 260, 2147483400, 10 ** 12, 70000]

# findings that are not repaired (the repair needs an upstream design decision) and are to be listed in known_findings.json by the lead;
# until then the check treats exactly these oracle keys as known
PENDING_KNOWN = []
PENDING_DESCR = {'address-range':
                 'SetMode(mode, a) gives device i of a multi-device node the preferred address a+i without looking at the range: with two devices and a=251 the second device claims '
                 'the reserved address 252 (frame 18EEFFFC), keeps reporting 252 and is refused every other send; the property allows 0..251 or 254 only '
                 '(witness: NODE mode=1 ndev=2 src=251 q=40 slots=5 t0=5000 | T 251 ; P)',
                 'commanded-address:sibling-collision':
                 'HandleCommandedAddress stores the commanded address without looking at the other devices of the same tNMEA2000 instance: with devices at 30/31 a commanded '
                 'address (PGN 65240) naming the NAME of device 1 with new address 30 leaves both devices at 30; there is no loop-back, so the two never arbitrate and both '
                 'transmit from 30 (witness: NET t0=5000 | L2:30.1a,31.1b | start 0 ; tick 1 ; tick 250 ; tick 251 ; cmd 1b 30 ; drain ; tick 251)'}


def id_fields(i):
    pf, ps, dp, src = (i >> 16) & 0xff, (i >> 8) & 0xff, (i >> 24) & 1, i & 0xff
    if pf < 240:
        return dp << 16 | pf << 8, src, ps
    return dp << 16 | pf << 8 | ps, src, 255


def le_name(data):
    return int.from_bytes(bytes(data[:8]), 'little')


# ---------------------------------------------------------------------------------------------
# (b) network cases
def parse_net(case):
    cfg, parts, ops = case.split('|')
    ps = []
    for tok in parts.split():
        head, body = tok.split(':', 1)
        ents = [(int(e.split('.')[0]), int(e.split('.')[1], 16)) for e in body.split(',') if e]
        ps.append({'lib': head[0] == 'L', 'mode': int(head[1:]) if head[0] == 'L' else None, 'devs': ents})
    return cfg, ps, [o.split() for o in ops.split(';')]


def parse_dump(state):
    out = []
    for m in re.finditer(r'P(\d+)\{([^}]*)\}', state):
        d = {'devs': []}
        for tok in m.group(2).split():
            k, v = tok.split('=')
            if k in ('on', 'q', 'open', 'ac'):
                d[k] = int(v)
            elif k == 'f':
                a, n = v.split('/')
                d['devs'].append({'addr': int(a), 'name': int(n, 16), 'claim': 0})
            else:
                a, e, c, n = v.split('/')
                d['devs'].append({'addr': int(a), 'end': int(e), 'claim': int(c), 'name': int(n, 16)})
        out.append(d)
    return out


def cmd_frames(name, addr, src):
    nm = list(name.to_bytes(8, 'little'))
    return [(can_id(7, 60416, src, 255), 8, [32, 9, 0, 2, 255, 0xD8, 0xFE, 0]),
            (can_id(7, 60160, src, 255), 8, [1] + nm[:7]),
            (can_id(7, 60160, src, 255), 8, [2, nm[7], addr, 255, 255, 255, 255, 255])]


def premise_net(ps, ops):
    names = [n for p in ps for _, n in p['devs']]
    if len(set(names)) != len(names):
        return False
    if any(p['lib'] and p['mode'] not in (1, 2) for p in ps):
        return False
    for p in ps:
        if p['lib'] and len({a for a, _ in p['devs']}) != len(p['devs']):
            return False                 # one application gave two of its own devices the same preferred address
        for d, (a, _) in enumerate(p['devs']):
            # above 251 only where the library itself derives it: SetMode(mode, a0) gives device d the address a0 + d
            if a > MAXA and not (p['lib'] and d > 0 and p['devs'][0][0] <= MAXA and a == p['devs'][0][0] + d and a <= 253):
                return False
    for o in ops:
        if o and o[0] == 'raw' and id_fields(int(o[1], 16))[0] == 60928:
            return False                 # a claimant outside the participants
    return True


def oracle_net(case, res):
    if res.startswith('crash'):
        return 'memory:' + res
    if res.startswith('bad') or res == 'oob':
        return 'memory:' + res if res == 'oob' else None
    cfg, ps, ops = parse_net(case)
    if not premise_net(ps, ops):
        return None
    body, _, state = res.partition('|')
    chunks = [c.split() for c in body.split(';')]
    n = len(ps)
    addr = [[(a if p['lib'] else NULL) for a, _ in p['devs']] for p in ps]
    names = [[nm for _, nm in p['devs']] for p in ps]
    on = [False] * n
    inbox = [[] for _ in range(n)]
    claimed = [[None] * len(p['devs']) for p in ps]      # the address each device last claimed on the bus (a participant holds x once it has claimed x)
    has_raw = any(o and o[0] == 'raw' for o in ops)
    opened = [False] * n          # the participant has transmitted something (a library node claims when it opens)
    backlog = [0] * n             # frames handed to a library node before it opened: they wait in its driver and are all handled by the call that opens it
    backlog_dt = [False] * n      # ... among them data frames of a transport session (a commanded address takes effect when the node opens)

    def judge(k, what, delivered, toks):
        """one group of events: the reaction of the network to one operation / one delivery"""
        before = [list(a) for a in addr]
        txs, flags = [], []
        for t in toks:
            f = t.split(':')
            if f[0] == 'tx':
                j = int(f[1])
                fr = (int(f[2], 16), int(f[3]), [] if f[4] == '-' else list(bytes.fromhex(f[4])))
                txs.append((j, fr))
                for q in range(n):
                    if q != j and on[q]:
                        inbox[q].append(fr)
            elif f[0] == 'chg':
                j, d = (int(x) for x in f[1].split('.'))
                if addr[j][d] != int(f[2]):
                    return 'report:op %d participant %d device %d changes from %s but was last seen at %d' % (k, j, d, f[2], addr[j][d])
                addr[j][d] = int(f[3])
                if ps[j]['lib'] and f[4] != '1':
                    return 'unflagged-change:op %d (%s) library node %d device %d moved %s -> %s without the address-changed indication' % (k, what, j, d, f[2], f[3])
        # arbitration
        if delivered is not None and not opened[delivered[0]]:
            backlog[delivered[0]] += 1
            if id_fields(delivered[1][0])[0] == 60160:
                backlog_dt[delivered[0]] = True
        was_open = list(opened)
        if delivered is not None:
            i, (fid, flen, fdata) = delivered
            pgn, src, _ = id_fields(fid)
            if pgn == 60928 and flen == 8 and src <= MAXA and src in before[i] and claimed[i][before[i].index(src)] == src:
                d = before[i].index(src)
                m, nn = names[i][d], le_name(fdata)
                mine = [fr for j, fr in txs if j == i and id_fields(fr[0])[0] == 60928 and fr[1] == 8 and le_name(fr[2]) == m]
                if m < nn:
                    if addr[i][d] != src:
                        return 'defend:op %d participant %d (NAME %x) held %d, received a claim for it from the higher NAME %x and moved to %d' % (k, i, m, src, nn, addr[i][d])
                    if not any(id_fields(fr[0])[1] == src for fr in mine):
                        return 'defend:op %d participant %d (NAME %x) held %d, received a claim from the higher NAME %x and did not answer with its own claim' % (k, i, m, src, nn)
                elif m > nn:
                    if addr[i][d] == src:
                        return 'yield:op %d participant %d (NAME %x) kept %d against the lower NAME %x' % (k, i, m, src, nn)
                    if addr[i][d] <= MAXA and not any(id_fields(fr[0])[1] == addr[i][d] for fr in mine):
                        return 'yield:op %d participant %d (NAME %x) moved %d -> %d without claiming the new address' % (k, i, m, src, addr[i][d])
        # the address a library node transmits from is one it reports
        last_claim = {}
        for j, fr in txs:
            pgn, src, _ = id_fields(fr[0])
            if pgn == 60928 and fr[1] == 8 and le_name(fr[2]) in names[j]:
                claimed[j][names[j].index(le_name(fr[2]))] = src
                last_claim[(j, names[j].index(le_name(fr[2])))] = src
            if not ps[j]['lib'] or (not opened[j] and backlog[j]):
                continue
            if src not in before[j] and src not in addr[j]:
                return 'tx-source:op %d library node %d sent %x from address %d, its devices report %s' % (k, j, fr[0], src, addr[j])
        for (j, d), src in last_claim.items():
            if ps[j]['lib'] and src != addr[j][d]:
                return 'tx-source:op %d library node %d device %d claims address %d but reports %d' % (k, j, d, src, addr[j][d])
        for j, fr in txs:
            opened[j] = True
        # devices of one instance never arbitrate with each other: they must never share an address
        for j in range(n):
            ops_a = [a for a in addr[j] if a <= MAXA]
            if ps[j]['lib'] and len(set(ops_a)) != len(ops_a) and addr[j] != before[j]:
                dup = [a for a in ops_a if ops_a.count(a) > 1][0]
                if (delivered is not None and id_fields(delivered[1][0])[0] == 60160) or (not was_open[j] and backlog_dt[j]):
                    return 'commanded-address:sibling-collision:op %d a commanded address put two devices of library node %d at %d (%s)' % (k, j, dup, addr[j])
                return 'sibling-collision:op %d (%s) two devices of library node %d share address %d (%s)' % (k, what, j, dup, addr[j])
        return None

    for k, (o, toks) in enumerate(zip(ops, chunks)):
        if not o:
            continue
        if o[0] == 'drain':
            groups, cur = [], None
            for t in toks:
                if t.startswith('dl:'):
                    cur = [int(t[3:]), []]
                    groups.append(cur)
                elif cur is not None:
                    cur[1].append(t)
            for i, g in groups:
                if not (on[i] and inbox[i]):
                    return 'report:op %d delivery to participant %d which has nothing pending' % (k, i)
                r = judge(k, 'drain', (i, inbox[i].pop(0)), g)
                if r:
                    return r
            continue
        delivered = None
        if o[0] in ('start', 'join') and len(o) == 2 and 0 <= int(o[1]) < n and not on[int(o[1])]:
            on[int(o[1])] = True
            inbox[int(o[1])] = []
        elif o[0] == 'step' and 0 <= int(o[1]) < n:
            i, kk = int(o[1]), (int(o[2]) if len(o) > 2 else 0)
            if on[i] and 0 <= kk < len(inbox[i]):
                delivered = (i, inbox[i].pop(kk))
        elif o[0] == 'cmd':
            for fr in cmd_frames(int(o[1], 16), int(o[2]), int(o[3]) if len(o) > 3 else 249):
                for q in range(n):
                    if on[q]:
                        inbox[q].append(fr)
        elif o[0] == 'raw':
            d = list(bytes.fromhex(o[3]))[:8] if o[3] != '-' else []
            fr = (int(o[1], 16), int(o[2]), (d + [0] * 8)[:int(o[2])])
            for q in range(n):
                if on[q]:
                    inbox[q].append(fr)
        r = judge(k, ' '.join(o), delivered, toks)
        if r:
            return r
    # the end of the run
    dump = parse_dump(state)
    if len(dump) != n:
        return 'report:state dump lists %d participants' % len(dump)
    for j in range(n):
        if [d['addr'] for d in dump[j]['devs']] != addr[j]:
            return 'report:participant %d reports %s at the end, its operations left it at %s' % (j, [d['addr'] for d in dump[j]['devs']], addr[j])
        if dump[j]['q'] != len(inbox[j]):
            return 'report:participant %d has %d frames pending, expected %d' % (j, dump[j]['q'], len(inbox[j]))
    quiescent = all((not on[j]) or (dump[j]['q'] == 0 and (not ps[j]['lib'] or (dump[j]['open'] == 3 and not any(d['claim'] for d in dump[j]['devs'])))) for j in range(n))
    if not quiescent or not any(on):
        return None
    held = [(a, j, d) for j in range(n) if on[j] for d, a in enumerate(addr[j])]
    opsl = sorted(a for a, _, _ in held if a <= MAXA)
    for a in set(opsl):
        if opsl.count(a) > 1:
            who = [(j, d) for x, j, d in held if x == a]
            return 'unique:at quiescence address %d is held by %s' % (a, who)
    for a, j, d in held:
        if ps[j]['lib'] and a > MAXA and a != NULL:
            return 'address-range:at quiescence device %d of library node %d reports address %d' % (d, j, a)
        if ps[j]['lib'] and a == NULL and len(set(opsl)) < 252 and not has_raw:
            return 'null-with-free-address:at quiescence device %d of library node %d is at 254 although only %d addresses are held' % (d, j, len(set(opsl)))
    return None


def quiescent_result(res):
    body, _, state = res.partition('|')
    d = parse_dump(state)
    return bool(d) and all((not p['on']) or (p['q'] == 0 and not any(x['claim'] for x in p['devs'])) for p in d) and any(p['on'] for p in d)


def names_pool(r, k):
    base = [0, 1, 2, ALL1, ALL1 - 1, NAME0, NAME0 + 1, NAME0 - 1, 1 << 63, (1 << 32) - 1, 1 << 32]
    r.shuffle(base)
    pool = base[:r.randint(0, min(k, 5))]
    while len(pool) < k:
        x = r.getrandbits(64)
        if x not in pool:
            pool.append(x)
    r.shuffle(pool)
    return pool


def participants(r, n, style=None, maxdev=3):
    style = style or r.choice(['equal', 'equal', 'adjacent', 'wrap', 'mixed'])
    base = r.choice([0, 14, 30, 100, 128, 249, 250, 251])
    shapes = []
    for i in range(n):
        shapes.append(('L', r.choice([1, 1, 2, 3][:maxdev + 1])) if r.random() < 0.6 else ('F', 1))
    if not any(s[0] == 'L' for s in shapes):
        shapes[r.randrange(n)] = ('L', r.choice([1, 2]))
    names = names_pool(r, sum(s[1] for s in shapes))
    toks, devs = [], []
    for i, (kind, nd) in enumerate(shapes):
        if style == 'equal':
            a0 = base
        elif style == 'adjacent':
            a0 = (base + i) % 252
        elif style == 'wrap':
            a0 = r.choice([250, 251, 0, 1])
        else:
            a0 = r.choice([base, (base + 1) % 252, r.randrange(252), 251, 0])
        ents = []
        for d in range(nd):
            nm = names.pop()
            ents.append(((a0 + d) % 252, nm))
        devs.append(ents)
        toks.append(('L%d:' % r.choice([1, 2]) if kind == 'L' else 'F:') + ','.join('%d.%x' % e for e in ents))
    return toks, devs


END = ['drain', 'tick 251', 'drain', 'tick 251', 'drain', 'tick 251']


def net_random(r, n=None, maxdev=3, n_ops=None):
    n = n or r.randint(2, 6)
    toks, devs = participants(r, n, maxdev=maxdev)
    libs = [i for i, t in enumerate(toks) if t[0] == 'L']
    order = list(range(n))
    r.shuffle(order)
    late = [i for i in order if r.random() < 0.2]
    ops = []
    for i in order:
        if i not in late:
            ops.append('start %d' % i)
            if r.random() < 0.4:
                ops.append('tick %d' % r.choice([0, 1, 50, 199, 200, 201, 250, 300]))
    if r.random() < 0.7:
        ops += ['tick 1', 'tick %d' % r.choice([200, 201, 250, 260])]
    allnames = [nm for e in devs for _, nm in e]
    alladdr = [a for e in devs for a, _ in e]
    for _ in range(n_ops if n_ops is not None else r.choice([10, 25, 40, 60])):
        x = r.random()
        if x < 0.55:
            ops.append('step %d %d' % (r.randrange(n), r.choice([0, 0, 0, 0, 1, 2, 5])))
        elif x < 0.75:
            ops.append('tick %d' % r.choice([0, 1, 100, 249, 250, 251, 251, 300, 1000, 61000]))
        elif x < 0.83:
            tgt = r.choice(allnames + [r.getrandbits(64)])
            y = r.random()
            if y < 0.5:
                a = r.choice(alladdr)
            elif y < 0.8:
                a = r.choice([(x + 1) % 252 for x in alladdr] + [0, 251])
            else:
                a = r.choice([252, 253, 254, 255, r.randrange(252)])
            ops.append('cmd %x %d' % (tgt, a) + (' %d' % r.choice([249, 248, 0]) if r.random() < 0.2 else ''))
            if r.random() < 0.6:
                ops.append('drain')
        elif x < 0.9:
            ops.append('ack %d' % r.choice(libs))
        elif x < 0.94:
            ops.append('restart %d' % r.choice(libs))
        elif x < 0.97 and late:
            ops.append('join %d' % late.pop())
        else:
            ops.append('drain')
    for i in late:
        ops.append('join %d' % i)
        if r.random() < 0.5:
            ops.append('tick %d' % r.choice([1, 200, 251]))
    if r.random() < 0.9:
        ops += ['tick 1', 'tick 201'] + END
    return 'NET t0=%d | %s | %s' % (r.choice(T0S), ' '.join(toks), ' ; '.join(ops))


def net_all_schedules(r, n, length, configs):
    """every sequence of `length` operations over {participant i processes its oldest pending frame, a claim window passes}, for every
    start order, then the network is drained"""
    cases = []
    alphabet = ['step %d' % i for i in range(n)] + ['tick 251']
    for toks in configs:
        for order in itertools.permutations(range(n)):
            for early in (True, False):
                if early:
                    pre = ['start %d' % i for i in order] + ['tick 1', 'tick 250']
                else:
                    pre = ['start %d' % order[0], 'tick 1', 'tick 250'] + ['start %d' % i for i in order[1:]] + ['tick 1', 'tick 250']
                for seq in itertools.product(alphabet, repeat=length):
                    cases.append('NET t0=%d | %s | %s' % (r.choice(T0S), ' '.join(toks), ' ; '.join(pre + list(seq) + END)))
    return cases


D04_NET = 'NET t0=5000 | L2:30.1a,31.1b | start 0 ; tick 1 ; tick 250 ; tick 251 ; ack 0 ; cmd 1b 30 ; drain ; tick 251'


def gen_net(seed, tier):
    r = random.Random(seed * 7919 + 3)
    thorough = tier != 'quick'
    cases = [D04_NET,
             # examined behaviours outside the premise (memory safety + correspondence only): equal NAMEs on two nodes, a raw claim carrying a sibling's NAME,
             # short claims (read as all-ones), two devices of one instance configured with one address, a device at 254 that sees traffic
             'NET t0=5000 | L2:30.1a F:30.1a | start 0 ; start 1 ; tick 1 ; tick 250 ; drain ; tick 251 ; drain ; tick 251',
             'NET t0=5000 | L2:30.1a,31.1b | start 0 ; tick 1 ; tick 250 ; raw 18eeff1e 8 1b00000000000000 ; drain ; tick 251 ; raw 18eeff1f 3 1b0000 ; drain ; raw 18eeff1f 0 - ; drain ; tick 251',
             'NET t0=5000 | L2:30.1a,30.1b F:30.05 | start 0 ; start 1 ; tick 1 ; tick 250 ; drain ; tick 251 ; drain',
             'NET t0=5000 | L2:254.1a,14.1b F:15.05 | start 1 ; start 0 ; tick 1 ; tick 250 ; drain ; tick 251 ; raw 18eefffe 8 0100000000000000 ; drain ; restart 0 ; drain ; tick 251',
             # the second device of a node configured with 251 gets 252 from SetMode (finding address-range)
             'NET t0=5000 | L1:251.1a,0.1b F:251.05 | start 0 ; start 1 ; tick 1 ; tick 250 ; drain ; tick 251 ; drain ; tick 251',
             # all three devices contend with a lower foreign NAME at the wrap
             'NET t0=4294967000 | L1:250.10,251.11,0.12 F:250.01 F:251.02 F:0.03 | start 0 ; start 1 ; start 2 ; start 3 ; tick 1 ; tick 250 ; drain ; tick 251 ; drain ; tick 251']
    # a device that lost every address (254), whose application has read the address-changed indication, is restarted: it claims 14 and the
    # indication is raised again (seed C03-15); also a restart at an ordinary address and a second exhaustion
    for start in ([30, 251] if not thorough else [30, 251, 0, 14, 100]):
        ops = ['start 0', 'tick 1', 'tick 250', 'tick 251']
        a = start
        for k in range(252):
            ops += ['raw 18eeff%02x 8 0000000000000000' % a, 'drain']
            a = (a + 1) % 252
        ops += ['tick 251', 'ack 0', 'restart 0', 'drain', 'tick 251', 'ack 0', 'raw 18eeff0e 8 0000000000000000', 'drain', 'tick 251', 'ack 0', 'restart 0', 'drain', 'tick 251']
        cases.append('NET t0=%d | L%d:%d.1a | %s' % (r.choice([5000, 4294967000]), r.choice([1, 2]), start, ' ; '.join(ops)))
    nrand = 260 if not thorough else 6000
    for _ in range(nrand):
        cases.append(net_random(r))
    # all schedules, 2 and 3 participants
    two = [['L2:30.1a,31.1b', 'F:30.05'], ['L1:251.2', 'L2:251.1,0.3'], ['L1:30.5', 'F:30.9']]
    three = [['L1:30.3', 'F:30.1', 'L2:30.2,31.4'], ['F:251.2', 'L1:251.3', 'F:0.1']]
    if not thorough:
        cases += net_all_schedules(r, 2, 4, two[:2])
        cases += net_all_schedules(r, 3, 3, three[:1])
    else:
        cases += net_all_schedules(r, 2, 7, two)
        cases += net_all_schedules(r, 3, 5, three)
    return cases


# ---------------------------------------------------------------------------------------------
# (a) single node
def node_cases(seed, tier):
    r = random.Random(seed * 104729 + 11)
    thorough = tier != 'quick'
    cases = []

    def cfg(ndev, src, mode=None, t0=None):
        return 'NODE mode=%d ndev=%d src=%d q=40 slots=5 t0=%d' % (mode or r.choice([1, 2]), ndev, src, t0 if t0 is not None else r.choice(T0S))

    def own_name(i):
        return NAME0 + i
    # whole range occupied: 252 claims with a lower NAME inside one claim run -> the device must end at 254; with ticks in between -> it must not
    for src in ([30, 251, 0] if not thorough else [30, 251, 0, 14, 100, 250, 1]):
        for nm in (0, NAME0 - 1):
            ops = []
            a = src
            for k in range(252):
                ops += [claim(a, nm), 'P']
                a = (a + 1) % 252
            ops += ['T 251', 'P', claim(NULL, 0), 'P', claim(a, 0), 'P']
            cases.append(cfg(1, src) + ' | ' + ' ; '.join(ops))
    ops = []
    a = 30
    for k in range(300):
        ops += [claim(a, 1), 'P'] + (['T 251', 'P'] if k % 50 == 49 else [])
        a = (a + 1) % 252
    cases.append(cfg(1, 30) + ' | ' + ' ; '.join(ops))
    # two devices: the search skips the sibling
    for src in (30, 250, 251 - 1):
        ops = []
        a = src
        for k in range(252):
            ops += [claim(a, 0), 'P']
            a = (a + 1) % 252
            if a == (src + 1) % 252:
                a = (a + 1) % 252
        cases.append(cfg(2, src) + ' | ' + ' ; '.join(ops + ['T 251', 'P']))
    # commanded address onto a sibling (D-04) and elsewhere
    bam = lambda nm, a, dst=255: [tp_rts(65240, 50, dst, 9, bam=(dst == 255)), 'P', tp_dt(50, dst, 1, list(nm.to_bytes(8, 'little'))[:7]), 'P',
                                  tp_dt(50, dst, 2, [list(nm.to_bytes(8, 'little'))[7], a]), 'P']
    cases.append('NODE mode=1 ndev=2 src=30 q=40 slots=5 t0=5000 | ' + ' ; '.join(bam(NAME0 + 1, 30) + ['T 251', 'P']))
    cases.append('NODE mode=1 ndev=2 src=251 q=40 slots=5 t0=5000 | T 251 ; P')     # repaired finding address-range: device 1 starts at 0, not 252
    # SetMode with a source from which several devices run past 251: they get 0, 1, 2, ... (distinct); then a foreign lower NAME claims each
    for src, ndev in ((251, 3), (250, 4), (249, 9), (251, 9), (245, 9)):
        own = [own_addr(src, i) for i in range(ndev)]
        ops = ['T 251', 'P']
        for a in own[-2:]:
            ops += [claim(a, 0), 'P']
        cases.append('NODE mode=%d ndev=%d src=%d q=40 slots=5 t0=5000 | ' % (r.choice([1, 2]), ndev, src) + ' ; '.join(ops + ['T 251', 'P']))
    cases.append('NODE mode=1 ndev=2 src=30 q=40 slots=5 t0=5000 | ' + ' ; '.join(bam(NAME0 + 1, 77) + ['T 251', 'P'] + bam(NAME0, 251) + bam(NAME0, 255) + bam(NAME0, 252)))
    for _ in range(60 if not thorough else 1500):
        ndev = r.choice([1, 1, 2, 3, 4])
        src = r.choice([0, 14, 30, 100, 249, 250, 251, 251 - ndev + 1, 252 - ndev])
        own = [own_addr(src, i) for i in range(ndev)]
        cur = list(own)
        ops = []
        breaks = r.random() < 0.25       # a quarter of the histories contain equal-NAME / short claims (examined; no obligations after the first one)
        for _k in range(r.choice([8, 20, 40])):
            x = r.random()
            if x >= 0.9 and not breaks:
                x = r.random() * 0.9
            if x < 0.6:
                a = r.choice(cur + cur + [(c + 1) % 252 for c in cur] + [r.randrange(252), NULL])
                nm = r.choice([0, 1, ALL1, ALL1 - 1, NAME0 - 1, NAME0 + ndev, NAME0 + 7, r.getrandbits(64)])
                ops += [claim(a, nm), 'P']
                if a in cur and nm < NAME0:
                    i = cur.index(a)
                    c = (a + 1) % 252
                    while c in cur:
                        c = (c + 1) % 252
                    cur[i] = c          # only a guess that aims later claims at the device; the oracle does its own book-keeping
            elif x < 0.8:
                ops += ['T %d' % r.choice([0, 1, 100, 249, 250, 251, 1000]), 'P']
            elif x < 0.9:
                i = r.randrange(ndev)
                ops += bam(NAME0 + i, r.choice([r.randrange(252), 0, 251, cur[i], (cur[i] + 1) % 252, 40]), dst=r.choice([255, cur[i]]))
            else:
                ops += [claim(r.choice(cur), NAME0 + r.randrange(ndev), ln=r.choice([8, 8, 7, 3, 0])), 'P']     # equal NAME / short claims: examined, outside the premise
        if r.random() < 0.2:
            # the application lists PGN 60928 / 65240 in its own message lists (so that claims reach its handlers): they stay system messages (seed C03-16)
            ops = [r.choice(['L 1 60928,127250', 'L 0 60928', 'L 3 65240,129029', 'L 1 60928,59904,65240'])] + ops
        cases.append(cfg(ndev, src) + ' | ' + ' ; '.join(ops + ['T 251', 'P']))
    # a contending claim behind a backlog of ordinary frames: ParseMessages takes 20 frames per call and leaves the rest in the driver (seed C03-17)
    from nodegen import backlog
    for k in ([19, 20, 21] if not thorough else list(range(15, 45))):
        for nm in (0, ALL1):
            cases.append(cfg(1, 30, t0=5000) + ' | ' + ' ; '.join(backlog(r, k, [claim(30, nm)])))
    cases.append(cfg(2, 30, t0=5000) + ' | ' + ' ; '.join(backlog(r, 20, [claim(31, 0)]) + backlog(r, 19, [claim(30, 0), claim(32, 0)])))
    # the claim answer under driver back-pressure: refused when it is produced and again at the next flush(es), or behind an overflowing
    # backlog - it waits in the send queue and goes out when the driver accepts (model / implementation agreement; seeds C03-22, C03-24)
    for pat in ('00', '000', '0', '0' * 95):
        sends = ['S 1 6 127250 15 255 0 0102030405060708'] * (90 if len(pat) > 10 else 0)      # (the sibling device keeps sending: its claim is not pending)
        cases.append(cfg(2, 30, t0=5000).replace('q=40', 'q=20') + ' | ' + ' ; '.join(['A ' + pat] + sends[:len(sends) // 2] + [claim(30, 0), 'P'] + sends[len(sends) // 2:] + ['P', 'T 5', 'P', 'A', 'P', 'T 251', 'P']))
    # every reassembly slot holds an unfinished fast packet stamped shortly before the 32-bit millisecond clock rolls over; afterwards a
    # lower NAME claims our address: the claim needs a slot (the oldest one, older than 100 ms) like any other frame (seed C03-21)
    for t0, gap in ((4294967295 - 50, 150), (4294967295 - 120, 130), (5000, 150), (2147483647 - 50, 150)):
        first = [rx(can_id(3, 129029, 60 + j, 255), [0x20 * (j % 8), 20, 1, 2, 3, 4, 5, 6]) for j in range(5)]
        cases.append(cfg(1, 30, t0=t0) + ' | ' + ' ; '.join(first + ['P', 'T %d' % gap, claim(30, 0), 'P', 'T 251', 'P']))
    # 32-bit scheduler: a deadline that computes to exactly 0xffffffff (the 'disabled' marker) must still fire - cold starts whose open delay,
    # open retry or constructor time hit it, and claims whose 250 ms window ends there (seed C03-18); nothing special in the 64-bit build
    for t0 in (4294967295 - 200, 4294967295, 4294967295 - 1000, 4294967295 - 201, 4294967295 - 199, 4294967295 - 300, 4294967295 - 100, 4294967295 - 301):
        cases.append('NODE mode=1 ndev=1 src=30 q=40 slots=5 t0=%d cold=1 | P ; T 100 ; P ; T 100 ; P ; T 1 ; P ; T 260 ; P ; %s ; P ; T 251 ; P' % (t0, claim(30, 0)))
    for d in (250, 251, 249):
        cases.append('NODE mode=1 ndev=2 src=30 q=40 slots=5 t0=%d | %s ; P ; T 100 ; P ; T 150 ; P ; T 1 ; P ; %s ; P ; T 251 ; P' % (4294967295 - d, claim(30, 0), claim(31, 0)))
    return cases


def oracle_node(case, res):
    if res.startswith('crash'):
        return 'memory:' + res
    if res.startswith('bad'):
        return None
    cfg, ops = parse_case(case)
    per_op, state = parse_result(res)
    ndev, src0 = cfg['ndev'], cfg['src']
    if cfg['mode'] in (1, 2) and cfg.get('cold') and 'copen' not in cfg:
        # a cold node whose CAN interface opens at once: a poll 200 ms or more after the first one completes Open() (and announces the claim)
        # (the first call strictly later than the construction of the node opens the CAN interface; a call 200 ms or more after that one
        #  completes Open())
        t, first, late = 0, None, False
        for o in ops:
            if o and o[0] == 'T':
                t += int(o[1])
            elif o and (o[0] == 'P' or o[0] == 'S' or (o[0] == 'Q' and len(o) > 1 and o[1] in ('pi', 'ci', 'tx', 'rx', 'hd', 'hb', 'ac'))):
                if first is None:
                    if t > 0:
                        first = t
                elif t - first >= 201:
                    late = True
        if late and 'open=3' not in state:
            return 'never-open:the node has not completed Open() although it was polled more than 200 ms after its first poll (%s)' % state.split(' dev0')[0]
        return None
    if cfg['mode'] not in (1, 2) or cfg.get('cold'):
        return None
    addr = [own_addr(src0, i) for i in range(ndev)]
    if src0 > MAXA or any(a > 253 for a in addr):
        return None                       # preferred address outside 0..251: not a claimant the property speaks of
    names = [NAME0 + i for i in range(ndev)]
    if any(o and o[0] == 'A' for o in ops):
        return None                       # driver back-pressure: judged by the correspondence with the model (the queue is C11's subject)
    pending = []
    lost = [set() for _ in range(ndev)]   # addresses lost to a lower NAME since the device last completed a claim
    changed = False
    premise = True
    last_claim_t = 0
    for k, (o, evs) in enumerate(zip(ops, per_op)):
        if not o:
            continue
        if o[0] == 'R':
            d = list(bytes.fromhex(o[3]))
            pending.append((int(o[1], 16), int(o[2]), d[:int(o[2])]))
            continue
        txs = [e for e in evs if e[0] == 'tx']
        if o[0] == 'T' and int(o[1]) >= 250:
            last_claim_t += 1
        if o[0] != 'P':
            continue
        if last_claim_t:
            for s in lost:
                s.clear()                 # ParseMessages after >= 250 ms: every running claim has succeeded, a new search covers the whole range again
            last_claim_t = 0
        before = list(addr)
        frames, pending = pending[:20], pending[20:]     # one ParseMessages call takes at most 20 frames, the others wait in the driver
        if len(frames) > 1:
            sig = [f for f in frames if id_fields(f[0])[0] < 61440 or id_fields(f[0])[0] in (65240, 126208, 126464, 126996, 126998, 126993)]
            if len(sig) <= 1 and all(id_fields(f[0])[0] in (127250, 127488, 129025, 130306) for f in frames if f not in sig):
                frames = sig                  # ordinary data frames around at most one protocol frame do not change what the claim machine owes
        own = [(id_fields(e[1])[1], le_name(e[3])) for e in txs if id_fields(e[1])[0] == 60928 and e[2] == 8]
        for e in txs:
            if not e[4]:
                return 'driver:frame refused by an accepting driver'
        if len(frames) == 1:
            fid, flen, fdata = frames[0]
            pgn, src, dst = id_fields(fid)
            if pgn == 60928 and src <= 253 and src in addr:
                i = addr.index(src)
                if flen < 8 or le_name(fdata) == names[i] or le_name(fdata) in names:
                    premise = False       # malformed claim / NAME of one of our own devices: no obligations from here on
                elif premise:
                    nn = le_name(fdata)
                    mine = [a for a, nm in own if nm == names[i]]
                    if names[i] < nn:
                        if mine != [src]:
                            return 'defend:op %d device %d (NAME %x) holds %d, claim from the higher NAME %x answered by claims from %s' % (k, i, names[i], src, nn, mine)
                    else:
                        if not mine or mine[-1] == src:
                            return 'yield:op %d device %d (NAME %x) holds %d, claim from the lower NAME %x: claims sent from %s' % (k, i, names[i], src, nn, mine)
                        lost[i].add(src)
                        addr[i] = mine[-1]
                        changed = True
                        if addr[i] == NULL:
                            free = [a for a in range(252) if a not in lost[i] and a not in addr]
                            if free:
                                return 'null-with-free-address:op %d device %d gives up with the null address although it never lost %d addresses in this run (e.g. %d)' % (k, i, len(free), free[0])
                        elif addr[i] > MAXA:
                            return 'address-range:op %d device %d moved to address %d' % (k, i, addr[i])
            elif pgn == 60160 and premise:
                # last frame of a commanded address: the named device claims the new address
                for a, nm in own:
                    if nm in names and addr[names.index(nm)] != a:
                        addr[names.index(nm)] = a
                        lost[names.index(nm)].clear()
                        changed = True
        elif frames:
            premise = False
        if premise:
            for a, nm in own:
                if nm in names and addr[names.index(nm)] != a:
                    return 'tx-source:op %d device %d claims from %d but holds %d' % (k, names.index(nm), a, addr[names.index(nm)])
            for e in txs:
                s = id_fields(e[1])[1]
                if s not in before and s not in addr:
                    return 'tx-source:op %d frame %x sent from %d, devices hold %s' % (k, e[1], s, addr)
            opsa = [a for a in addr if a <= MAXA]
            if len(set(opsa)) != len(opsa) and addr != before:
                if frames and id_fields(frames[0][0])[0] == 60160:
                    return 'commanded-address:sibling-collision:op %d a commanded address put two devices of the node at one address (%s)' % (k, addr)
                return 'sibling-collision:op %d two devices of the node share an address (%s)' % (k, addr)
    if not premise:
        return None
    rep = [int(x) for x in re.findall(r'dev\d+\{src=(\d+)', state)]
    for i, a in enumerate(rep):
        if a > MAXA and a != NULL and rep == addr:
            return 'address-range:device %d reports address %d at the end (neither 0..251 nor 254)' % (i, a)
    if rep != addr:
        return 'report:the node reports addresses %s at the end, its claims were sent from %s' % (rep, addr)
    m = re.search(r'ac=(\d)', state)
    if changed and m and m.group(1) != '1':
        return 'unflagged-change:device addresses changed (%s -> %s) and the address-changed indication is not raised' % ([own_addr(src0, i) for i in range(ndev)], addr)
    return None


# ---------------------------------------------------------------------------------------------
def known(case, what):
    key = what.split(':')[0] + (':' + what.split(':')[1] if what.startswith('commanded-address:') else '')
    for k in vlib.known_findings('C03'):
        if key == k['key'] or what.startswith(k['key']):
            return k['line']
    if key in PENDING_KNOWN:
        return '%s (pending entry of known_findings.json)' % PENDING_DESCR.get(key, key)
    return None


def explore_lines(tier):
    thorough = tier != 'quick'
    pre2 = 'start 0 ; start 1 ; tick 1 ; tick 250'
    pre3 = 'start 0 ; start 1 ; start 2 ; tick 1 ; tick 250'
    pre4 = 'start 0 ; start 1 ; start 2 ; start 3 ; tick 1 ; tick 250'
    lines = ['EXPL t0=5000 ticks=2 depth=200 | L2:30.1a,31.1b F:30.05 | ' + pre2,
             'EXPL t0=5000 ticks=2 depth=200 | L1:251.2 L2:251.1,0.3 | ' + pre2,
             'EXPL t0=4294967000 ticks=0 depth=200 | F:30.3 L1:30.1 F:30.2 | ' + pre3,
             'EXPL t0=5000 ticks=0 depth=200 | L1:30.2 L1:30.1 F:31.3 | ' + pre3,
             'EXPL t0=5000 ticks=1 depth=200 | F:251.2 L1:251.3 F:0.1 | ' + pre3]
    if thorough:
        lines += ['EXPL t0=4294967000 ticks=1 depth=200 | L1:30.3 F:30.1 L2:30.2 | ' + pre3,
                  'EXPL t0=4294967000 ticks=0 depth=200 | L1:30.3 F:30.1 F:30.2 | ' + pre3,
                  'EXPL t0=5000 ticks=0 depth=300 | L1:30.4 F:30.1 F:40.2 F:50.3 | ' + pre4,
                  'EXPL t0=5000 ticks=0 depth=300 | L1:30.4 L1:30.1 F:40.2 L1:41.3 | ' + pre4]
    return lines


def check(run, replay=None):
    if replay:
        lines = vlib.read_replay(replay)
        net = [l for l in lines if l.startswith('NET')]
        node = [l for l in lines if l.startswith('NODE')]
        expl = []
    else:
        corpus = vlib.corpus_lines('C03')
        net = [l for l in corpus if l.startswith('NET')] + gen_net(run.seed, run.tier)
        node = [l for l in corpus if l.startswith('NODE')] + node_cases(run.seed, run.tier)
        expl = explore_lines(run.tier)
    run.cov['rule'] = ('(a) one node (1..3 devices, preferred addresses 0/14/30/100/249..251 and the 251->0 wrap) against injected claims: NAME 0, all-ones, ours+-1, random; from its address, the '
                       'next ones, 254; the whole range (252 lower-NAME claims inside one claim run -> 254, with claim windows in between -> never 254), searches that skip a sibling, '
                       'commanded addresses by BAM and RTS (onto a sibling, elsewhere, 251, 252, 255), short and equal-NAME claims (premise broken: correspondence only), ticks 0..1000 ms.  '
                       '(b) networks of 2..6 participants (library instances with 1..3 devices in modes NodeOnly/ListenAndNode, foreign reference nodes) with equal / adjacent / wrapping / '
                       'mixed preferred addresses, NAMEs incl. 0, all-ones and neighbours, every start order, late joiners, random schedules of deliveries (any pending frame, not only the '
                       'oldest), clock steps 0..61000 ms, commanded addresses naming participants and strangers, Restart(), ReadResetAddressChanged(), then drained to quiescence; ALL '
                       'sequences of bounded length over {participant i handles its oldest frame, a claim window passes} for 2 and 3 participants and every start order; clock origins around '
                       '2^31, 2^32; both scheduler builds; model network (Model/NetDefs.v over the frozen node model) and C++ compared on every bus frame, address change, flag and the final '
                       'state.  (d) model-only exhaustive exploration of all schedules for small networks (search).  non-trivial = run that ended quiescent')
    for fs in ('w64', 'w32'):
        if node:
            vlib.correspond(run, 'claim-node-' + fs, 'h_node', fs, 'NODE', node, oracle_node, lambda c, m: 'R ' in c, known=known, model_args=[fs])
        if net:
            vlib.correspond(run, 'claim-net-' + fs, 'h_net', fs, 'NET', net, oracle_net, lambda c, m: quiescent_result(m), known=known, model_args=[fs])
    if expl:
        mexe, err = vlib.build_model('NET')
        if mexe is None:
            run.broken.append('extracted model NET does not build: %s' % (err or '')[-800:])
            return
        out = vlib.run_model(mexe, expl, args=['w64'])
        summary = []
        for l, o in zip(expl, out):
            m = re.match(r'expl states=(\d+) terminals=(\d+) nonunique=(\d+) cut=(\d+) cycles=(\d+) maxdepth=(\d+)(?: witness=\[(.*)\])?', o)
            if not m:
                run.broken.append('model exploration failed on `%s`: %s' % (l, o[:200]))
                continue
            summary.append({'net': l.split('|')[1].strip(), 'states': int(m.group(1)), 'terminals': int(m.group(2)), 'nonunique': int(m.group(3)),
                            'cut': int(m.group(4)), 'cycles': int(m.group(5)), 'maxdepth': int(m.group(6))})
            if int(m.group(3)) or int(m.group(4)) or int(m.group(5)):
                # the model network has a schedule that does not end in a quiescent state with unique addresses: put it to the C++
                parts = l.split('|')
                case = 'NET ' + parts[0].split(' ', 1)[1].strip() + ' |' + parts[1] + '| ' + parts[2].strip() + ((' ; ' + m.group(7)) if m.group(7) else '')
                vlib.correspond(run, 'claim-expl-witness', 'h_net', 'w64', 'NET', [case], oracle_net, None, known=known, model_args=['w64'])
                if not run.violations:
                    run.broken.append('model exploration of `%s`: %s' % (l, o[:300]))
        run.cov['model_exploration_search'] = summary
        run.cov['evaluations'] += sum(s['states'] for s in summary)
