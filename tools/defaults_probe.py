#!/usr/bin/python3
# Default arguments of the message setters / parsers (N2kMessages.h) and of tN2kMsg (N2kMsg.h) as VALUES: the declarations are read from
# the current headers, every default expression is evaluated by the compiler in a small probe program (so `0xff`, `255` and a named constant
# with that value are the same default), and the values are compared with the pinned table tools/ref_default_args.json.
# The generated harness of C05/C15 always passes every argument, so a changed default is invisible to the byte-level comparison; what an
# application gets when it leaves the argument out is part of the published interface (seed C15-21).
#   defaults_probe.py            print the current table
#   defaults_probe.py --pin      rewrite tools/ref_default_args.json from the current headers (done by hand, after review; never by a check)
import os, re, sys, json, subprocess, tempfile, shutil

VERIF = os.path.dirname(os.path.dirname(os.path.abspath(__file__)))
REPO = os.environ.get('VERIF_REPO', '/repo')
HEADERS = ['N2kMessages.h', 'N2kMsg.h']
PIN = os.path.join(VERIF, 'tools', 'ref_default_args.json')


def strip_comments(s):
    s = re.sub(r'/\*.*?\*/', lambda m: ' ' * len(m.group(0)), s, flags=re.S)
    return re.sub(r'//[^\n]*', lambda m: ' ' * len(m.group(0)), s)


def split_top(s):
    out, depth, cur = [], 0, ''
    for ch in s:
        if ch in '(<[{':
            depth += 1
        elif ch in ')>]}':
            depth -= 1
        if ch == ',' and depth == 0:
            out.append(cur)
            cur = ''
        else:
            cur += ch
    out.append(cur)
    return out


def declarations(fname):
    """[(function name, ordinal among the declarations of that name, [(param name, default expr)])] for declarations with default arguments"""
    p = os.path.join(REPO, 'src', fname)
    if not os.path.exists(p):
        return []
    txt = strip_comments(open(p, errors='replace').read())
    res, seen = [], {}
    for m in re.finditer(r'\b([A-Za-z_]\w*)\s*\(', txt):
        name = m.group(1)
        if name in ('if', 'while', 'for', 'switch', 'return', 'sizeof', 'defined'):
            continue
        i, depth = m.end(), 1
        while i < len(txt) and depth:
            depth += txt[i] == '('
            depth -= txt[i] == ')'
            i += 1
        params = txt[m.end():i - 1]
        tail = txt[i:i + 40].lstrip()
        if '=' not in params or not (tail.startswith(';') or tail.startswith('{') or tail.startswith('const') or tail.startswith('__attribute__')):
            continue
        ps = []
        for pos, prm in enumerate(split_top(params)):
            if '=' in prm and not re.search(r'[=!<>]=', prm):
                left, expr = prm.split('=', 1)
                ids = re.findall(r'[A-Za-z_]\w*', left)
                if len(ids) >= 2:                 # a type and a name: a parameter declaration, not an expression of a call
                    ps.append(('%d' % pos, expr.strip(), ids[-1]))      # keyed by position: a renamed parameter is the same parameter
        if ps:
            # an overload is identified by its name and its number of parameters (then by order among equals): moving declarations around in
            # the header does not change which default is which
            nprm = len(split_top(params))
            k = seen.get((name, nprm), 0)
            seen[(name, nprm)] = k + 1
            res.append(('%s/%d' % (name, nprm), k, ps))
    return res


PROBE_HEAD = '''#include <cstdio>
#include <type_traits>
#include <cstddef>
%s
template<class T> typename std::enable_if<std::is_enum<T>::value>::type pv(T v) { printf("%%lld", (long long)v); }
template<class T> typename std::enable_if<std::is_floating_point<T>::value>::type pv(T v) { printf("%%.17Lg", (long double)v); }
template<class T> typename std::enable_if<std::is_integral<T>::value>::type pv(T v) { printf("%%lld", (long long)v); }
template<class T> void pv(T *v) { printf(v ? "pointer" : "null"); }
struct PM : public tN2kMsg {
  static void run() {
%s
  }
};
int main() { PM::run(); return 0; }
'''


def evaluate(items):
    """items: [(key, expr)] -> {key: value text}; expressions that do not compile in the probe are left out (reported as 'unevaluated')"""
    d = tempfile.mkdtemp(prefix='n2k_defaults_')
    try:
        inc = ''.join('#include "%s"\n' % h for h in HEADERS)
        live = list(items)
        for _round in range(6):
            body = ''.join('    printf("%%s\\t", "%s"); pv(%s); printf("\\n");\n' % (k, e) for k, e in live)
            src = PROBE_HEAD % (inc, body)
            f = os.path.join(d, 'probe.cpp')
            open(f, 'w').write(src)
            exe = os.path.join(d, 'probe')
            p = subprocess.run(['g++', '-std=c++11', '-w', '-DESP_PLATFORM', '-I' + os.path.join(VERIF, 'harness', 'fake_esp'), '-I' + os.path.join(REPO, 'src'), f,
                                '-Wl,--unresolved-symbols=ignore-all', '-no-pie', '-o', exe], stdout=subprocess.PIPE, stderr=subprocess.STDOUT, text=True, errors='replace')
            if p.returncode == 0:
                q = subprocess.run([exe], stdout=subprocess.PIPE, stderr=subprocess.STDOUT, text=True, timeout=60)
                return dict(l.split('\t', 1) for l in q.stdout.split('\n') if '\t' in l), [k for k, _ in items if k not in dict(live)]
            bad = {int(x) for x in re.findall(r'probe\.cpp:(\d+):', p.stdout)}
            lines = src.split('\n')
            drop = {k for k, e in live for ln in bad if 0 < ln <= len(lines) and ('"%s"' % k) in lines[ln - 1]}
            if not drop:
                return None, [k for k, _ in items]
            live = [(k, e) for k, e in live if k not in drop]
        return None, [k for k, _ in items]
    except Exception:
        return None, [k for k, _ in items]
    finally:
        shutil.rmtree(d, ignore_errors=True)


def current():
    items = []
    for h in HEADERS:
        for name, k, ps in declarations(h):
            for prm, expr, _pname in ps:
                items.append(('%s:%s#%d:%s' % (h, name, k, prm), expr))
    vals, uneval = evaluate(items)
    return vals, uneval, dict(items)


def compare():
    """-> (list of mismatch descriptions, info dict); an unusable probe gives no mismatch (the pin is a cross-check, never a reason for an alarm by itself)"""
    pin = json.load(open(PIN))['defaults'] if os.path.exists(PIN) else {}
    vals, uneval, exprs = current()
    info = {'pinned': len(pin), 'evaluated': len(vals or {}), 'unevaluated': len(uneval)}
    if vals is None:
        info['note'] = 'probe not usable in this run'
        return [], info
    bad = []
    for k, v in sorted(pin.items()):
        if k in vals and vals[k] != v:
            h, fn, prm = k.split(':')
            bad.append('%s: %s(... argument %s = %s ...) now has the value %s, the pinned default is %s' % (h, fn.split('#')[0], prm, exprs.get(k, '?'), vals[k], v))
        elif k not in vals and k not in uneval:
            h, fn, prm = k.split(':')
            bad.append('%s: %s: argument %s has no default any more (pinned default %s)' % (h, fn.split('#')[0], prm, v))
    return bad, info


def check(run, replay=None):
    """part of the C05 / C15 checks: a changed default is a violation whose replay names the parameters (DEFAULT lines)"""
    import vlib
    if replay and not any(l.startswith('DEFAULT ') for l in vlib.read_replay(replay)):
        return
    bad, info = compare()
    run.cov['default_arguments'] = dict(info, mismatches=len(bad))
    if bad:
        run.violation(vlib.write_replay(run.pid, 'default-arguments-%d' % run.seed, {'property': run.pid, 'family': 'default-arguments', 'seed': run.seed,
                      'failed': 'default arguments of N2kMessages.h / N2kMsg.h (values evaluated by the compiler) against tools/ref_default_args.json',
                      'what': 'default:' + '; '.join(bad[:6])}, ['DEFAULT ' + b for b in bad]))


if __name__ == '__main__':
    vals, uneval, exprs = current()
    if '--pin' in sys.argv:
        json.dump({'_comment': 'default arguments of N2kMessages.h / N2kMsg.h as values (evaluated by the compiler), reviewed 2026-10-01; compared on every run by tools/defaults_probe.py',
                   'defaults': vals}, open(PIN, 'w'), indent=1, sort_keys=True)
    print(len(vals or {}), 'evaluated', len(uneval), 'unevaluated')
    for k in uneval[:20]:
        print('unevaluated', k, exprs[k])
    if '--show' in sys.argv:
        for k, v in sorted((vals or {}).items()):
            print(k, '=', exprs[k], '->', v)
