# C16 - text fields (fixed-length, AIS, variable-length ASCII/UCS-2) : generator, property oracle, correspondence
import random
import vlib

MAXDL = 223


# ---------------------------------------------------------------------------------------------
# strings
def enc(cp):
    return chr(cp).encode('utf-8')


def rand_cp(r, widths):
    w = r.choice(widths)
    if w == 1:
        return r.choice([r.randint(0x20, 0x7E), r.randint(1, 0x7F), 0x41, 0x61, 0x7A, 0x40, 0x3F, 0x7F, 1])
    if w == 2:
        return r.choice([0x80, 0x7FF, 0xE9, 0xE4, 0xFF, 0x100, r.randint(0x80, 0x7FF)])
    if w == 3:
        while True:
            c = r.choice([0x800, 0xFFFF, 0x20AC, 0xD7FF, 0xE000, 0xFFFD, 0xFEFF, r.randint(0x800, 0xFFFF)])
            if not 0xD800 <= c <= 0xDFFF:
                return c
    return r.choice([0x10000, 0x10FFFF, 0x1F600, r.randint(0x10000, 0x10FFFF)])


def valid_utf8(r, nbytes, widths):
    """well-formed UTF-8 of exactly nbytes bytes (padded with ASCII)"""
    out = b''
    while len(out) < nbytes:
        e = enc(rand_cp(r, widths))
        if len(out) + len(e) > nbytes:
            e = bytes([r.randint(0x20, 0x7E)])
        out += e
    return out


BAD_LEADS = [0x80, 0x81, 0x9F, 0xA0, 0xBF, 0xFE, 0xFF]
LEADS = {2: [0xC2, 0xC3, 0xDF, 0xC0], 3: [0xE0, 0xE2, 0xEF, 0xED], 4: [0xF0, 0xF4, 0xF7], 5: [0xF8, 0xFB], 6: [0xFC, 0xFD]}


def mkstr(r, kind, n):
    if n == 0:
        return b''
    if kind == 'ascii':
        return bytes(r.choice([r.randint(0x20, 0x7E), r.randint(1, 0x7F), r.randint(0x41, 0x7A)]) for _ in range(n))
    if kind == 'bmp':
        return valid_utf8(r, n, [1, 1, 2, 3])
    if kind == 'utf8':
        return valid_utf8(r, n, [1, 2, 3, 4])
    if kind == 'rand':
        return bytes(r.randint(1, 255) for _ in range(n))
    b = bytearray(valid_utf8(r, n, [1, 2, 2, 3, 4]))
    if kind == 'invlead':          # bytes that are no lead byte / 5- and 6-byte leads sprinkled in, mostly after a valid multi-byte character
        for _ in range(1 + n // 12):
            b[r.randrange(len(b))] = r.choice(BAD_LEADS + LEADS[5] + LEADS[6])
    elif kind == 'invcont':        # a lead byte followed by something that is no continuation byte
        for _ in range(1 + n // 12):
            p = r.randrange(len(b))
            b[p] = r.choice(LEADS[r.choice([2, 3, 4, 5, 6])])
            if p + 1 < len(b) and r.random() < 0.7:
                b[p + 1] = r.choice([0x41, 0x20, 0x7F, 0xC3, 0xE2, 0xF0, 0xFF])
    elif kind == 'cut':            # the string ends inside a multi-byte sequence
        w = r.choice([2, 3, 4, 5, 6])
        have = r.randint(0, w - 2)
        tail = bytes([r.choice(LEADS[w])] + [r.randint(0x80, 0xBF) for _ in range(have)])
        b = bytearray(bytes(b[:max(0, n - len(tail))]) + tail)
    return bytes(b)


KINDS = ['ascii', 'bmp', 'utf8', 'invlead', 'invcont', 'cut', 'rand']


def hx(b):
    return bytes(b).hex() or '-'


# ---------------------------------------------------------------------------------------------
# generator
def gen(seed, tier):
    r = random.Random(seed * 1000003 + 16)
    quick = tier == 'quick'
    cases = []
    add = cases.append
    fills_b = [0, 1, 2, 3, 100, 200, 210, 215, 216, 217, 218, 219, 220, 221, 222, 223]
    fills = fills_b if quick else list(range(0, 224))
    nuls = [255, 255, 255, 64, 0, 32, 65, 63, 0xC3, 1]

    def rt_var(s, fill=None, maxlen=None, sup=None, lm=None, size=None, nul=None):
        fill = r.choice(fills_b + [r.randint(0, 223)] * 4) if fill is None else fill
        maxlen = r.choice([0, 1, 2, 3, 4, 5, 16, 70, 254, 255, r.randint(0, 255), r.randint(0, 40)]) if maxlen is None else maxlen
        sup = r.randint(0, 1) if sup is None else sup
        lm = r.randint(0, 1) if lm is None else lm
        size = r.choice([0, 1, 2, 3, 4, 5, 80, r.randint(0, 80), r.randint(0, 80), r.randint(0, 20)]) if size is None else size
        nul = r.choice(nuls) if nul is None else nul
        add('RTVAR %d %d %d %d %d %s %s' % (fill, maxlen, sup, lm, size, nul, hx(s)))

    # --- multi-byte sequences cut by the terminator at every position, after nothing / ASCII / a valid multi-byte character (D-21)
    for pre in [b'', b'A', b'\xc3\xa9', b'\xe2\x82\xac', b'x\xc3\xa9y']:
        for w in (2, 3, 4, 5, 6):
            for lead in LEADS[w]:
                for have in range(0, w):
                    s = pre + bytes([lead] + [0x80 + (7 * k + 1) % 64 for k in range(have)])
                    for sup in (0, 1):
                        add('ADDVAR %d %d %d %d %s' % (r.choice([0, 0, 100, 200]), 255, sup, r.randint(0, 1), hx(s)))
                    if lead in (0xC3, 0xE2, 0xF0, 0xF8, 0xFC):
                        rt_var(s, fill=0, maxlen=255, sup=1, lm=0, size=40, nul=255)
                        add('ADDVAR2 %d %s' % (r.choice([0, 50]), hx(s + b'z' if have == w - 1 else s)))
        for bad in BAD_LEADS:
            for post in [b'', b'A', b'AB', b'\xc3\xa9']:
                s = pre + bytes([bad]) + post
                for sup in (0, 1):
                    add('ADDVAR %d %d %d %d %s' % (r.choice([0, 7]), 255, sup, 0, hx(s)))
                rt_var(s, fill=0, maxlen=255, size=40)
    # --- every string length 0..300, every kind
    for n in range(0, 301):
        for kind in (KINDS if not quick else [KINDS[n % len(KINDS)], KINDS[(n * 3 + 1) % len(KINDS)]]):
            s = mkstr(r, kind, n)
            rt_var(s)
            if quick and n % 3:
                continue
            add('ADDVAR2 %d %s' % (r.choice(fills_b + [r.randint(0, 223)]), hx(s)))
            add('RTAIS %d %d %d %s' % (r.choice(fills_b + [r.randint(0, 223)] * 3), r.choice([0, 1, 7, 20, 255, r.randint(0, 255)]), r.randint(0, 80), hx(s)))
            fill = r.choice(fills_b + [r.randint(0, 223)] * 3)
            ln = r.randint(0, MAXDL - fill)
            add('RTSTR %d %d %d %d %s' % (fill, ln, r.choice([255, 255, 0, 64, 32]), r.randint(0, 80), hx(s)))
    # --- maxima 0..255 in bytes and in characters against strings around the maximum
    for maxlen in range(0, 256):
        if quick and maxlen > 24 and maxlen % 9 and maxlen not in (109, 110, 111, 218, 219, 220, 221, 222, 223, 254, 255):
            continue
        for lm in (0, 1):
            for kind in ('ascii', 'bmp', 'utf8'):
                nch = max(0, (maxlen if lm else maxlen // 2) + r.choice([-1, 0, 0, 1, 2]))
                if kind == 'ascii':
                    s = mkstr(r, 'ascii', max(0, maxlen + r.choice([-1, 0, 1])))
                else:
                    s = b''.join(enc(rand_cp(r, [1, 2, 3] if kind == 'bmp' else [1, 2, 3, 4])) for _ in range(nch))
                    if s and max(s) < 0x80:
                        s = enc(0xE9) + s[1:]
                rt_var(s, fill=r.choice([0, 0, 1, 100]), maxlen=maxlen, sup=1, lm=lm, size=r.choice([80, 80, r.randint(0, 80)]), nul=255)
                if not quick:
                    rt_var(s, maxlen=maxlen, lm=lm)
    # --- every fill level: strings that do and do not fit the rest of the payload
    for fill in fills:
        room = MAXDL - fill
        for kind in ('ascii', 'bmp', 'invlead', 'utf8'):
            for n in sorted({0, 1, max(0, room - 3), max(0, room - 2), max(0, room - 1), room, room + 1, room + 10, r.randint(0, 300)}):
                if quick and r.random() < 0.5:
                    continue
                s = mkstr(r, kind, n)
                rt_var(s, fill=fill, maxlen=r.choice([255, 255, 255, r.randint(0, 255)]), size=r.choice([80, r.randint(0, 80)]))
                if n in (room, room + 1, 1):
                    add('ADDAIS %d %d %s' % (fill, r.choice([n, n + 1, 255, 20, 0]), hx(s)))
                    ln = r.choice([0, room, r.randint(0, room)])
                    add('ADDSTR %d %d %d %s' % (fill, ln, 255, hx(s)))
    # --- destination sizes 0..80 for the three readers on produced fields
    for size in range(0, 81):
        for kind in ('ascii', 'bmp', 'utf8'):
            n = r.choice([size - 2, size - 1, size, size + 1, size + 5, r.randint(0, 100)])
            s = mkstr(r, kind, max(0, n))
            rt_var(s, fill=r.choice([0, 0, 3, 120]), maxlen=255, sup=1, size=size, nul=r.choice([255, 255, 64]))
            add('RTAIS %d %d %d %s' % (r.choice([0, 5, 150]), r.choice([max(0, n), 20, 7]), size, hx(s)))
            add('RTSTR %d %d %d %d %s' % (r.choice([0, 5, 100]), r.choice([max(0, n), 32, size]), 255, size, hx(s)))
    # --- random further round trips
    for _ in range(3000 if quick else 30000):
        rt_var(mkstr(r, r.choice(KINDS), r.choice([r.randint(0, 30), r.randint(0, 120), r.randint(0, 300)])))
    # --- arbitrary payloads: GetVarStr with every length byte and type, GetStr sized / unsized
    def payload(dl):
        n = min(MAXDL, dl + r.choice([0, 0, 3, 40]))
        mode = r.random()
        if mode < 0.3:
            return [r.choice([0, 0xFF, 0x40, 0x41, 0xD8, 0xDC, 0x3F]) for _ in range(n)]
        return [r.randrange(256) for _ in range(n)]

    reps = 1 if quick else 12
    small = 0
    for lb in range(0, 256):
        for ty in [0, 1, 2, 255, r.randrange(256)]:
            for _ in range(reps):
                dl = r.choice([0, 1, 2, 3, 222, 223, r.randint(0, 223), r.randint(0, 223)])
                idx = r.choice([0, 0, 0, max(0, dl - 1), max(0, dl - 2), max(0, dl - 3), dl, dl + 1, 222, 223, 224, r.randint(0, 230),
                                max(0, dl - lb), max(0, dl - lb + 1), max(0, dl - lb - 1)])
                d = payload(dl)
                if idx < len(d):
                    d[idx] = lb
                if idx + 1 < len(d):
                    d[idx + 1] = ty
                size = r.choice([0, 1, 2, 3, 4, 80, r.randint(0, 80), r.randint(0, 80)])
                nul = r.choice(['-', '-', '255', '64', '0', '65', str(r.randrange(256))])
                add('GETVAR %d %s %d %d %s' % (size, nul, idx, dl, hx(d)))
    for _ in range(1500 if quick else 15000):
        dl = r.choice([0, 1, 223, r.randint(0, 223), r.randint(0, 223)])
        ln = r.choice([0, 1, 2, 7, 20, 32, 223, 255, r.randint(0, 255), r.randint(0, 40)])
        idx = r.choice([0, 0, max(0, dl - ln), max(0, dl - ln + 1), max(0, dl - ln - 1), dl, r.randint(0, 230)])
        d = payload(dl)
        size = r.choice([0, 1, 2, ln, ln + 1, ln + 2, r.randint(0, 80), r.randint(0, 80)])
        add('GETSTR %d %d %d %d %d %s' % (size, ln, r.choice([255, 64, 0, 65, r.randrange(256)]), idx, dl, hx(d)))
        if ln <= 120:
            # the unsized GetStr writes Length+1 bytes; a few too small destinations check that the model's OOB is the sanitizer's
            usize = ln + 1
            if r.random() < 0.1 and small < 40:          # (each one is a sanitizer abort and a harness restart: keep them few)
                usize = r.choice([ln, max(0, ln - 1), 0, ln + 5])
                small += usize < ln + 1
            add('GETSTRU %d %d %d %d %s' % (usize, ln, idx, dl, hx(d)))
    return cases


# ---------------------------------------------------------------------------------------------
# the property, in plain Python
def ais_map(text):
    out = bytearray()
    for b in text:
        c = b - 32 if 0x61 <= b <= 0x7A else b
        out.append(c if 0x20 <= c <= 0x5F else 0x3F)
    return bytes(out)


def cstr(buf):
    i = buf.find(b'\0')
    return None if i < 0 else buf[:i]


def parse_add(part):
    t = part.split()
    if len(t) != 7 or t[0] != 'dl' or t[2] != 'stale' or t[4] != 'dirty':
        return None
    return int(t[1]), int(t[3]), int(t[5]), (b'' if t[6] == '-' else bytes.fromhex(t[6]))


def parse_get(part):
    t = part.split()
    d = {}
    for k in range(0, len(t) - 1, 2):
        d[t[k]] = t[k + 1]
    if 'ret' not in d or 'buf' not in d or 'idx' not in d:
        return None
    return int(d['ret']), int(d['idx']), (b'' if d['buf'] == '-' else bytes.fromhex(d['buf']))


def check_dest(size, buf):
    if len(buf) != size:
        return 'get-terminated:destination report has the wrong size'
    if size > 0 and cstr(buf) is None:
        return 'get-terminated:destination buffer of %d bytes is not NUL-terminated' % size
    return None


def var_wellformed(fill, a):
    dl, stale, dirty, field = a
    room = MAXDL - fill
    L = dl - fill
    if dl > MAXDL or L != len(field):
        return 'var-wellformed:DataLen %d out of range' % dl
    if dirty:
        return 'var-wellformed:%d payload bytes outside the field were modified' % dirty
    if L == 0:
        return None if room < 2 else 'var-wellformed:no field although %d bytes are free' % room
    if L == 1:
        # one free byte cannot hold length and type: the only consistent thing is a length byte counting itself
        return None if (room == 1 and field[0] == 1) else 'var-wellformed:one byte field %s with %d bytes free' % (field.hex(), room)
    if field[0] != L:
        return 'var-wellformed:length byte %d but %d bytes appended' % (field[0], L)
    if field[1] not in (0, 1):
        return 'var-wellformed:type byte %d' % field[1]
    if stale:
        return 'var-wellformed:%d of the %d bytes counted by the length byte were never written (stale payload content)' % (stale, L - 2)
    if field[1] == 0 and L % 2:
        return 'var-wellformed:UCS-2 field with an odd number of bytes'
    return None


def fit_utf8(cps, room):
    """longest prefix of code points whose UTF-8 encoding fits into room bytes (stop at the first that does not fit)"""
    out = b''
    for c in cps:
        e = enc(c)
        if len(out) + len(e) > room:
            break
        out += e
    return out


def expected_var_text(text, fill, maxlen, sup, lm, size, nul):
    """None = the property promises nothing about the content for this input"""
    if fill > MAXDL - 2 or size == 0 or 0 in text:
        return None
    room = MAXDL - 2 - fill
    if max(text, default=0) < 0x80:
        if nul in text:
            return None
        return text[:min(len(text), maxlen, room)][:size - 1]
    try:
        cps = [ord(ch) for ch in text.decode('utf-8')]
    except UnicodeDecodeError:
        return None
    if sup:
        cps = [c if c < 0x10000 else 0x3F for c in cps]
        if nul in cps:
            return None
        k = min(room, maxlen * 2 if lm else maxlen) // 2
        return fit_utf8(cps[:k], size - 1)
    mapped = bytes(c if c < 0x80 else 0x3F for c in cps)
    if nul in mapped:
        return None
    return mapped[:min(room, maxlen)][:size - 1]


def oracle(case, res):
    """the property, applied to what the implementation did (independent of the Coq model)"""
    t = case.split()
    op = t[0]
    if res.startswith('crash'):
        if op == 'GETSTRU' and int(t[1]) < int(t[2]) + 1:
            return None          # the unsized GetStr needs Length+1 bytes: the caller's responsibility
        return 'memory:%s %s' % (op, res)
    parts = [p.strip() for p in res.split('|')]
    if op in ('ADDSTR', 'ADDAIS', 'ADDVAR', 'ADDVAR2', 'RTSTR', 'RTAIS', 'RTVAR'):
        fill = int(t[1])
        a = parse_add(parts[0])
        if a is None:
            return 'add-result:%s' % parts[0][:60]
        text = b'' if t[-1] == '-' else bytes.fromhex(t[-1])
        dl, stale, dirty, field = a
        if dl > MAXDL:
            return 'memory:DataLen %d' % dl
        if op in ('ADDSTR', 'RTSTR'):
            ln, fc = int(t[2]), int(t[3])
            exp = text[:ln] + bytes([fc]) * (ln - len(text[:ln]))
            if (dl, stale, dirty, field) != (fill + ln, 0, 0, exp):
                return 'fixed-field:AddStr did not append the text padded to %d bytes' % ln
            if op == 'RTSTR':
                size = int(t[4])
                g = parse_get(parts[1])
                if g is None:
                    return 'get-result:%s' % parts[1][:60]
                bad = check_dest(size, g[2])
                if bad:
                    return bad
                if size > 0 and fc not in text and fc != 0:
                    if g[0] != 1 or cstr(g[2]) != text[:ln][:size - 1]:
                        return 'roundtrip-fixed:GetStr(AddStr(text)) is not the text truncated to field and buffer'
            return None
        if op in ('ADDAIS', 'RTAIS'):
            ln = int(t[2])
            n = min(ln, MAXDL - fill)
            m = ais_map(text)[:n]
            exp = m + b'@' * (n - len(m))
            if (dl, stale, dirty, field) != (fill + n, 0, 0, exp):
                return 'ais-field:AddAISStr did not append the mapped text padded with @ to %d bytes' % n
            if op == 'RTAIS':
                size = int(t[3])
                g1, g2 = parse_get(parts[1]), parse_get(parts[2])
                if g1 is None or g2 is None:
                    return 'get-result:%s' % res[:80]
                bad = check_dest(size, g1[2]) or check_dest(n + 1, g2[2])
                if bad:
                    return bad
                if 0x40 not in text:
                    if size > 0 and (g1[0] != 1 or cstr(g1[2]) != m[:size - 1]):
                        return 'roundtrip-ais:sized GetStr of an AIS field is not the mapped text truncated to field and buffer'
                    if g2[0] != 1 or cstr(g2[2]) != m:
                        return 'roundtrip-ais:unsized GetStr of an AIS field is not the mapped text'
            return None
        # variable-length fields
        bad = var_wellformed(fill, a)
        if bad:
            return bad
        if op == 'RTVAR':
            maxlen, sup, lm, size = int(t[2]), int(t[3]), int(t[4]), int(t[5])
            nul = 255 if t[6] == '-' else int(t[6])
            g = parse_get(parts[1])
            if g is None:
                return 'get-result:%s' % parts[1][:60]
            bad = check_dest(size, g[2])
            if bad:
                return bad
            exp = expected_var_text(text, fill, maxlen, sup, lm, size, nul)
            if exp is not None and (g[0] != 1 or cstr(g[2]) != exp):
                return 'roundtrip-var:GetVarStr(AddVarStr(text)) gives %s, expected %s' % ((cstr(g[2]) or b'').hex() or '-', exp.hex() or '-')
        return None
    if op in ('GETSTR', 'GETSTRU', 'GETVAR'):
        size = int(t[1])
        g = parse_get(parts[0])
        if g is None:
            return 'get-result:%s' % parts[0][:60]
        if op == 'GETSTRU' and size < int(t[2]) + 1:
            return None
        return check_dest(size, g[2])
    return None


def nontrivial(case, mres):
    return mres not in ('badcase', 'skip')


def check(run, replay=None):
    cases = vlib.read_replay(replay) if replay else vlib.corpus_lines('C16') + gen(run.seed, run.tier)
    run.cov['rule'] = ('cases = committed corpus + multi-byte sequences cut by the terminator at every position (after nothing / ASCII / a valid multi-byte character) '
                       '+ bytes that are no lead byte + strings of every length 0..300 of 7 kinds (ASCII, BMP, with 4-byte sequences, invalid lead, invalid continuation, cut, random bytes) '
                       '+ maxima 0..255 in bytes and characters around the string length + every fill level with strings around the free room '
                       '+ destination sizes 0..80 + GetVarStr on arbitrary payloads with every length byte x type + GetStr sized/unsized on arbitrary payloads; '
                       'every add runs on two differently preset payloads so that never-written field bytes are visible; non-trivial = distinct case text')
    run.assumptions += ['x86-64: char is signed, toupper() in the C locale (glibc tolerates negative arguments; the C standard does not)',
                        'maxima, fixed lengths and destination sizes are non-negative; Index is non-negative and Index+255 does not overflow int',
                        'AddStr/SetBufStr has no bounds check by design: only lengths that fit the remaining payload are in scope',
                        'the unsized GetStr(StrBuf,Length,Index) writes Length+1 bytes: the destination is given exactly that size',
                        'the StrBufSize value returned by GetVarStr is compared between model and code but is not part of the property']
    vlib.correspond(run, 'text', 'h_text', 'w64', 'C16', cases, oracle, nontrivial)
