# C17 - Actisense format: SendInActisenseFormat / tActisenseReader : generator, property oracle, correspondence
import random
import vlib

ESC, STX, ETX, T_DATA, T_REQ = 0x10, 0x02, 0x03, 0x93, 0x94
SPECIAL = [ESC, STX, ETX, T_DATA, T_REQ]


# ------------------------------------------------------------------------------------------------------------------
# the format, written down independently of the Coq model (used by the generator to build streams and by the oracle)
def le(v, n):
    return [(v >> (8 * i)) & 255 for i in range(n)]


def body93(pri, pgn, dst, src, tim, data, ln=None, dl=None):
    return [T_DATA, (len(data) + 11 if ln is None else ln) & 255, pri] + le(pgn, 3) + [dst, src] + le(tim, 4) + \
           [len(data) if dl is None else dl] + list(data)


def body94(pri, pgn, dst, data, ln=None, dl=None):
    return [T_REQ, (len(data) + 6 if ln is None else ln) & 255, pri] + le(pgn, 3) + [dst, len(data) if dl is None else dl] + list(data)


def escape(bs):
    out = []
    for x in bs:
        out.append(x)
        if x == ESC:
            out.append(ESC)
    return out


def frame(body, ck=None):
    """start sequence, escaped body + checksum (computed unless given), end sequence"""
    if ck is None:
        ck = (-sum(body)) & 255
    return [ESC, STX] + escape(list(body) + [ck]) + [ESC, ETX]


def msg_of_body(b, dsrc, now):
    """unescaped frame content (checksum included) -> message text if the frame is consistent, else None"""
    if len(b) < 3 or b[0] not in (T_DATA, T_REQ):
        return None
    if b[1] + 3 != len(b) or sum(b) % 256 != 0:
        return None
    h = 13 if b[0] == T_DATA else 8
    if len(b) < h + 1:
        return None
    dl = b[h - 1]
    if dl > 223 or h + dl + 1 != len(b):
        return None
    pgn = b[3] | b[4] << 8 | b[5] << 16
    if b[0] == T_DATA:
        src, tim = b[7], b[8] | b[9] << 8 | b[10] << 16 | b[11] << 24
    else:
        src, tim = dsrc, now % (1 << 32)
    return '%d %d %d %d %d %s' % (b[2], pgn, b[6], src, tim, bytes(b[h:h + dl]).hex() or '-')


def content_from(bs, p):
    """tokens of a frame whose start sequence ends just before index p: (content, index after the terminating token, how it ended)"""
    out = []
    n = len(bs)
    while p < n:
        if bs[p] != ESC:
            out.append(bs[p]); p += 1
        elif p + 1 >= n:
            return out, n, 'open'
        elif bs[p + 1] == ESC:
            out.append(ESC); p += 2
        elif bs[p + 1] == ETX:
            return out, p + 2, 'end'
        elif bs[p + 1] == STX:
            return out, p + 2, 'restart'
        else:
            return out, p + 2, 'abort'
    return out, n, 'open'


def candidates(bs, dsrc, now):
    """every place where a complete consistent frame stands in the stream: (start, end, message text)"""
    res = []
    for p in range(len(bs) - 1):
        if bs[p] == ESC and bs[p + 1] == STX:
            c, e, how = content_from(bs, p + 2)
            if how == 'end':
                m = msg_of_body(c, dsrc, now)
                if m:
                    res.append((p, e, m))
    return res


def reference(bs, dsrc, now):
    """the frames a reader must report: scan for a start sequence, read tokens to the end sequence; a start sequence inside a
    frame restarts, ESC + anything else drops the frame.  Second result: False if a frame grew beyond every valid size
    (what a reader does with the rest of such a frame is its own business, so nothing is demanded then)."""
    out = []
    certain = True
    bs = bytes(bs)
    i = bs.find(bytes([ESC, STX]))
    while i >= 0:
        p = i + 2
        while True:
            c, e, how = content_from(bs, p)
            if len(c) > 258:
                certain = False
            if how == 'restart':
                p = e
                continue
            break
        if how == 'end':
            m = msg_of_body(c, dsrc, now)
            if m:
                out.append(m)
        if how == 'open':
            break
        i = bs.find(bytes([ESC, STX]), e)
    return out, certain


# ------------------------------------------------------------------------------------------------------------------
def hx(bs):
    return bytes(bs).hex() or '-'


def payload(r, n, mode):
    if n == 0:
        return []
    if mode == 0:
        return [r.choice([x for x in range(256) if x != ESC]) for _ in range(n)]
    if mode == 1:
        d = [r.randrange(256) for _ in range(n)]
        d[r.randrange(n)] = ESC
        return d
    if mode == 2:
        return [ESC if r.random() < 0.1 else r.randrange(256) for _ in range(n)]
    if mode == 3:
        return [ESC if r.random() < 0.5 else r.choice(SPECIAL + [r.randrange(256)]) for _ in range(n)]
    if mode == 4:
        return [ESC] * n
    return [r.choice(SPECIAL + [0, 255]) for _ in range(n)]


def header(r):
    pri = r.choice([0, 1, 2, 3, 6, 7, r.randrange(8)])
    pgn = r.choice([1, 0xFFFFFF, 0x101010, 0x100000, 0x000010, 59904, 126996, 130000, 0x030210, r.randrange(1, 1 << 24), r.randrange(1, 1 << 17)])
    dst = r.choice([0, 255, ESC, STX, ETX, r.randrange(256)])
    src = r.choice([0, 254, ESC, STX, ETX, r.randrange(256)])
    tim = r.choice([0, 1, 0xFFFFFFFF, 0x10101010, 0x03100210, 0x80000000, r.randrange(1 << 32), r.randrange(1 << 16)])
    return pri, pgn, dst, src, tim


def with_checksum_esc(r, n):
    """a message whose checksum is 0x10 (the last data byte is adjusted)"""
    pri, pgn, dst, src, tim = header(r)
    d = payload(r, n, r.choice([0, 2, 3, 4]))
    b = body93(pri, pgn, dst, src, tim, d)
    d[-1] = (d[-1] + ((-sum(b)) & 255) - ESC) & 255
    assert (-sum(body93(pri, pgn, dst, src, tim, d))) & 255 == ESC
    return pri, pgn, dst, src, tim, d


def mline(op, m):
    return '%s %d %d %d %d %d %s' % (op, m[0], m[1], m[2], m[3], m[4], hx(m[5]))


def garbage(r, kind=None):
    kind = r.randrange(8) if kind is None else kind
    n = r.choice([0, 1, 2, 3, 5, 10, 30])
    if kind == 0:
        return []
    if kind == 1:
        return [r.randrange(256) for _ in range(n)]
    if kind == 2:
        return [r.choice(SPECIAL + [r.randrange(256)]) for _ in range(n)]
    if kind == 3:
        return [r.randrange(256) for _ in range(n)] + [ESC]                    # unpaired escape before the start sequence
    if kind == 4:                                                             # a truncated frame
        f = frame(body93(*header(r), payload(r, r.randint(1, 20), 2)))
        return f[:r.randint(2, len(f) - 1)]
    if kind == 5:                                                             # a frame dropped by ESC + illegal byte
        f = frame(body93(*header(r), payload(r, r.randint(1, 20), 0)))
        k = r.randint(2, len(f) - 2)
        return f[:k] + [ESC, r.choice([0, 1, 4, 0x93, 0xFF])] + f[k:r.randint(k, len(f))]
    if kind == 6:
        return [ESC, STX] * r.randint(1, 3) + [STX] * r.randint(0, 2)
    return [ESC] * r.randint(1, 4)


def dec(r, bs, fill=None, now=None, dsrc=None, ro=1, cuts='-'):
    fill = r.choice([0, 0xAA, 0xFF, 10, 0xD4, r.randrange(256)]) if fill is None else fill
    now = r.choice([0, 1, 123456789, 0xFFFFFFFF, 0x100000005]) if now is None else now
    dsrc = r.choice([65, 0, 255, ESC]) if dsrc is None else dsrc
    return 'DEC %d %d %d %d %s %s' % (fill, now, dsrc, ro, cuts, hx(bs))


def bad_frames(r):
    """frames whose length byte, embedded data length, size and checksum disagree in every direction"""
    out = []
    h = header(r)
    for n, ln, dl in [(244, 255, 10), (244, 255, 223), (244, 255, 0), (244, 255, 244), (230, 241, 223), (224, 235, 224), (224, 235, 223),
                      (10, 21, 11), (10, 21, 9), (10, 21, 0), (10, 21, 223), (10, 21, 255), (2, 13, 8), (0, 11, 0), (0, 11, 1), (1, 12, 0),
                      (223, 234, 222), (223, 234, 224), (222, 233, 223), (10, 20, 10), (10, 22, 10), (10, 20, 9), (10, 0, 10), (10, 255, 10)]:
        out.append(frame(body93(*h, payload(r, n, 2), ln=ln, dl=dl)))
    for n, ln, dl in [(249, 255, 10), (249, 255, 223), (249, 255, 249), (10, 16, 11), (10, 16, 9), (10, 16, 0), (0, 6, 0), (0, 6, 5), (3, 9, 200),
                      (223, 229, 222), (10, 15, 10), (10, 17, 10)]:
        out.append(frame(body94(h[0], h[1], h[2], payload(r, n, 2), ln=ln, dl=dl)))
    # bodies too short to hold the header: every size from 0 to 14 bytes with a matching length byte and checksum
    for k in range(0, 15):
        for ty in (T_DATA, T_REQ):
            b = ([ty, (k - 2) & 255] + [r.choice([0, 1, 5, 0xAA, 223]) for _ in range(20)])[:k]
            out.append(frame(b))
            if k >= 2:
                b2 = list(b); b2[1] = (k - 2 + r.choice([1, -1, 2])) & 255
                out.append(frame(b2))
    # wrong type byte, wrong checksum, checksum one off
    g = body93(*h, payload(r, 8, 0))
    out.append(frame([0x92] + g[1:])); out.append(frame([0x95] + g[1:])); out.append(frame([ESC] + g[1:])); out.append(frame([STX] + g[1:]))
    out.append(frame(g, ck=((-sum(g)) + 1) & 255)); out.append(frame(g, ck=((-sum(g)) - 1) & 255)); out.append(frame(g, ck=ESC))
    return out


def gen(seed, tier):
    r = random.Random(seed * 1000003 + 17)
    quick = tier == 'quick'
    scale = 6 if quick else 60
    cases = []
    good = []
    # --- encode / round trip: every payload length x escape densities; checksum 0x10; header extremes
    for n in range(1, 224):
        modes = [n % 5, 4] if quick else [0, 1, 2, 3, 4, 5]
        for mode in modes:
            m = header(r) + (payload(r, n, mode),)
            cases.append(mline('RT', m))
            if mode != 4 or n % 8 == 0 or n > 215:
                cases.append(mline('ENC', m))
            good.append(m)
        if n % (4 if quick else 1) == 0 or n in (1, 5, 16, 222, 223):
            m = with_checksum_esc(r, n)
            cases.append(mline('RT', m)); cases.append(mline('ENC', m)); good.append(m)
    for pgn in (0, 1, 0xFFFFFF, 0x1000000, 0x1000001, 0xFFFFFFFF):       # invalid (0) and beyond 24 bit: no crash, nothing demanded
        cases.append(mline('RT', (6, pgn, 255, 1, 5, [1, 2, 3]))); cases.append(mline('ENC', (6, pgn, 255, 1, 5, [1, 2, 3])))
    cases.append(mline('ENC', (6, 130000, 255, 1, 5, []))); cases.append(mline('RT', (6, 130000, 255, 1, 5, [])))
    for pri in (8, ESC, 255):
        cases.append(mline('RT', (pri, 130000, 255, 1, 5, [ESC, 2, 3])))
    # --- decode: single frames cut at every byte boundary (two chunks) and fed byte by byte
    small = [header(r) + (payload(r, n, md),) for n, md in [(1, 0), (5, 2), (8, 3), (16, 4), (3, 4)]] + [with_checksum_esc(r, 6)]
    for m in small[:(3 if quick else 6)]:
        f = frame(body93(*m))
        for k in range(len(f) + 1):
            cases.append(dec(r, f + f[:5], cuts=str(k)))
        cases.append(dec(r, f, cuts='e1')); cases.append(dec(r, f, cuts='e1', ro=0))
    rq = frame(body94(3, 59904, 255, [0x14, 0xF0, 0x01]))
    for k in range(len(rq) + 1):
        cases.append(dec(r, rq, cuts=str(k)))
    # --- decode: frames of every kind with garbage between them
    bads = bad_frames(r)
    for b in bads:
        cases.append(dec(r, b, fill=r.choice([0, 170, 255, 5])))
        g = frame(body93(*header(r), payload(r, r.choice([1, 8, 223]), 2)))
        cases.append(dec(r, g + b + g, cuts=r.choice(['-', 'e1', 'e7'])))        # stale buffer contents from the frame before
    for _ in range(250 * scale):
        parts = []
        for _ in range(r.randint(1, 4)):
            parts += garbage(r)
            k = r.random()
            if k < 0.55:
                m = r.choice(good) if r.random() < 0.5 else header(r) + (payload(r, r.choice([1, 2, 8, 30, 223, r.randint(1, 223)]), r.randrange(6)),)
                parts += frame(body93(*m))
            elif k < 0.7:
                parts += frame(body94(r.randrange(8), r.randrange(1 << 24), r.randrange(256), payload(r, r.choice([0, 3, 8, 223, r.randint(0, 223)]), r.randrange(6) if r.random() < .8 else 0) or []))
            elif k < 0.85:
                parts += r.choice(bads)
            else:                                                                # overlong frame (more than the reader's buffer holds)
                parts += [ESC, STX] + escape([r.choice([T_DATA, r.randrange(256)])] + [r.choice(SPECIAL[1:] + [r.randrange(256)]) for _ in range(r.choice([257, 258, 259, 297, 298, 299, 300, 301, 302, 310, 420]))]) + [ESC, ETX]
        parts += garbage(r, r.choice([0, 1, 4]))
        cases.append(dec(r, parts, ro=r.choice([1, 1, 0]), cuts=r.choice(['-', '-', 'e1', 'e2', 'e13', '%d' % r.randrange(len(parts) + 1)])))
    # --- decode: mutated good streams
    for _ in range(150 * scale):
        m = header(r) + (payload(r, r.choice([1, 4, 8, 12, 40]), r.randrange(6)),)
        f = frame(body93(*m)) if r.random() < 0.8 else frame(body94(m[0], m[1], m[2], m[5]))
        b = list(f + f)
        for _ in range(r.randint(1, 3)):
            p = r.randrange(len(b))
            k = r.random()
            if k < 0.4:
                b[p] = r.choice(SPECIAL + [r.randrange(256)])
            elif k < 0.7:
                del b[p]
            else:
                b.insert(p, r.choice(SPECIAL + [r.randrange(256)]))
        cases.append(dec(r, b, ro=r.choice([1, 1, 0])))
    # --- decode: arbitrary byte streams biased towards the bytes that mean something
    for _ in range(500 * scale):
        n = r.choice([r.randint(0, 12), r.randint(0, 80), r.randint(50, 400), r.randint(300, 700) if not quick or r.random() < .2 else 40])
        w = r.choice([0.2, 0.5, 0.8, 0.97])
        bs = [r.choice(SPECIAL) if r.random() < w else r.randrange(256) for _ in range(n)]
        cases.append(dec(r, bs, ro=r.choice([1, 1, 0]), cuts=r.choice(['-', 'e1', 'e5'])))
    # streams that fill the buffer exactly
    for n in (297, 298, 299, 300, 301):
        cases.append(dec(r, [ESC, STX, T_DATA, 0xFF] + [7] * (n - 2) + [ESC, ETX] + frame(body93(*small[0]))))
        cases.append(dec(r, [ESC, STX, T_DATA, (n - 3) & 255] + [0] * (n - 3) + [(-(T_DATA + ((n - 3) & 255))) & 255, ESC, ETX]))
    return cases


# ------------------------------------------------------------------------------------------------------------------
def parse_msgs(res):
    """'xx <n> | m1 | m2 | st ... | skip ...' -> (n, [message texts], rest parts)"""
    parts = [p.strip() for p in res.split('|')]
    head = parts[0].split()
    n = int(head[1])
    msgs = [p for p in parts[1:] if not p.startswith(('st ', 'skip '))]
    return n, msgs


def oracle(case, res):
    """the property, applied to what the implementation did (independent of the Coq model)"""
    t = case.split()
    if res.startswith('crash'):
        return 'memory:%s %s' % (t[0], res)
    if 'canary' in res:
        return 'memory:%s the received tN2kMsg was written outside Data[0..DataLen) / DataLen out of range (%s)' % (t[0], res[-40:])
    if t[0] in ('ENC', 'RT'):
        pri, pgn, dst, src, tim = [int(x) for x in t[1:6]]
        data = bytes.fromhex(t[6]) if t[6] != '-' else b''
        valid = 0 < pgn < (1 << 24) and 1 <= len(data) <= 223 and tim < (1 << 32)
        want = '%d %d %d %d %d %s' % (pri, pgn, dst, src, tim, data.hex() or '-')
        if not valid:
            return None
        if t[0] == 'RT':
            if not res.startswith('rt '):
                return 'roundtrip:unexpected result %s' % res[:60]
            n, msgs = parse_msgs(res)
            if n != 1 or msgs != [want]:
                return 'roundtrip:reader reported %d message(s) for one encoded message%s' % (n, '' if n != 1 else ', and it differs from the one sent')
            return None
        if not res.startswith('enc '):
            return 'encode:unexpected result %s' % res[:60]
        out = bytes.fromhex(res.split()[1]) if res.split()[1] != '-' else b''
        ref, _ = reference(out, 65, 0)
        if ref != [want] or out[:2] != bytes([ESC, STX]) or out[-2:] != bytes([ESC, ETX]):
            return 'encode:the bytes written are not one Actisense frame holding the message (%d bytes written)' % len(out)
        return None
    if t[0] == 'DEC':
        if not res.startswith('dec '):
            return 'decode:unexpected result %s' % res[:60]
        now, dsrc = int(t[2]), int(t[3])
        bs = bytes.fromhex(t[6]) if t[6] != '-' else b''
        n, msgs = parse_msgs(res)
        if n != len(msgs):
            return 'decode:malformed result'
        # soundness: every reported message is a complete consistent frame standing in the stream, in stream order
        cand = candidates(bs, dsrc, now)
        k = 0
        lastend = 0
        for m in msgs:
            while k < len(cand) and not (cand[k][2] == m and cand[k][0] >= lastend):
                k += 1
            if k == len(cand):
                return 'consistent:reported a message that is not a frame with consistent length, data length and checksum in the stream: %s' % m[:80]
            lastend = cand[k][1]
            k += 1
        # resynchronisation: every consistent frame the format defines is reported
        ref, certain = reference(bs, dsrc, now)
        if certain:
            j = 0
            for m in ref:
                while j < len(msgs) and msgs[j] != m:
                    j += 1
                if j == len(msgs):
                    return 'resync:a consistent frame after a start sequence was not reported: %s' % m[:80]
                j += 1
        return None
    return None


def nontrivial(case, mres):
    t = case.split()
    if t[0] == 'DEC':
        return bytes([ESC, STX]).hex() in t[6]
    return True


def check(run, replay=None):
    cases = vlib.read_replay(replay) if replay else vlib.corpus_lines('C17') + gen(run.seed, run.tier)
    run.cov['rule'] = ('cases = committed corpus + encode and encode/decode round trip for every payload length 1..223 with escape densities none/one/10%/50%/all '
                       'and checksum 0x10 + single frames cut at every byte boundary and fed byte by byte + frames whose length byte, data length, size and '
                       'checksum disagree (both directions, bodies of 0..14 bytes, 255-byte length) alone and after a good frame + sequences of good/bad/overlong '
                       'frames and request frames with 8 kinds of garbage between them + mutated frames + random streams biased to ESC/STX/ETX/0x93/0x94, '
                       'with ReadOut true and false and the stream delivered whole, in two parts, or in chunks of 1..13 bytes; '
                       'non-trivial = distinct case text that is an encode/round trip or a stream containing a start sequence')
    run.assumptions += ['x86-64 build: plain char signed, 32-bit int (byteSum cannot overflow: at most 300 bytes per frame)',
                        'MsgBuf is uninitialised after construction; the harness fills it with a byte given in the case, the model carries the array contents as state '
                        'and the theorems hold for every initial contents',
                        'the forwarding path of tNMEA2000 is not exercised here (it calls the same SendInActisenseFormat)',
                        'a message is valid when PGN != 0 and 1 <= DataLen <= 223 (tN2kMsg::IsValid); PGN 0 is written as nothing at all']
    vlib.correspond(run, 'actisense', 'h_acti', 'w64', 'C17', cases, oracle, nontrivial)
