# C17 - Actisense format: SendInActisenseFormat / tActisenseReader : generator, property oracle, correspondence
import random
import vlib

ESC, STX, ETX, T_DATA, T_REQ = 0x10, 0x02, 0x03, 0x93, 0x94
SPECIAL = [ESC, STX, ETX, T_DATA, T_REQ]


# ------------------------------------------------------------------------------------------------------------------
# the format, written down independently of the Coq model (used by the generator to build streams and by the oracle)
def le(v, n):
    return [(v >> (8 * i)) & 255 for i in range(n)]


def body93(pri, pgn, dst, src, tim, data, ln=None, dl=None):
    return [T_DATA, (len(data) + 11 if ln is None else ln) & 255, pri] + le(pgn, 3) + [dst, src] + le(tim, 4) + \
           [len(data) if dl is None else dl] + list(data)


def body94(pri, pgn, dst, data, ln=None, dl=None):
    return [T_REQ, (len(data) + 6 if ln is None else ln) & 255, pri] + le(pgn, 3) + [dst, len(data) if dl is None else dl] + list(data)


def escape(bs):
    out = []
    for x in bs:
        out.append(x)
        if x == ESC:
            out.append(ESC)
    return out


def frame(body, ck=None):
    """start sequence, escaped body + checksum (computed unless given), end sequence"""
    if ck is None:
        ck = (-sum(body)) & 255
    return [ESC, STX] + escape(list(body) + [ck]) + [ESC, ETX]


def msg_of_body(b, dsrc, now):
    """unescaped frame content (checksum included) -> message text if the frame is consistent, else None"""
    if len(b) < 3 or b[0] not in (T_DATA, T_REQ):
        return None
    if b[1] + 3 != len(b) or sum(b) % 256 != 0:
        return None
    h = 13 if b[0] == T_DATA else 8
    if len(b) < h + 1:
        return None
    dl = b[h - 1]
    if dl > 223 or h + dl + 1 != len(b):
        return None
    pgn = b[3] | b[4] << 8 | b[5] << 16
    if b[0] == T_DATA:
        src, tim = b[7], b[8] | b[9] << 8 | b[10] << 16 | b[11] << 24
    else:
        src, tim = dsrc, now % (1 << 32)
    return '%d %d %d %d %d %s' % (b[2], pgn, b[6], src, tim, bytes(b[h:h + dl]).hex() or '-')


def content_from(bs, p):
    """tokens of a frame whose start sequence ends just before index p: (content, index after the terminating token, how it ended)"""
    out = []
    n = len(bs)
    while p < n:
        if bs[p] != ESC:
            out.append(bs[p]); p += 1
        elif p + 1 >= n:
            return out, n, 'open'
        elif bs[p + 1] == ESC:
            out.append(ESC); p += 2
        elif bs[p + 1] == ETX:
            return out, p + 2, 'end'
        elif bs[p + 1] == STX:
            return out, p + 2, 'restart'
        else:
            return out, p + 2, 'abort'
    return out, n, 'open'


def candidates(bs, dsrc, now):
    """every place where a complete consistent frame stands in the stream: (start, end, message text)"""
    res = []
    for p in range(len(bs) - 1):
        if bs[p] == ESC and bs[p + 1] == STX:
            c, e, how = content_from(bs, p + 2)
            if how == 'end':
                m = msg_of_body(c, dsrc, now)
                if m:
                    res.append((p, e, m))
    return res


def reference(bs, dsrc, now):
    """the frames a reader must report: scan for a start sequence, read tokens to the end sequence; a start sequence inside a
    frame restarts, ESC + anything else drops the frame.  Second result: False if a frame grew beyond every valid size
    (what a reader does with the rest of such a frame is its own business, so nothing is demanded then)."""
    out = []
    certain = True
    bs = bytes(bs)
    i = bs.find(bytes([ESC, STX]))
    while i >= 0:
        p = i + 2
        while True:
            c, e, how = content_from(bs, p)
            if len(c) > 258:
                certain = False
            if how == 'restart':
                p = e
                continue
            break
        if how == 'end':
            m = msg_of_body(c, dsrc, now)
            if m:
                out.append(m)
        if how == 'open':
            break
        i = bs.find(bytes([ESC, STX]), e)
    return out, certain


# ------------------------------------------------------------------------------------------------------------------
def hx(bs):
    return bytes(bs).hex() or '-'


def payload(r, n, mode):
    if n == 0:
        return []
    if mode == 0:
        return [r.choice([x for x in range(256) if x != ESC]) for _ in range(n)]
    if mode == 1:
        d = [r.randrange(256) for _ in range(n)]
        d[r.randrange(n)] = ESC
        return d
    if mode == 2:
        return [ESC if r.random() < 0.1 else r.randrange(256) for _ in range(n)]
    if mode == 3:
        return [ESC if r.random() < 0.5 else r.choice(SPECIAL + [r.randrange(256)]) for _ in range(n)]
    if mode == 4:
        return [ESC] * n
    return [r.choice(SPECIAL + [0, 255]) for _ in range(n)]


def header(r):
    pri = r.choice([0, 1, 2, 3, 6, 7, r.randrange(8)])
    pgn = r.choice([1, 0xFFFFFF, 0x101010, 0x100000, 0x000010, 59904, 126996, 130000, 0x030210, r.randrange(1, 1 << 24), r.randrange(1, 1 << 17)])
    dst = r.choice([0, 255, ESC, STX, ETX, r.randrange(256)])
    src = r.choice([0, 254, ESC, STX, ETX, r.randrange(256)])
    tim = r.choice([0, 1, 0xFFFFFFFF, 0x10101010, 0x03100210, 0x80000000, r.randrange(1 << 32), r.randrange(1 << 16)])
    return pri, pgn, dst, src, tim


def with_checksum_esc(r, n):
    """a message whose checksum is 0x10 (the last data byte is adjusted)"""
    pri, pgn, dst, src, tim = header(r)
    d = payload(r, n, r.choice([0, 2, 3, 4]))
    b = body93(pri, pgn, dst, src, tim, d)
    d[-1] = (d[-1] + ((-sum(b)) & 255) - ESC) & 255
    assert (-sum(body93(pri, pgn, dst, src, tim, d))) & 255 == ESC
    return pri, pgn, dst, src, tim, d


def mline(op, m):
    return '%s %d %d %d %d %d %s' % (op, m[0], m[1], m[2], m[3], m[4], hx(m[5]))


def garbage(r, kind=None):
    kind = r.randrange(8) if kind is None else kind
    n = r.choice([0, 1, 2, 3, 5, 10, 30])
    if kind == 0:
        return []
    if kind == 1:
        return [r.randrange(256) for _ in range(n)]
    if kind == 2:
        return [r.choice(SPECIAL + [r.randrange(256)]) for _ in range(n)]
    if kind == 3:
        return [r.randrange(256) for _ in range(n)] + [ESC]                    # unpaired escape before the start sequence
    if kind == 4:                                                             # a truncated frame
        f = frame(body93(*header(r), payload(r, r.randint(1, 20), 2)))
        return f[:r.randint(2, len(f) - 1)]
    if kind == 5:                                                             # a frame dropped by ESC + illegal byte
        f = frame(body93(*header(r), payload(r, r.randint(1, 20), 0)))
        k = r.randint(2, len(f) - 2)
        return f[:k] + [ESC, r.choice([0, 1, 4, 0x93, 0xFF])] + f[k:r.randint(k, len(f))]
    if kind == 6:
        return [ESC, STX] * r.randint(1, 3) + [STX] * r.randint(0, 2)
    return [ESC] * r.randint(1, 4)


def dec(r, bs, fill=None, now=None, dsrc=None, ro=1, cuts='-'):
    fill = r.choice([0, 0xAA, 0xFF, 10, 0xD4, r.randrange(256)]) if fill is None else fill
    now = r.choice([0, 1, 123456789, 0xFFFFFFFF, 0x100000005]) if now is None else now
    dsrc = r.choice([65, 0, 255, ESC]) if dsrc is None else dsrc
    if ro == 1:
        ro = r.choice([1, 1, 2, 3])          # the same reading through the one-argument call / ParseMessages() with a handler (seed C17-13)
    return 'DEC %d %d %d %d %s %s' % (fill, now, dsrc, ro, cuts, hx(bs))


def bad_frames(r):
    """frames whose length byte, embedded data length, size and checksum disagree in every direction"""
    out = []
    h = header(r)
    for n, ln, dl in [(244, 255, 10), (244, 255, 223), (244, 255, 0), (244, 255, 244), (230, 241, 223), (224, 235, 224), (224, 235, 223),
                      (10, 21, 11), (10, 21, 9), (10, 21, 0), (10, 21, 223), (10, 21, 255), (2, 13, 8), (0, 11, 0), (0, 11, 1), (1, 12, 0),
                      (223, 234, 222), (223, 234, 224), (222, 233, 223), (10, 20, 10), (10, 22, 10), (10, 20, 9), (10, 0, 10), (10, 255, 10)]:
        out.append(frame(body93(*h, payload(r, n, 2), ln=ln, dl=dl)))
    for n, ln, dl in [(249, 255, 10), (249, 255, 223), (249, 255, 249), (10, 16, 11), (10, 16, 9), (10, 16, 0), (0, 6, 0), (0, 6, 5), (3, 9, 200),
                      (223, 229, 222), (10, 15, 10), (10, 17, 10)]:
        out.append(frame(body94(h[0], h[1], h[2], payload(r, n, 2), ln=ln, dl=dl)))
    # bodies too short to hold the header: every size from 0 to 14 bytes with a matching length byte and checksum
    for k in range(0, 15):
        for ty in (T_DATA, T_REQ):
            b = ([ty, (k - 2) & 255] + [r.choice([0, 1, 5, 0xAA, 223]) for _ in range(20)])[:k]
            out.append(frame(b))
            if k >= 2:
                b2 = list(b); b2[1] = (k - 2 + r.choice([1, -1, 2])) & 255
                out.append(frame(b2))
    # wrong type byte, wrong checksum, checksum one off
    g = body93(*h, payload(r, 8, 0))
    out.append(frame([0x92] + g[1:])); out.append(frame([0x95] + g[1:])); out.append(frame([ESC] + g[1:])); out.append(frame([STX] + g[1:]))
    out.append(frame(g, ck=((-sum(g)) + 1) & 255)); out.append(frame(g, ck=((-sum(g)) - 1) & 255)); out.append(frame(g, ck=ESC))
    return out


# ------------------------------------------------------------------------------------------------------------------
# the forwarding path of tNMEA2000 (FWD cases).  Everything here is written from the documentation of the modes and of the forward
# setters in NMEA2000.h and from the N2k framing rules, not from the Coq model.
F_SYS_SINGLE = [59392, 59904, 60928]                       # ISO acknowledgement, ISO request, ISO address claim
F_SYS_FAST = [65240, 126208]                               # commanded address, group function
F_KNOWN_SINGLE = [126992, 127250, 127488, 129025, 130306, 127505]
F_KNOWN_FAST = [129029, 127489, 126996, 126464, 126998, 128275, 129540]
F_UNKNOWN_SINGLE = [65300, 61184, 130000, 127999, 59648, 65280]
F_UNKNOWN_FAST = [130900, 126720, 130816, 131071]          # proprietary fast-packet ranges: framed as fast packets, not "known"


def f_pdu1(pgn):
    return ((pgn >> 8) & 0xff) < 240


def f_class(pgn, sf=(), fp=()):
    """(known, system, fast packet) of a PGN; sf / fp = PGNs the application registered with Extend...Messages"""
    system = pgn in F_SYS_SINGLE or pgn in F_SYS_FAST
    fast = pgn in F_SYS_FAST or pgn in F_KNOWN_FAST or pgn in fp or pgn == 126720 or 130816 <= pgn <= 131071
    known = system or pgn in F_KNOWN_SINGLE or pgn in F_KNOWN_FAST or pgn in sf or pgn in fp
    return known, system, fast


def f_table(mode, en, own_f, sys_f, ok_f, own_src, system, known, received):
    """is the message forwarded?  mode 0 ListenOnly 1 NodeOnly 2 ListenAndNode 3 SendOnly 4 ListenAndSend"""
    if not en or mode == 3:                                   # master switch; a send-only device never forwards
        return False
    if received:
        if system and mode in (0, 1, 2):                      # system messages go by their own flag (where the node handles them)
            flag = sys_f
        else:
            flag = known or not ok_f                          # "only known messages"
        if mode == 1:                                         # a node-only device does not forward bus traffic: only what carries its own address
            return flag and own_f and own_src
        return flag
    if mode == 0:                                             # a listener cannot send
        return False
    if mode == 1:
        return own_f and own_src
    return own_f                                              # "does not effect for own messages": only the own-messages flag counts


def f_can_id(pri, pgn, src, dst):
    if f_pdu1(pgn):
        return (pri & 7) << 26 | (pgn & 0x3ff00) << 8 | dst << 8 | src
    return (pri & 7) << 26 | pgn << 8 | src


def f_frame(idv, data):
    return '%x:%d:%s' % (idv, len(data), hx(data))


def f_frames(r, pri, pgn, src, dst, data, fast, tp):
    """the CAN frames that carry one message: single frame, fast packet, or ISO-TP broadcast announce + data transfer"""
    n = len(data)
    if tp:
        npk = (n + 6) // 7
        out = [f_frame(f_can_id(7, 60416, src, 255), [32, n & 255, n >> 8, npk, 0xff, pgn & 255, (pgn >> 8) & 255, (pgn >> 16) & 255])]
        for k in range(npk):
            chunk = list(data[7 * k:7 * k + 7])
            out.append(f_frame(f_can_id(7, 60160, src, 255), [k + 1] + chunk + [0xff] * (7 - len(chunk))))
        return out
    idv = f_can_id(pri, pgn, src, dst)
    if not fast:
        return [f_frame(idv, data)]
    sid = r.randrange(8) << 5
    fr = [[sid, n] + list(data[:6])]
    rest = list(data[6:])
    k = 1
    while rest:
        fr.append([sid | k] + rest[:7]); rest = rest[7:]; k += 1
    return [f_frame(idv, f + [0xff] * (8 - len(f))) for f in fr]


class FCase:
    """one FWD case: a node configuration and a history of receptions / own sends"""

    def __init__(self, r, mode, en, own, sys_f, ok, addr=None, t0=None, sf=(), fp=()):
        self.r = r
        self.mode, self.en, self.own, self.sys, self.ok = mode, en, own, sys_f, ok
        self.addr = r.choice([15, 25, ESC, STX, ETX, 0, 251, r.randrange(252)]) if addr is None else addr
        self.clock = r.choice([1000, 5000, 123456, 0xFFFFFF00, 0xFFFFFFFF - 20, (1 << 32) + 1000, r.randrange(1000, 1 << 31)]) if t0 is None else t0
        self.t0 = self.clock
        self.sf, self.fp = tuple(sf), tuple(fp)
        self.ops = []

    def foreign(self):
        return self.r.choice([x for x in [1, 2, 3, ESC, 33, 100, 200, 251, 253, 254, self.r.randrange(254)] if x != self.addr])

    def tick(self):
        self.clock += self.r.choice([0, 1, 3, 10, 50, 1000, 70000])
        return self.clock

    def rx(self, pgn, n, src, dst=None, pri=None, pmode=None, tp=False):
        r = self.r
        known, system, fast = f_class(pgn, self.sf, self.fp)
        if not fast and not tp:
            n = min(n, 8)
        pri = 7 if tp else (r.choice([0, 2, 3, 6, 7, r.randrange(8)]) if pri is None else pri)
        if tp or not f_pdu1(pgn):
            dst = 255
        elif dst is None:
            dst = r.choice([255, self.addr, self.foreign()])
        data = payload(r, n, r.randrange(6) if pmode is None else pmode)
        at = self.tick()
        own = src == self.addr and src <= 253
        frames = f_frames(r, pri, pgn, src, dst, data, fast, tp)
        self.ops.append('R %d%d%d %d %d %d %d %d %s %d %s' % (own, known, system, pri, pgn, dst, src, at % (1 << 32), hx(data), at, ','.join(frames)))

    def tx(self, pgn, n, idev=0, src_in=None, dst_in=None, pri=None, tim=None, pmode=None):
        r = self.r
        known, system, fast = f_class(pgn, self.sf, self.fp)
        pri = r.choice([0, 2, 3, 6, 7, r.randrange(8)]) if pri is None else pri
        src_in = r.choice([self.addr, self.foreign() % 252, 0, 251]) if src_in is None else src_in
        if dst_in is None:
            dst_in = r.choice([255, self.foreign(), ESC, 0])
        if not f_pdu1(pgn) and (pgn & 0xff) == 0:
            dst_in = 255                                      # a broadcast PGN with a zero low byte: the caller says broadcast itself
        src = self.addr if idev >= 0 else src_in              # SendMsg stamps the device's address on the message
        dst = dst_in if f_pdu1(pgn) else 255                  # PDU2 messages have no destination: broadcast
        tim = r.choice([0, 1, 0xFFFFFFFF, 0x10101010, 0x03100210, r.randrange(1 << 32)]) if tim is None else tim
        data = payload(r, n, r.randrange(6) if pmode is None else pmode)
        at = self.tick()
        own = src == self.addr and src <= 253
        self.ops.append('S %d%d%d %d %d %d %d %d %s %d %d %d %d' % (own, known, system, pri, pgn, dst, src, tim, hx(data), at, idev, src_in, dst_in))

    def line(self):
        extra = ''
        if self.sf:
            extra += ' sf=' + ','.join(str(x) for x in self.sf)
        if self.fp:
            extra += ' fp=' + ','.join(str(x) for x in self.fp)
        return 'FWD mode=%d src=%d en=%d own=%d sys=%d ok=%d t0=%d%s | %s' % (self.mode, self.addr, self.en, self.own, self.sys, self.ok, self.t0, extra,
                                                                              ' ; '.join(self.ops))


def f_len(r, fast=True):
    return r.choice([0, 1, 5, 6, 7, 8, 9, 13, 14, 20, 100, 222, 223, r.randint(1, 223), r.randint(1, 223)]) if fast else r.choice([0, 1, 3, 7, 8, 8, 8])


def f_history(r, c):
    """every message class once, in random order: system / known / unknown x single / fast / ISO-TP x foreign / own source, own sends"""
    passive = c.mode in (0, 3, 4)                             # the node does not act on system messages (no replies of its own on the stream)
    other = lambda: r.choice([x for x in (1, 7, 99, 250) if x != c.addr])
    steps = [
        lambda: c.rx(59904, 3, c.foreign(), dst=255 if passive and r.random() < .5 else other()),
        lambda: c.rx(59904, 3, c.addr, dst=other()),
        lambda: c.rx(59392, 8, r.choice([c.foreign(), c.addr]), dst=r.choice([255, c.addr, other()])),
        lambda: c.rx(60928, 8, c.addr if passive and r.random() < .5 else c.foreign(), dst=255),
        lambda: c.rx(126208, f_len(r), r.choice([c.foreign(), c.addr]), dst=r.choice([255, c.addr, other()]) if passive else other()),
        lambda: c.rx(65240, r.choice([1, 8, 9, 10]), c.foreign(), dst=255),
        lambda: c.rx(r.choice(F_KNOWN_SINGLE), f_len(r, False), c.foreign()),
        lambda: c.rx(r.choice(F_KNOWN_SINGLE), 8, c.addr),
        lambda: c.rx(r.choice(F_KNOWN_FAST), f_len(r), c.foreign()),
        lambda: c.rx(r.choice(F_KNOWN_FAST), f_len(r), c.addr),
        lambda: c.rx(r.choice(F_UNKNOWN_SINGLE), f_len(r, False), c.foreign()),
        lambda: c.rx(r.choice(F_UNKNOWN_FAST), f_len(r), c.foreign()),
        lambda: c.rx(r.choice(F_UNKNOWN_SINGLE + F_UNKNOWN_FAST), r.choice([1, 6, 8]), c.addr),
        lambda: c.rx(r.choice(F_KNOWN_FAST + F_UNKNOWN_FAST + F_KNOWN_SINGLE), r.choice([9, 10, 50, 223, r.randint(9, 223)]), c.foreign(), tp=True),
        lambda: c.rx(r.choice([65240, 126208] if passive else [65240]), r.choice([10, 14, 30]), r.choice([c.foreign(), c.addr]), tp=True),
        lambda: c.tx(r.choice(F_KNOWN_SINGLE + F_KNOWN_FAST), f_len(r), idev=0),
        lambda: c.tx(r.choice(F_UNKNOWN_SINGLE + F_UNKNOWN_FAST), f_len(r), idev=0),
        lambda: c.tx(r.choice([59904, 59392, 126208]), r.choice([3, 8, 12]), idev=0, dst_in=other()),
        lambda: c.tx(r.choice(F_KNOWN_FAST + F_UNKNOWN_SINGLE), f_len(r), idev=-1, src_in=r.choice([x for x in (5, 77, 251) if x != c.addr])),
        lambda: c.tx(r.choice(F_KNOWN_SINGLE + F_UNKNOWN_FAST), f_len(r), idev=-1, src_in=c.addr),
    ]
    r.shuffle(steps)
    for st in steps:
        st()


def gen_fwd(r, quick):
    cases = []
    # every mode x every combination of the four forward flags, each with a full history (twice with other addresses / clocks)
    for rep in range(2 if quick else 12):
        for mode in range(5):
            for bits in range(16):
                c = FCase(r, mode, bits & 1, bits >> 1 & 1, bits >> 2 & 1, bits >> 3 & 1)
                f_history(r, c)
                cases.append(c.line())
    # every payload length 0..223 through the fast-packet reassembly, the ISO-TP reassembly and SendMsg, in the forwarding modes
    for n0 in range(0, 224, 8):
        for mode in ([2, 0] if quick else [0, 1, 2, 4]):
            c = FCase(r, mode, 1, 1, 1, r.randrange(2))
            for n in range(n0, n0 + 8):
                pm = 4 if n % 8 == 0 else r.randrange(6)
                src = c.addr if mode == 1 or r.random() < .2 else c.foreign()
                c.rx(r.choice(F_KNOWN_FAST), n, src, pmode=pm)
                if mode != 0:
                    c.tx(r.choice(F_KNOWN_FAST + F_UNKNOWN_FAST), n, idev=0, pmode=pm)
                if n >= 9 and (n % 3 == 0 or not quick):
                    c.rx(r.choice(F_KNOWN_FAST), n, src, tp=True, pmode=r.randrange(6))
            cases.append(c.line())
    # PGNs the application registered: known only through Extend...Messages, with "only known" on and off
    for mode in (0, 2, 4):
        for ok in (0, 1):
            c = FCase(r, mode, 1, 1, 1, ok, sf=(65300, 130000), fp=(127999, 130900))
            for pgn in (65300, 130000, 127999, 130900, 65280, 131071, 61184, 126720):
                c.rx(pgn, f_len(r), c.foreign())
                if mode != 0:
                    c.tx(pgn, f_len(r), idev=0)
            cases.append(c.line())
    # header extremes: priorities above 7 on own messages, null-address and escape-byte sources, the clock passing 2^32
    for mode in (2, 4, 1):
        c = FCase(r, mode, 1, 1, 1, 0, addr=r.choice([ESC, STX, ETX]), t0=0xFFFFFFFF - 5)
        for pri in (8, ESC, 0x93, 255):
            c.tx(r.choice(F_KNOWN_FAST), r.choice([1, 8, 40]), idev=0, pri=pri)
            c.tx(r.choice(F_KNOWN_SINGLE), 8, idev=0, pri=pri)
        for src in (254, ESC, STX, ETX, 0, 253):
            c.rx(r.choice(F_KNOWN_FAST), r.choice([3, 16, 60]), src if src != c.addr else 1)
            c.rx(r.choice(F_KNOWN_SINGLE), 8, src if src != c.addr else 1)
        cases.append(c.line())
    return cases


def gen(seed, tier):
    r = random.Random(seed * 1000003 + 17)
    quick = tier == 'quick'
    scale = 6 if quick else 60
    cases = []
    good = []
    # --- encode / round trip: every payload length x escape densities; checksum 0x10; header extremes
    for n in range(1, 224):
        modes = [n % 5, 4] if quick else [0, 1, 2, 3, 4, 5]
        for mode in modes:
            m = header(r) + (payload(r, n, mode),)
            cases.append(mline('RT', m))
            if mode != 4 or n % 8 == 0 or n > 215:
                cases.append(mline('ENC', m))
            good.append(m)
        if n % (4 if quick else 1) == 0 or n in (1, 5, 16, 222, 223):
            m = with_checksum_esc(r, n)
            cases.append(mline('RT', m)); cases.append(mline('ENC', m)); good.append(m)
    for pgn in (0, 1, 0xFFFFFF, 0x1000000, 0x1000001, 0xFFFFFFFF):       # invalid (0) and beyond 24 bit: no crash, nothing demanded
        cases.append(mline('RT', (6, pgn, 255, 1, 5, [1, 2, 3]))); cases.append(mline('ENC', (6, pgn, 255, 1, 5, [1, 2, 3])))
    cases.append(mline('ENC', (6, 130000, 255, 1, 5, []))); cases.append(mline('RT', (6, 130000, 255, 1, 5, [])))
    for pri in (8, ESC, 255):
        cases.append(mline('RT', (pri, 130000, 255, 1, 5, [ESC, 2, 3])))
    # --- decode: single frames cut at every byte boundary (two chunks) and fed byte by byte
    small = [header(r) + (payload(r, n, md),) for n, md in [(1, 0), (5, 2), (8, 3), (16, 4), (3, 4)]] + [with_checksum_esc(r, 6)]
    for m in small[:(3 if quick else 6)]:
        f = frame(body93(*m))
        for k in range(len(f) + 1):
            cases.append(dec(r, f + f[:5], cuts=str(k)))
        cases.append(dec(r, f, cuts='e1')); cases.append(dec(r, f, cuts='e1', ro=0))
    rq = frame(body94(3, 59904, 255, [0x14, 0xF0, 0x01]))
    for k in range(len(rq) + 1):
        cases.append(dec(r, rq, cuts=str(k)))
    # --- decode: frames of every kind with garbage between them
    bads = bad_frames(r)
    for b in bads:
        cases.append(dec(r, b, fill=r.choice([0, 170, 255, 5])))
        g = frame(body93(*header(r), payload(r, r.choice([1, 8, 223]), 2)))
        cases.append(dec(r, g + b + g, cuts=r.choice(['-', 'e1', 'e7'])))        # stale buffer contents from the frame before
    for _ in range(250 * scale):
        parts = []
        for _ in range(r.randint(1, 4)):
            parts += garbage(r)
            k = r.random()
            if k < 0.55:
                m = r.choice(good) if r.random() < 0.5 else header(r) + (payload(r, r.choice([1, 2, 8, 30, 223, r.randint(1, 223)]), r.randrange(6)),)
                parts += frame(body93(*m))
            elif k < 0.7:
                parts += frame(body94(r.randrange(8), r.randrange(1 << 24), r.randrange(256), payload(r, r.choice([0, 3, 8, 223, r.randint(0, 223)]), r.randrange(6) if r.random() < .8 else 0) or []))
            elif k < 0.85:
                parts += r.choice(bads)
            else:                                                                # overlong frame (more than the reader's buffer holds)
                parts += [ESC, STX] + escape([r.choice([T_DATA, r.randrange(256)])] + [r.choice(SPECIAL[1:] + [r.randrange(256)]) for _ in range(r.choice([257, 258, 259, 297, 298, 299, 300, 301, 302, 310, 420]))]) + [ESC, ETX]
        parts += garbage(r, r.choice([0, 1, 4]))
        cases.append(dec(r, parts, ro=r.choice([1, 1, 0]), cuts=r.choice(['-', '-', 'e1', 'e2', 'e13', '%d' % r.randrange(len(parts) + 1)])))
    # --- decode: mutated good streams
    for _ in range(150 * scale):
        m = header(r) + (payload(r, r.choice([1, 4, 8, 12, 40]), r.randrange(6)),)
        f = frame(body93(*m)) if r.random() < 0.8 else frame(body94(m[0], m[1], m[2], m[5]))
        b = list(f + f)
        for _ in range(r.randint(1, 3)):
            p = r.randrange(len(b))
            k = r.random()
            if k < 0.4:
                b[p] = r.choice(SPECIAL + [r.randrange(256)])
            elif k < 0.7:
                del b[p]
            else:
                b.insert(p, r.choice(SPECIAL + [r.randrange(256)]))
        cases.append(dec(r, b, ro=r.choice([1, 1, 0])))
    # --- decode: arbitrary byte streams biased towards the bytes that mean something
    for _ in range(500 * scale):
        n = r.choice([r.randint(0, 12), r.randint(0, 80), r.randint(50, 400), r.randint(300, 700) if not quick or r.random() < .2 else 40])
        w = r.choice([0.2, 0.5, 0.8, 0.97])
        bs = [r.choice(SPECIAL) if r.random() < w else r.randrange(256) for _ in range(n)]
        cases.append(dec(r, bs, ro=r.choice([1, 1, 0]), cuts=r.choice(['-', 'e1', 'e5'])))
    # streams that fill the buffer exactly
    for n in (297, 298, 299, 300, 301):
        cases.append(dec(r, [ESC, STX, T_DATA, 0xFF] + [7] * (n - 2) + [ESC, ETX] + frame(body93(*small[0]))))
        cases.append(dec(r, [ESC, STX, T_DATA, (n - 3) & 255] + [0] * (n - 3) + [(-(T_DATA + ((n - 3) & 255))) & 255, ESC, ETX]))
    # --- the forwarding path of tNMEA2000 (own random stream: the cases above do not change when this family does)
    cases += gen_fwd(random.Random(seed * 1000003 + 1717), quick)
    return cases


# ------------------------------------------------------------------------------------------------------------------
def parse_msgs(res):
    """'xx <n> | m1 | m2 | st ... | skip ...' -> (n, [message texts], rest parts)"""
    parts = [p.strip() for p in res.split('|')]
    head = parts[0].split()
    n = int(head[1])
    msgs = [p for p in parts[1:] if not p.startswith(('st ', 'skip '))]
    return n, msgs


def f_parse(case):
    head, ops = case.split('|', 1)
    kv = dict(x.split('=', 1) for x in head.split()[1:] if '=' in x)
    return kv, [o.split() for o in ops.split(';') if o.strip()]


def oracle_fwd(case, res):
    """forwarded (by the documented decision table) -> the reader on the forward stream reports exactly that message, once;
    not forwarded -> nothing is written"""
    kv, ops = f_parse(case)
    if not res.startswith('fwd'):
        return 'forward:unexpected result %s' % res[:60]
    rops = [x.strip() for x in res[3:].split(' ; ')] if res[3:].strip() else []
    if len(rops) != len(ops):
        return 'forward:%d results for %d operations' % (len(rops), len(ops))
    mode, addr = int(kv['mode']), int(kv['src'])
    en, own_f, sys_f, ok_f = [kv[k] == '1' for k in ('en', 'own', 'sys', 'ok')]
    sf = tuple(int(x) for x in kv.get('sf', '').split(',') if x)
    fp = tuple(int(x) for x in kv.get('fp', '').split(',') if x)
    for o, ro in zip(ops, rops):
        pri, pgn, dst, src, tim = [int(x) for x in o[2:7]]
        data = bytes.fromhex(o[7]) if o[7] != '-' else b''
        known, system, _ = f_class(pgn, sf, fp)
        own_src = src == addr and src <= 253
        expect = f_table(mode, en, own_f, sys_f, ok_f, own_src, system, known, o[0] == 'R')
        parts = [x.strip() for x in ro.split('|')]
        h = parts[0].split()
        if len(h) != 2:
            return 'forward:malformed result %s' % ro[:60]
        written, n, msgs = h[0], int(h[1]), parts[1:]
        what = '%s PGN %d from %d (%s%s%s) in mode %d en=%d own=%d sys=%d onlyknown=%d' % (
            'received' if o[0] == 'R' else 'own', pgn, src, 'own address ' if own_src else '', 'system ' if system else '', 'known' if known else 'unknown',
            mode, en, own_f, sys_f, ok_f)
        if not expect:
            if written != '-' or n != 0:
                return 'forward-unexpected:a message that is not to be forwarded reached the forward stream: %s' % what
            continue
        if not (0 < pgn < (1 << 24) and 1 <= len(data) <= 223 and tim < (1 << 32)):
            continue                                        # not a valid message (no payload): nothing is demanded
        want = '%d %d %d %d %d %s' % (pri, pgn, dst, src, tim, data.hex())
        if written == '-':
            return 'forward-missing:a message that is to be forwarded was not written to the forward stream: %s' % what
        out = bytes.fromhex(written)
        ref, _ = reference(out, 65, 0)
        if n != 1 or msgs != [want]:
            return 'forward-roundtrip:the reader reported %d message(s) for one forwarded message%s: %s' % (n, '' if n != 1 else ', and it differs from the one forwarded', what)
        if ref != [want] or out[:2] != bytes([ESC, STX]) or out[-2:] != bytes([ESC, ETX]):
            return 'forward-roundtrip:the bytes written are not one Actisense frame holding the message: %s' % what
    return None


def oracle(case, res):
    """the property, applied to what the implementation did (independent of the Coq model)"""
    t = case.split()
    if res.startswith('crash'):
        return 'memory:%s %s' % (t[0], res)
    if 'canary' in res:
        return 'memory:%s the received tN2kMsg was written outside Data[0..DataLen) / DataLen out of range (%s)' % (t[0], res[-40:])
    if t[0] == 'FWD':
        return oracle_fwd(case, res)
    if t[0] in ('ENC', 'RT'):
        pri, pgn, dst, src, tim = [int(x) for x in t[1:6]]
        data = bytes.fromhex(t[6]) if t[6] != '-' else b''
        valid = 0 < pgn < (1 << 24) and 1 <= len(data) <= 223 and tim < (1 << 32)
        want = '%d %d %d %d %d %s' % (pri, pgn, dst, src, tim, data.hex() or '-')
        if not valid:
            return None
        if t[0] == 'RT':
            if not res.startswith('rt '):
                return 'roundtrip:unexpected result %s' % res[:60]
            n, msgs = parse_msgs(res)
            if n != 1 or msgs != [want]:
                return 'roundtrip:reader reported %d message(s) for one encoded message%s' % (n, '' if n != 1 else ', and it differs from the one sent')
            return None
        if not res.startswith('enc '):
            return 'encode:unexpected result %s' % res[:60]
        out = bytes.fromhex(res.split()[1]) if res.split()[1] != '-' else b''
        ref, _ = reference(out, 65, 0)
        if ref != [want] or out[:2] != bytes([ESC, STX]) or out[-2:] != bytes([ESC, ETX]):
            return 'encode:the bytes written are not one Actisense frame holding the message (%d bytes written)' % len(out)
        return None
    if t[0] == 'DEC':
        if not res.startswith('dec '):
            return 'decode:unexpected result %s' % res[:60]
        now, dsrc = int(t[2]), int(t[3])
        bs = bytes.fromhex(t[6]) if t[6] != '-' else b''
        n, msgs = parse_msgs(res)
        if n != len(msgs):
            return 'decode:malformed result'
        # soundness: every reported message is a complete consistent frame standing in the stream, in stream order
        cand = candidates(bs, dsrc, now)
        k = 0
        lastend = 0
        for m in msgs:
            while k < len(cand) and not (cand[k][2] == m and cand[k][0] >= lastend):
                k += 1
            if k == len(cand):
                return 'consistent:reported a message that is not a frame with consistent length, data length and checksum in the stream: %s' % m[:80]
            lastend = cand[k][1]
            k += 1
        # resynchronisation: every consistent frame the format defines is reported
        ref, certain = reference(bs, dsrc, now)
        if certain:
            j = 0
            for m in ref:
                while j < len(msgs) and msgs[j] != m:
                    j += 1
                if j == len(msgs):
                    return 'resync:a consistent frame after a start sequence was not reported: %s' % m[:80]
                j += 1
        return None
    return None


def nontrivial(case, mres):
    t = case.split()
    if t[0] == 'DEC':
        return bytes([ESC, STX]).hex() in t[6]
    return True


def check(run, replay=None):
    cases = vlib.read_replay(replay) if replay else vlib.corpus_lines('C17') + gen(run.seed, run.tier)
    run.cov['rule'] = ('cases = committed corpus + encode and encode/decode round trip for every payload length 1..223 with escape densities none/one/10%/50%/all '
                       'and checksum 0x10 + single frames cut at every byte boundary and fed byte by byte + frames whose length byte, data length, size and '
                       'checksum disagree (both directions, bodies of 0..14 bytes, 255-byte length) alone and after a good frame + sequences of good/bad/overlong '
                       'frames and request frames with 8 kinds of garbage between them + mutated frames + random streams biased to ESC/STX/ETX/0x93/0x94, '
                       'with ReadOut true and false and the stream delivered whole, in two parts, or in chunks of 1..13 bytes; '
                       '+ the forwarding path: a tNMEA2000 with a scripted CAN driver whose forward stream feeds one reader, all 5 modes x all 16 combinations of '
                       'EnableForward/SetForwardOwnMessages/SetForwardSystemMessages/SetForwardOnlyKnownMessages x received system/known/unknown/application-registered '
                       'PGNs as single frames, fast packets and ISO-TP broadcasts from foreign addresses and from the node\'s own address + own messages through SendMsg '
                       '(device address forced / caller\'s address), payload lengths 0..223 with all escape densities, priorities above 7, clock passing 2^32; '
                       'non-trivial = distinct case text that is an encode/round trip or a stream containing a start sequence')
    run.assumptions += ['x86-64 build: plain char signed, 32-bit int (byteSum cannot overflow: at most 300 bytes per frame)',
                        'MsgBuf is uninitialised after construction; the harness fills it with a byte given in the case, the model carries the array contents as state '
                        'and the theorems hold for every initial contents',
                        'forwarding path: the decision model takes IsMySource / KnownMessage / SystemMessage as inputs; the case generator computes them from the '
                        'PGN lists and addresses, the C++ derives them from the CAN frames, and the comparison of the two sides covers that step; ForwardType is '
                        'fwdt_Actisense; the reassembly of received messages itself (C02/C03) and the transmission of own messages (C01) are not part of this check; '
                        'own messages sent with ISO-TP (the transport frames are forwarded as messages of their own) and replies the node sends itself are not generated',
                        'a message is valid when PGN != 0 and 1 <= DataLen <= 223 (tN2kMsg::IsValid); PGN 0 is written as nothing at all']
    vlib.correspond(run, 'actisense', 'h_acti', 'w64', 'C17', cases, oracle, nontrivial)
