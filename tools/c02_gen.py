# C02 - reassembly of received frames: stream generator and the reference ("ideal") receiver used by the oracle.
# The reference receiver is written from the property text: unbounded table keyed by (PGN, source, destination); a first frame opens /
# supersedes, an in-sequence continuation appends, an out-of-sequence one discards the message, completion hands the message over.
# Nothing here is derived from the Coq model or the C++.
import itertools
from nodesim import ref_class
from nodegen import can_id, rx

OWN = 22
ORIGINS = [5000, 70000, 2 ** 31 - 150, 2 ** 31 - 1, 2 ** 31, 2 ** 31 + 77, 2 ** 32 - 250, 2 ** 32 - 101, 2 ** 32 - 100, 2 ** 32 - 99, 2 ** 32 - 1,
           2 ** 32, 2 ** 32 + 5, 2 ** 33 - 50, 10 ** 12]

# PGN pools.  addressed = PDU1 (destination in the identifier)
FAST_BCAST = [126996, 126998, 129029, 127489, 128275, 129540, 130816, 130900, 131071, 130577]
FAST_ADDR = [126464, 126720]                  # mandatory list PGN / proprietary addressable fast packet
FAST_ADDR_LISTEN = [126208]                   # group function: only used with a listen-only node (mode 0)
SINGLE_BCAST = [127250, 127488, 129025, 130306, 126992, 126993, 65300, 65535, 127245]
SINGLE_ADDR = [59392, 61184]
APP_FAST = [119808, 65301]                    # put on the application's fast-packet list (fp1); 119808 is addressable
APP_SINGLE = [120064]                         # application's single-frame list (sf1), addressable
UNKNOWN = [127000, 100000]                    # the reference has no class for these


def decode_id(idv):
    pf = (idv >> 16) & 0xff
    ps = (idv >> 8) & 0xff
    dp = (idv >> 24) & 1
    pri = (idv >> 26) & 7
    src = idv & 0xff
    if pf < 240:
        return pri, dp << 16 | pf << 8, src, ps
    return pri, dp << 16 | pf << 8 | ps, src, 255


def frame_op(idv, buf, dlc):
    return 'R %x %d %s' % (idv, dlc, bytes(buf).hex())


def fp_encode(sid, payload, announce=None, garbage=0xff):
    n = len(payload) if announce is None else announce
    frames = [[(sid << 5) & 255, n & 255] + list(payload[:6])]
    rest = list(payload[6:])
    k = 1
    while rest:
        frames.append([(sid << 5 | k) & 255] + rest[:7])
        rest = rest[7:]
        k += 1
    out = []
    for f in frames:
        dlc = len(f)
        out.append((f + [garbage] * (8 - len(f)), dlc))
    return out          # list of (8 buffer bytes, number of valid bytes)


class Msg:
    """one message of one sender, as frames [(id, buf8, dlc)]"""

    def __init__(self, r, pgn, src, dst, n, fast, sid, prio=None, announce=None, short_dlc=False):
        self.pgn, self.src, self.dst, self.fast = pgn, src, dst, fast
        self.prio = r.choice([0, 2, 3, 6, 7]) if prio is None else prio
        self.payload = [r.randrange(256) for _ in range(n)]
        idv = can_id(self.prio, pgn, src, dst)
        if fast:
            g = r.choice([0xff, 0xff, 0x00, 0x5a])
            fr = fp_encode(sid, self.payload, announce, g)
            self.frames = []
            for k, (buf, dlc) in enumerate(fr):
                # the last frame of a sender may be sent with its true DLC (short_dlc) or padded to 8 bytes with 0xff
                if not short_dlc or k != len(fr) - 1:
                    buf = buf[:dlc] + [0xff] * (8 - dlc)
                    dlc = 8
                self.frames.append((idv, buf, dlc))
        else:
            g = r.choice([0x00, 0xff, 0x5a, 0xa5])
            self.frames = [(idv, self.payload[:8] + [g] * (8 - len(self.payload[:8])), len(self.payload[:8]))]


def pgn_class(pgn, cfg):
    """reference class; the application's single-frame lists are part of the case's configuration"""
    c = ref_class(pgn, cfg)
    if c is None and pgn in cfg.get('sf1', []) + cfg.get('sf0', []):
        return 'single'
    return c


def pick_pgn(r, mode, applist, want_fast=None):
    pools = []
    if want_fast is not False:
        pools += [(p, True) for p in FAST_BCAST + FAST_ADDR + (FAST_ADDR_LISTEN if mode == 0 else [])]
        if applist is True or (applist and 'fp1' in applist):
            pools += [(p, True) for p in APP_FAST]
    if want_fast is not True:
        pools += [(p, False) for p in SINGLE_BCAST + SINGLE_ADDR]
        if applist is True or (applist and ('sf1' in applist or 'sf0' in applist)):
            pools += [(p, False) for p in APP_SINGLE]
    return r.choice(pools)


def addressed(pgn):
    return ((pgn >> 8) & 0xff) < 240


LENS_FAST = [0, 1, 5, 6, 7, 8, 12, 13, 14, 20, 27, 34, 100, 216, 217, 222, 223]


def apply_loss(r, frames, kind):
    """frames of ONE message -> (frames that reach the receiver, lost?)"""
    n = len(frames)
    if kind == 'none' or n == 0:
        return list(frames), False
    if kind == 'single':
        i = r.randrange(n)
        return frames[:i] + frames[i + 1:], True
    if kind == 'burst':
        i = r.randrange(n)
        j = min(n, i + r.randint(2, 4))
        return frames[:i] + frames[j:], True
    if kind == 'tail':
        i = r.randrange(n)
        return frames[:i], True
    if kind == 'head':
        return frames[1:], True
    if kind == 'dup':
        i = r.randrange(n)
        return frames[:i + 1] + [frames[i]] + frames[i + 1:], True
    if kind == 'swap' and n > 1:
        i = r.randrange(n - 1)
        f = list(frames)
        f[i], f[i + 1] = f[i + 1], f[i]
        return f, True
    return list(frames), False


def cfg_line(r, mode, slots, t0, applist, only_known=False):
    s = 'NODE mode=%d ndev=1 src=%d q=40 slots=%d t0=%d' % (mode, OWN, slots, t0)
    if applist is True:
        s += ' fp1=%s sf1=%s' % (','.join(map(str, APP_FAST)), ','.join(map(str, APP_SINGLE)))
    elif applist:
        # any subset of the application's list setters (a single-frame list alone must leave the default fast-packet list in force: seed C02-15)
        for k in applist:
            s += ' %s=%s' % (k, ','.join(map(str, APP_FAST if k.startswith('fp') else APP_SINGLE)))
    if only_known:
        s += ' ok=1'
    return s


def interleave(r, streams):
    """random merge that keeps every stream's own order"""
    pos = [0] * len(streams)
    out = []
    live = [i for i, s in enumerate(streams) if s]
    while live:
        i = r.choice(live)
        out.append(streams[i][pos[i]])
        pos[i] += 1
        if pos[i] == len(streams[i]):
            live.remove(i)
    return out


def finish(ops, nframes_hint=None):
    """append enough polls to drain the driver queue"""
    pending = 0
    for o in ops:
        if o[0] == 'R':
            pending += 1
        elif o == 'P':
            pending = max(0, pending - 20)
    ops = list(ops)
    while pending > 0:
        ops.append('P')
        pending -= 20
    ops.append('P')
    return ops


def sprinkle(r, frames, p_poll, ticks):
    ops = []
    for f in frames:
        ops.append(f)
        x = r.random()
        if x < p_poll:
            ops.append('P')
        elif ticks and x < p_poll + 0.04:
            ops.append('T %d' % r.choice(ticks))
    return ops


def random_stream(r, big=False):
    """1..8 well-formed senders, interleaved, with loss patterns, slot counts 1..8"""
    mode = r.choice([0, 2])
    slots = r.choice([1, 2, 3, 4, 5, 5, 6, 7, 8])
    nsend = r.choice([1, 2, 2, 3, 3, 4, 5, 6, 8])
    applist = r.random() < 0.3
    if applist and r.random() < 0.6:
        applist = r.choice([('fp1',), ('sf1',), ('sf0',), ('sf0', 'fp1'), ('sf0', 'sf1', 'fp1'), ('sf0', 'sf1')])
    only_known = r.random() < 0.06
    t0 = r.choice(ORIGINS)
    srcs = r.sample([0, 1, 30, 31, 50, 51, 100, 200, 251, 253, 77, 23], nsend)
    lossy = r.random() < 0.6
    streams = []
    budget = 40 if not big else 120
    for s in srcs:
        nchan = r.choice([1, 1, 2])
        chans = []
        used = set()
        for _c in range(nchan):
            pgn, fast = pick_pgn(r, mode, applist, want_fast=(True if r.random() < 0.7 else None))
            if pgn in used:
                continue
            used.add(pgn)
            if r.random() < 0.04:
                pgn, fast = r.choice(UNKNOWN), False
            sid = r.randrange(8)
            frames = []
            left = budget // nchan
            multi_dst = addressed(pgn) and r.random() < 0.3
            dst0 = r.choice([255, OWN, 23, 77]) if addressed(pgn) else 255
            while left > 0:
                dst = (r.choice([255, OWN, 23, 77]) if multi_dst else dst0)
                n = r.choice(LENS_FAST + [r.randint(0, 223)]) if fast else r.randint(0, 8)
                if fast and n > 6 + 7 * (left - 1):
                    n = r.randint(0, 6 + 7 * (left - 1))
                ann = None
                if fast and r.random() < 0.03:
                    ann = r.randint(224, 255)
                m = Msg(r, pgn, s, dst, n, fast, sid, announce=ann, short_dlc=(r.random() < 0.15))
                sid = (sid + 1) % 8
                fr = m.frames
                if lossy and r.random() < 0.35:
                    fr, _ = apply_loss(r, fr, r.choice(['single', 'burst', 'tail', 'tail', 'head', 'dup', 'swap']))
                frames += fr
                left -= max(1, len(m.frames))
            chans.append(frames)
        streams += chans
    merged = [frame_op(*f) for f in interleave(r, streams)]
    ticks = r.choice([[], [], [1, 5, 20], [50, 99, 100, 101], [99, 100, 101, 200]])
    ops = sprinkle(r, merged, r.choice([0.02, 0.1, 0.3, 1.0]), ticks)
    pre = []
    if r.random() < 0.12:
        # handling / forwarding options set by the application at run time, in any order: only SetHandleOnlyKnownMessages matters (seed C02-14)
        ok = only_known
        for _o in range(r.randint(1, 4)):
            w, b = r.randrange(5), r.randrange(2)
            pre.append('O %d %d' % (w, b))
            if w == 0:
                ok = bool(b)
    return cfg_line(r, mode, slots, t0, applist, only_known) + ' | ' + ' ; '.join(pre + finish(ops))


def all_lengths_case(r, pgn, fast, lo, hi, slots=5, mode=0, short=False):
    ops = []
    sid = 0
    for n in range(lo, hi):
        m = Msg(r, pgn, 50, 255 if not addressed(pgn) else OWN, n, fast, sid, short_dlc=short)
        sid = (sid + 1) % 8
        ops += [frame_op(*f) for f in m.frames]
        ops.append('P')
        if len(m.frames) > 20:
            ops.append('P')
    return cfg_line(r, mode, slots, 5000, False) + ' | ' + ' ; '.join(finish(ops))


def overlong_case(r):
    ops = []
    for ann in r.sample(range(224, 256), 4):
        n = r.choice([223, 223, 100, 10])
        m = Msg(r, r.choice(FAST_BCAST), r.choice([50, 51]), 255, n, True, r.randrange(8), announce=ann)
        ops += [frame_op(*f) for f in m.frames] + ['P', 'P']
        # a following proper message of the same sender must get through
        m2 = Msg(r, m.pgn, m.src, 255, r.choice([5, 20]), True, r.randrange(8))
        ops += [frame_op(*f) for f in m2.frames] + ['P']
    return cfg_line(r, r.choice([0, 2]), r.choice([1, 2, 5]), r.choice(ORIGINS), False) + ' | ' + ' ; '.join(finish(ops))


def dlc_case(r):
    """frames of fast-packet PGNs with DLC 0..7: the bytes beyond the DLC are driver garbage chosen by the case"""
    ops = []
    pgn = r.choice(FAST_BCAST)
    src = 50
    idv = can_id(3, pgn, src, 255)
    for _ in range(r.randint(4, 12)):
        x = r.random()
        if x < 0.35:
            dlc = r.choice([0, 1, 2, 3, 7])
            buf = [r.choice([0, 0x20, 0x41, 0x01, r.randrange(256)]), r.choice([0, 1, 3, 6, 7, 13, 200, 230]), *[r.randrange(256) for _ in range(6)]]
            ops.append(frame_op(idv, buf, dlc))
        elif x < 0.7:
            n = r.choice([3, 6, 7, 9, 13, 20])
            m = Msg(r, pgn, src, 255, n, True, r.randrange(8), short_dlc=True)
            ops += [frame_op(*f) for f in m.frames]
        else:
            m = Msg(r, r.choice(SINGLE_BCAST), src, 255, r.randint(0, 8), False, 0)
            ops += [frame_op(*f) for f in m.frames]
        if r.random() < 0.4:
            ops.append('P')
    return cfg_line(r, r.choice([0, 2]), r.choice([1, 2, 5]), r.choice(ORIGINS), False) + ' | ' + ' ; '.join(finish(ops))


def eviction_case(r, dt=None, t0=None, slots=None):
    """all slots taken by abandoned first frames, then dt ms later a new sender: 99 -> refused, 100/101 -> the oldest slot is reused"""
    slots = r.choice([1, 2, 3, 5, 8]) if slots is None else slots
    t0 = r.choice(ORIGINS) if t0 is None else t0
    dt = r.choice([98, 99, 100, 101, 150]) if dt is None else dt
    ops = []
    gaps = [r.choice([0, 1, 3]) for _ in range(slots)]
    for i in range(slots):
        m = Msg(r, FAST_BCAST[i % len(FAST_BCAST)], 30 + i, 255, 20, True, r.randrange(8))
        ops += [frame_op(*m.frames[0]), 'P']
        if gaps[i]:
            ops.append('T %d' % gaps[i])
    # clock is now t0 + sum(gaps); the oldest slot was filled at t0
    rest = dt - sum(gaps)
    if rest > 0:
        ops.append('T %d' % rest)
    fresh = Msg(r, r.choice(FAST_BCAST + SINGLE_BCAST[:3]), 60, 255, r.choice([4, 13, 20]), True, r.randrange(8))
    fresh = Msg(r, 129029, 60, 255, r.choice([4, 13, 20]), True, r.randrange(8)) if r.random() < 0.7 else Msg(r, 127250, 60, 255, 8, False, 0)
    ops += [frame_op(*f) for f in fresh.frames] + ['P']
    if r.random() < 0.5:
        ops.append('T %d' % r.choice([1, 99, 100]))
        m = Msg(r, 128275, 61, 255, 9, True, 1)
        ops += [frame_op(*f) for f in m.frames] + ['P']
    return cfg_line(r, r.choice([0, 2]), slots, t0, False) + ' | ' + ' ; '.join(finish(ops))


def more_senders_than_slots(r):
    slots = r.choice([1, 2, 3])
    ns = slots + r.randint(1, 4)
    streams = []
    for i in range(ns):
        m = Msg(r, r.choice(FAST_BCAST), 30 + i, 255, r.choice([13, 20, 34]), True, r.randrange(8))
        streams.append(m.frames)
    merged = [frame_op(*f) for f in interleave(r, streams)]
    ops = sprinkle(r, merged, r.choice([0.0, 0.2, 1.0]), r.choice([[], [100, 101]]))
    return cfg_line(r, 0, slots, r.choice(ORIGINS), False) + ' | ' + ' ; '.join(finish(ops))


def late_sizing_case(r):
    """SetN2kCANMsgBufSize once Open() has allocated the reassembly buffer (first poll of a cold node) but before the node is open (the
    200 ms start delay): documented to have no effect - as many interleaved senders as the configured slots still complete (seed C02-17)"""
    slots = r.choice([3, 4, 5])
    late = r.choice([1, 2, slots + 4, 0])
    streams = []
    for i in range(slots):
        m = Msg(r, r.choice(FAST_BCAST), 30 + i, 255, r.choice([13, 20, 34]), True, r.randrange(8))
        streams.append(m.frames)
    merged = [frame_op(*f) for f in interleave(r, streams)]
    ops = ['P', 'T 1', 'P', 'T %d' % r.choice([0, 50, 199]), 'Z 1 %d' % late, 'T 250', 'P', 'T 10', 'P'] + sprinkle(r, merged, r.choice([0.0, 0.2]), [])
    return cfg_line(r, 0, slots, r.choice(ORIGINS), False) + ' cold=1 | ' + ' ; '.join(finish(ops))


def bam_occupancy_case(r):
    """ISO-TP broadcast announcements (never followed by data) share the slot table"""
    slots = r.choice([2, 3, 5])
    ops = []
    nb = r.randint(1, slots)
    for i in range(nb):
        pgn = r.choice([130816, 129029])
        nbytes = r.choice([20, 100])
        d = [32, nbytes & 255, nbytes >> 8, (nbytes + 6) // 7, 255, pgn & 255, (pgn >> 8) & 255, (pgn >> 16) & 255]
        ops += [frame_op(can_id(7, 60416, 40 + i, 255), d, 8), 'P']
    streams = []
    for i in range(r.randint(1, slots)):
        m = Msg(r, r.choice(FAST_BCAST), 30 + i, 255, r.choice([13, 20]), True, r.randrange(8))
        streams.append(m.frames)
    ops += sprinkle(r, [frame_op(*f) for f in interleave(r, streams)], 0.3, [])
    return cfg_line(r, r.choice([0, 2]), slots, r.choice(ORIGINS), False) + ' | ' + ' ; '.join(finish(ops))


def own_bam_case(r):
    """a sender's ISO-TP broadcast announcement (another PGN, never followed by data, or the same PGN) arrives between the first and the
    last frame of a fast packet of the SAME sender to the same destination: a separate connection, the fast packet must still arrive"""
    slots = r.choice([3, 5, 8])
    src = r.choice([35, 36])
    fp_pgn = r.choice(FAST_BCAST)
    m = Msg(r, fp_pgn, src, 255, r.choice([13, 20, 34, 100]), True, r.randrange(8))
    frames = [frame_op(*f) for f in m.frames]
    cut = r.randint(1, len(frames) - 1)
    ops = frames[:cut]
    for _ in range(r.choice([1, 1, 2])):
        pgn = r.choice([127489, 130816, 129029, fp_pgn])
        nbytes = r.choice([20, 100])
        d = [32, nbytes & 255, nbytes >> 8, (nbytes + 6) // 7, 255, pgn & 255, (pgn >> 8) & 255, (pgn >> 16) & 255]
        ops += [frame_op(can_id(7, 60416, src, 255), d, 8)] + (['P'] if r.random() < 0.5 else [])
    ops += frames[cut:]
    other = Msg(r, r.choice(FAST_BCAST), 37, 255, 20, True, 1)
    ops += [frame_op(*f) for f in other.frames]
    return cfg_line(r, r.choice([0, 2]), slots, r.choice(ORIGINS), False) + ' | ' + ' ; '.join(finish(ops))


def restart_case(r):
    """a sender starts a message again (new first frame, next sequence id) in the middle of the previous one"""
    pgn = r.choice(FAST_BCAST + FAST_ADDR)
    dst = r.choice([255, OWN, 23]) if addressed(pgn) else 255
    a = Msg(r, pgn, 50, dst, r.choice([20, 34, 100]), True, 3)
    b = Msg(r, pgn, 50, dst, r.choice([5, 13, 20]), True, 4)
    cut = r.randint(1, len(a.frames) - 1)
    other = Msg(r, r.choice(FAST_BCAST), 51, 255, 20, True, 1)
    s1 = a.frames[:cut] + b.frames + (a.frames[cut:cut + 1] if r.random() < 0.3 else [])
    merged = [frame_op(*f) for f in interleave(r, [s1, other.frames])]
    ops = sprinkle(r, merged, r.choice([0.0, 0.3, 1.0]), [])
    return cfg_line(r, r.choice([0, 2]), r.choice([1, 2, 5]), r.choice(ORIGINS), False) + ' | ' + ' ; '.join(finish(ops))


def cross_destination_case(r):
    """one sender, one addressable fast-packet PGN, consecutive messages to different destinations, the first one incomplete"""
    pgn = r.choice(FAST_ADDR + [126208])
    sid = r.randrange(8)
    a = Msg(r, pgn, 50, r.choice([OWN, 23]), r.choice([10, 20]), True, sid)
    b = Msg(r, pgn, 50, 77 if r.random() < 0.5 else 255, r.choice([10, 13, 20]), True, (sid + 1) % 8 if r.random() < 0.8 else sid)
    cut = r.randint(1, len(a.frames) - 1)
    frames = a.frames[:cut] + b.frames
    ops = sprinkle(r, [frame_op(*f) for f in frames], r.choice([0.0, 0.5]), [])
    return cfg_line(r, 0, r.choice([2, 5]), 5000, False) + ' | ' + ' ; '.join(finish(ops))


def stale_duplicate_case(r):
    """two senders over two slots; the second sender loses the tail of a message and sends the next one after the first sender's slot was freed"""
    x1 = Msg(r, 129029, 10, 255, 10, True, 0)
    k1 = Msg(r, 129540, 11, 255, 10, True, 0)
    k2 = Msg(r, 129540, 11, 255, 10, True, 1)
    x2 = Msg(r, 129029, 10, 255, 10, True, 1)
    fr = [x1.frames[0], k1.frames[0], x1.frames[1], k2.frames[0], x2.frames[0], k2.frames[1], x2.frames[1]]
    ops = sprinkle(r, [frame_op(*f) for f in fr], r.choice([0.0, 0.5]), [])
    return cfg_line(r, 0, 2, 5000, False) + ' | ' + ' ; '.join(finish(ops))


def exhaustive_two_senders(r, slots):
    """all interleavings of 2 senders x 3 frames x all drop patterns"""
    cases = []
    a = Msg(r, 129029, 30, 255, 20, True, 2)       # 3 frames
    b = Msg(r, 129029 if slots == 0 else 127489, 31, 255, 20, True, 5)
    assert len(a.frames) == 3 and len(b.frames) == 3
    for pos in itertools.combinations(range(6), 3):
        order = []
        ia = ib = 0
        for k in range(6):
            if k in pos:
                order.append(('a', ia)); ia += 1
            else:
                order.append(('b', ib)); ib += 1
        for drop in range(64):
            fr = [(a if w == 'a' else b).frames[i] for k, (w, i) in enumerate(order) if not (drop >> k) & 1]
            ops = [frame_op(*f) for f in fr]
            cases.append('NODE mode=0 ndev=1 src=%d q=40 slots=%d t0=5000 | ' % (OWN, max(1, slots)) + ' ; '.join(finish(ops)))
    return cases


# ---------------------------------------------------------------------------------------------------------------------
# reference receiver
class Ideal:
    def __init__(self, cfg):
        self.cfg = cfg
        self.slots = cfg.get('slots', 5)
        self.open = {}           # key -> dict(t, pri, last, ln, data)
        self.strict = not cfg.get('ok', 0)
        self.why_loose = 'only-known filter' if cfg.get('ok', 0) else None
        self.features = set()
        self.order = 0
        self.superseded = 0      # number of first frames that arrived while a run of their key was open

    def loosen(self, why):
        if self.strict:
            self.strict = False
            self.why_loose = why

    def need_slot(self, key, now):
        """True = the message gets a place, False = it is legitimately refused, None = beyond what the property fixes"""
        if key in self.open:
            return True
        if len(self.open) < self.slots:
            return True
        # table full: the oldest place is reused once it is 100 ms old
        ages = sorted(((now - v['t']), v['ord'], k) for k, v in self.open.items())
        oldest_age = ages[-1][0]
        tied = [k for a, o, k in ages if a == oldest_age]
        if len(tied) > 1:
            self.loosen('beyond capacity (several equally old places)')
            for k in tied:
                del self.open[k]
            return None
        if oldest_age >= 100:
            del self.open[tied[0]]
            self.features.add('evict')
            return True
        self.features.add('refused')
        return False

    def frame(self, idv, dlc, buf, now):
        """-> list of deliveries (pri,pgn,src,dst,len,data) this frame completes"""
        pri, pgn, src, dst = decode_id(idv)
        if pgn == 60416:
            if buf[0] == 32:       # broadcast announce: takes a place in the table (ISO-TP itself is C10); one session per source/destination
                key = ('tp', src, dst, True)
                r = self.need_slot(key, now)
                if r:
                    self.order += 1
                    self.open[key] = {'t': now, 'ord': self.order, 'tp': True}
            else:
                self.loosen('ISO-TP control frame')
            return []
        if pgn == 60160:
            self.loosen('ISO-TP data frame')
            return []
        cls = pgn_class(pgn, self.cfg)
        if cls is None:
            self.loosen('PGN %d has no reference class' % pgn)
            return []
        key = (pgn, src, dst, False)
        if cls == 'single':
            r = self.need_slot(key, now)
            if key in self.open:
                del self.open[key]
            if r:
                return [(pri, pgn, src, dst, dlc, list(buf[:dlc]))]
            if r is None:
                return [None]
            return []
        b0 = buf[0]
        if b0 & 31 == 0:
            for k in self.open:
                if k[0] == pgn and k[1] == src and k[2] != dst and not k[3]:
                    self.features.add('cross-dst')
            if key in self.open:
                self.features.add('supersede')
                self.superseded += 1
            r = self.need_slot(key, now)
            if r is None:
                return [None]
            if not r:
                self.open.pop(key, None)
                return []
            self.order += 1
            data = list(buf[2:dlc])
            self.open[key] = {'t': now, 'ord': self.order, 'pri': pri, 'last': b0, 'ln': buf[1], 'data': data}
            if len(data) >= buf[1]:
                del self.open[key]
                return [(pri, pgn, src, dst, buf[1], data[:buf[1]])]
            return []
        s = self.open.get(key)
        if s is None:
            return []
        if s['last'] + 1 != b0:
            del self.open[key]
            return []
        s['last'] = b0
        s['data'] = (s['data'] + list(buf[1:dlc]))[:223]
        if len(s['data']) >= s['ln']:
            del self.open[key]
            return [(s['pri'], pgn, src, dst, s['ln'], s['data'][:s['ln']])]
        return []
