# C18 - the device list mirrors the address claims seen on the bus (and the device-list half of C07: no history makes it touch
# freed memory or leave its objects): generator of message histories, independent property oracle, correspondence.
#
# One case = one history:  DL <t0> | M <dt> <pgn> <src> <dst> <datahex> [<sendok>] ; ... ; Q
#   (see harness/h_devlist.cpp for the result line).
# Metamorphic family (C13 for the device list, finding D-20):  DLS <t0>,<t0>,... | <operations>  runs the same history from several
# clock origins (5000, 0, 2^31 -+ k, 2^32 - k); every origin must satisfy the property above and all origins must produce the same ISO
# requests at the same times relative to the origin (oracle key `pacing-origin`).
#
# How the oracle reads the property (the abstract mirror, replayed here without any knowledge of the Coq model):
#   * NAME of a claim = little-endian value of the first 8 payload bytes, all-ones ("not available") if the payload is shorter.
#   * a claim (n, a) whose NAME already holds address a is a repetition and changes nothing (devices answer every ISO request for
#     60928 with their claim; the list is not expected to forget what it learned).  Every other claim makes n the holder of a:
#     the previous holder of a is displaced (dropped from the mirror), n leaves its previous address, and the information expected
#     for the device at a starts empty.  Sources 254/255 are not addresses of devices.
#   * product information = PGN 126996 with at least the 134 bytes of its fixed layout; the first one from address a after the claim
#     that made n the holder of a must be reported for a (strings: the 32 bytes of the field up to the first 0x00/0xFF; "not available"
#     numbers 0xFFFF/0xFF may be replaced by defaults).  Shorter payloads are not product information and must not count as "first".
#   * configuration information = PGN 126998 whose three variable strings (length byte counts itself and the type byte, type 0 = UCS-2,
#     1 = ASCII) lie completely inside the payload; the latest one from a is reported (ASCII text up to the first 0x00/0xFF; UCS-2 as
#     UTF-8 up to the first NUL; an empty string may be reported as null).  After a malformed 126998 from a nothing is required until the
#     next well-formed one.
#   * PGN lists = PGN 126464, first byte 0 (transmit) / 1 (receive), then 3-byte PGNs; the latest list of each kind from a is reported up
#     to the first PGN 0 (the interface is a zero terminated array).  Stray bytes behind the last complete PGN: nothing required.
#   * list-updated: between two dumps that differ in what is reported for non-zero NAMEs at least one message must have raised the flag
#     (the random walks dump after every message, so this is checked per message there).
#   * known finding 'parked-device' (not repaired): see PENDING_DESCR; the oracle reports a product information failure under this key exactly
#     when the device had been displaced by a takeover and its next claim named the slot the list kept it in (as seen in the last dump; if
#     there was no dump since, any slot).
#   * NAME 0 is nobody's NAME: entries with NAME 0 (placeholders for sources that have not claimed yet) carry no obligations.
import random, struct, re
import vlib

# findings that are not repaired (no small and safe patch) and are to be listed in known_findings.json by the lead; until then the
# check treats exactly these oracle keys as known
PENDING_KNOWN = ['parked-device']
PENDING_DESCR = {'parked-device': 'a device displaced from its address is parked in a free slot of Sources[] as if it had that address; when it then claims exactly that '
                 'address the claim is taken for a repetition, product information is not asked again and the first product information after the claim is ignored'}
ALL1 = (1 << 64) - 1
T0S = [0, 1, 999, 1000, 5000, 123456, (1 << 31) - 70000, (1 << 31) - 1500, (1 << 31) - 1, 1 << 31, (1 << 31) + 1000, 0x80010000,
       0xFFFF0000, 0xFFFFF000, (1 << 32) - 1001, (1 << 32) - 1]
DTS = [0, 0, 1, 1, 5, 10, 100, 499, 500, 999, 1000, 1001, 1002, 1500, 2000, 2001, 3000, 59999, 60000, 60001, 70000]
OTHER_PGNS = [127250, 129025, 59904, 59392, 126993, 130306, 126208, 65240, 0, 1, 0xffffff, 126992]


def hx(b):
    return bytes(b).hex() if len(b) else '-'


def claim(n):
    return struct.pack('<Q', n)


def rtext(r, n, hi=False):
    al = b'ABCDEFGHIJKLMNOPQRSTUVWXYZabcdefghijklmnopqrstuvwxyz0123456789 -_./@#'
    return bytes((r.choice(al) if not hi or r.random() < 0.8 else r.randint(128, 254)) for _ in range(n))


def prodinfo(r, kind='valid'):
    def field():
        n = r.choice([0, 1, 5, 12, 31, 32, 32, r.randint(0, 32)])
        t = rtext(r, n, hi=r.random() < 0.2)
        pad = r.choice([0xff, 0xff, 0xff, 0x00, 0x20])
        f = (t + bytes([pad]) * 32)[:32]
        if r.random() < 0.15 and n < 30:       # text after the terminator
            f = t + bytes([r.choice([0, 0xff])]) + rtext(r, 31 - n)
        return f
    b = struct.pack('<HH', r.choice([2100, 2101, 1300, 0xffff, r.randrange(65536)]), r.choice([0, 1, 777, 0xffff, r.randrange(65536)]))
    b += field() + field() + field() + field()
    b += bytes([r.choice([0, 1, 2, 0xff, r.randrange(256)]), r.choice([0, 1, 3, 0xff, r.randrange(256)])])
    if kind == 'valid':
        return b
    if kind == 'long':
        return b + rtext(r, r.choice([1, 2, 50, 89, 100]))
    # truncated
    return b[:r.choice([0, 1, 3, 4, 35, 36, 68, 99, 100, 131, 132, 133, r.randint(0, 133)])]


def ucs2(s):
    return b''.join(struct.pack('<H', c) for c in s)


def varstr(r, kind=None, maxlen=70):
    kind = kind or r.choice(['ascii'] * 6 + ['empty', 'empty', 'ucs', 'ucs', 'nul', 'badlen', 'badtype', 'na', 'cut'])
    if kind == 'empty':
        return bytes([2, r.choice([0, 1])])
    if kind == 'ascii':
        t = rtext(r, r.choice([1, 2, 3, 10, 33, maxlen, r.randint(1, maxlen)]), hi=r.random() < 0.1)
        return bytes([len(t) + 2, 1]) + t
    if kind == 'nul':                                   # terminator inside the text
        t = rtext(r, r.randint(1, 10)) + bytes([r.choice([0, 0xff])]) + rtext(r, r.randint(0, 10))
        return bytes([len(t) + 2, 1]) + t
    if kind == 'ucs':
        cps = [r.choice([65, 66, 97, 48, 0xe4, 0xf6, 0x20ac, 0x416, 0x7ff, 0x800, 0xffff, 0x7f, 0x80, r.randint(1, 0xffff)]) for _ in range(r.randint(1, min(30, maxlen // 2)))]
        if r.random() < 0.15:
            cps.insert(r.randrange(len(cps) + 1), 0)
        t = ucs2(cps)
        if r.random() < 0.1:
            t += b'\x41'                                # odd byte count
        return bytes([len(t) + 2, 0]) + t
    if kind == 'ucslong':                               # UCS-2 whose UTF-8 form is longer than the UCS-2 form (up to 3/2), up to the whole payload
        n = r.choice([60, 73, 74, 75, 76, 80, 100, 107, 108, r.randint(40, 108)]) if maxlen >= 216 else r.randint(2, max(2, maxlen // 2))
        cps = [r.choice([0x4e2d, 0x20ac, 0x800, 0xffff, 0xd7ff, 0xe000, r.randint(0x800, 0xffff)]) if r.random() < 0.9 else r.choice([0x7ff, 0x41, 0xe4]) for _ in range(n)]
        t = ucs2(cps)
        return bytes([len(t) + 2, 0]) + t
    if kind == 'badlen':
        return bytes([r.choice([0, 1]), r.choice([0, 1])]) + rtext(r, r.randint(0, 4))
    if kind == 'badtype':
        t = rtext(r, r.randint(0, 8))
        return bytes([len(t) + 2, r.choice([2, 3, 0x80, 0xff])]) + t
    if kind == 'na':
        return bytes([255, 1]) + rtext(r, r.randint(0, 20))
    # 'cut': the length byte promises more than follows (only meaningful as the last field)
    t = rtext(r, r.randint(0, 10))
    return bytes([len(t) + 2 + r.randint(1, 40), 1]) + t


def confinfo(r, kind='valid'):
    if kind == 'valid':
        ks = [r.choice(['ascii'] * 5 + ['empty', 'empty', 'ucs', 'nul']) for _ in range(3)]
        mx = r.choice([5, 20, 70, 70])
        return b''.join(varstr(r, k, mx) for k in ks)
    if kind == 'big':                                   # fills the payload (223 bytes) as far as it goes
        a = r.randint(1, 200); b_ = r.randint(0, max(0, 210 - a)); c = max(0, 217 - a - b_ - r.choice([0, 0, 1, 5]))
        out = b''
        for n in (a, b_, c):
            out += bytes([n + 2, 1]) + rtext(r, n) if n else bytes([2, 1])
        return out
    if kind == 'uni':                                   # one long UCS-2 string (any of the three positions), the others short; fits the payload
        pos = r.randrange(3)
        long_ = varstr(r, 'ucslong', 216)
        room = 223 - len(long_) - 4
        others = [varstr(r, r.choice(['empty', 'empty', 'ascii', 'ucs']), max(2, min(10, room // 2 - 2))) for _ in range(2)]
        if len(long_) + len(others[0]) + len(others[1]) > 223:
            others = [bytes([2, 1]), bytes([2, 1])]
        fields = others[:pos] + [long_] + others[pos:]
        return b''.join(fields)
    if kind == 'any':
        return b''.join(varstr(r) for _ in range(r.choice([0, 1, 2, 3, 3, 3, 4])))
    b = confinfo(r, 'valid')
    return b[:r.randint(0, len(b))]                     # truncated


def pgnlist(r, kind=None):
    k = r.choice([0, 0, 0, 1, 1, 1, 2, 0xff]) if kind is None else kind
    n = r.choice([0, 1, 2, 3, 10, 73, 74, r.randint(0, 74)])
    b = bytes([k])
    for _ in range(n):
        p = r.choice([126996, 127250, 129029, 59904, 0xffffff, 1, r.randrange(1, 1 << 24)]) if r.random() < 0.97 else 0
        b += struct.pack('<I', p)[:3]
    if r.random() < 0.15:
        b += rtext(r, r.choice([1, 2]))
    if r.random() < 0.05:
        b = b''
    return b


def M(dt, pgn, src, data, ok=True, dst=255):
    return 'M %d %d %d %d %s%s' % (dt, pgn, src, dst, hx(data), '' if ok else ' 0')


def case(t0, ops):
    return 'DL %d | %s' % (t0, ' ; '.join(ops))


def origins_for(total):
    ks = sorted({1, 500, max(2, total)})
    o = [5000, 0]
    for k in ks:
        o += [(1 << 31) - k, (1 << 31) + k, (1 << 32) - k]
    return o


def mcase(ops, aim=10):
    """the same history from clock origins 5000, 0, 2^31 -+ k, 2^32 - k for k = 1, 500, duration of the history - and from origins that
    put the instant of one of its messages (requests are sent while a message is handled) exactly on the 32-bit clock value 0 (seed C13-10:
    a stored request time of 0 taken for 'never requested'); `aim` such instants per history, spread over it"""
    total = sum(int(o.split()[1]) for o in ops if o.startswith('M '))
    og = origins_for(total)
    ts, t = [], 0
    for o in ops:
        if o.startswith('M '):
            t += int(o.split()[1])
            if t > 0 and t not in ts:
                ts.append(t)
    step = max(1, len(ts) // aim)
    for x in ts[::step][:aim + 2]:
        if (1 << 32) - x not in og:
            og.append((1 << 32) - x)
    return 'DLS %s | %s' % (','.join(str(x) for x in og), ' ; '.join(ops))


def pacing_walk(r, nops):
    """few devices, mostly traffic that drives the request pacing, time steps around the pacing constants"""
    srcs = r.sample(range(0, 252), r.choice([1, 2, 3, 4]))
    names = [0x5000 + i for i in range(len(srcs) + 1)]
    pis = [prodinfo(r) for _ in srcs]
    ops = []
    for i, s in enumerate(srcs):
        if r.random() < 0.7:
            ops.append(M(r.choice([0, 1, 300]), 60928, s, claim(names[i])))
        else:
            ops.append(M(r.choice([0, 1, 300]), 127250, s, b'\0' * 8))
    for k in range(nops):
        dt = r.choice([0, 1, 1, 250, 499, 500, 501, 999, 1000, 1000, 1001, 1001, 1001, 1002, 1500, 2000, 2001, 3000, 59999, 60000, 60001])
        s = r.choice(srcs)
        ok = r.random() > 0.08
        x = r.random()
        if x < 0.70:
            ops.append(M(dt, r.choice([127250, 129025, 130306, 59904]), s, b'\0' * 8, ok))
        elif x < 0.78:
            ops.append(M(dt, 60928, s, claim(r.choice(names)), ok))
        elif x < 0.86:
            ops.append(M(dt, 126996, s, r.choice(pis), ok))
        elif x < 0.93:
            ops.append(M(dt, 126998, s, confinfo(r), ok))
        else:
            ops.append(M(dt, 126464, s, pgnlist(r, r.choice([0, 1])), ok))
    return ops


def walk(r, nops, srcs, names, qevery, wclaim=3, big=False):
    """random walk over a small universe of sources and NAMEs"""
    ops = []
    pool = [prodinfo(r) for _ in range(r.choice([2, 2, 3]))]      # repeated product information (identical payloads)
    for k in range(nops):
        dt = r.choice(DTS)
        s = r.choice(srcs)
        ok = r.random() > 0.07
        a = r.random() * (wclaim + 7)
        if a < wclaim:
            n = r.choice(names)
            d = claim(n)
            x = r.random()
            if x < 0.04:
                d = d[:r.randint(0, 7)]
            elif x < 0.08:
                d = d + rtext(r, r.randint(1, 3))
            ops.append(M(dt, 60928, s, d, ok))
        elif a < wclaim + 1.5:
            if r.random() < 0.6:
                ops.append(M(dt, 126996, s, r.choice(pool), ok))
            else:
                ops.append(M(dt, 126996, s, prodinfo(r, r.choice(['valid'] * 4 + ['long', 'trunc', 'trunc'])), ok))
        elif a < wclaim + 3:
            ops.append(M(dt, 126998, s, confinfo(r, r.choice(['valid'] * 5 + ['any', 'any', 'trunc', 'uni'] + (['big'] * 2 + ['uni'] if big else []))), ok))
        elif a < wclaim + 4.2:
            ops.append(M(dt, 126464, s, pgnlist(r), ok))
        else:
            ops.append(M(dt, r.choice(OTHER_PGNS), s, rtext(r, r.choice([0, 3, 8, 8, 20])), ok, dst=r.choice([255, 25, s])))
        if qevery and (k % qevery == qevery - 1):
            ops.append('Q')
    return ops


def gen(seed, tier):
    r = random.Random(seed * 7919 + 18)
    thorough = tier != 'quick'
    cases = []
    N = [0x1234, 0xC0FFEE0000000001, ALL1, 0x8000000000000000, 0x00000000FFFFFFFF, 5, 0x1111111111111111, 0x2222222222222222]
    # --- boundary histories written out by hand
    pi1 = prodinfo(r); pi2 = prodinfo(r)
    cases += [
        # placeholder, then a NAME 0 claim from the same / a lower / a higher source
        case(5000, [M(10, 127250, 40, b'\0' * 8), 'Q', M(10, 60928, 40, claim(0)), 'Q', M(5, 127250, 40, b'\0' * 8)]),
        case(5000, [M(10, 127250, 40, b'\0' * 8), M(1, 127250, 30, b'\1'), M(10, 60928, 40, claim(0)), 'Q', M(1, 60928, 30, claim(0)), 'Q', M(1, 60928, 50, claim(0))]),
        case(0, [M(10, 60928, 7, claim(0)), 'Q', M(10, 60928, 7, claim(0)), M(0, 60928, 8, claim(0)), 'Q', M(0, 60928, 7, claim(9)), M(0, 60928, 8, claim(9))]),
        # new device, move, takeover, re-claim, return of the displaced device
        case(1000, [M(0, 60928, 10, claim(N[0])), 'Q', M(5, 60928, 11, claim(N[0])), 'Q', M(5, 60928, 11, claim(N[1])), 'Q', M(1, 60928, 11, claim(N[1])), 'Q',
                    M(7, 60928, 12, claim(N[0])), 'Q', M(7, 60928, 0, claim(N[2])), 'Q', M(7, 60928, 0, claim(N[0])), 'Q']),
        # the displaced device is parked at source 0: traffic from source 0, then a claim of source 0
        case(1000, [M(0, 60928, 10, claim(N[0])), M(5, 60928, 10, claim(N[1])), 'Q', M(5, 126996, 0, pi1), M(5, 127250, 0, b'\0'), 'Q', M(5, 60928, 0, claim(N[3])), 'Q',
                    M(5, 60928, 33, claim(N[0])), 'Q']),
        # first product information after the claim, later ones ignored, a move asks again, truncated ones are not product information
        case(2000, [M(0, 60928, 10, claim(N[0])), M(5, 126996, 10, pi1), 'Q', M(5, 126996, 10, pi2), 'Q', M(5, 60928, 10, claim(N[0])), M(5, 126996, 10, pi2), 'Q',
                    M(5, 60928, 20, claim(N[0])), 'Q', M(5, 126996, 20, pi2), 'Q', M(5, 126996, 20, pi2), 'Q']),
        case(2000, [M(0, 60928, 10, claim(N[0])), M(5, 126996, 10, pi1[:100]), 'Q', M(5, 126996, 10, b''), M(5, 126996, 10, pi1[:133]), 'Q', M(5, 126996, 10, pi1), 'Q']),
        # configuration information: stored at all, repeated with different sizes (buffer re-used with other field sizes)
        case(3000, [M(0, 60928, 10, claim(N[0])), M(5, 126998, 10, b'\x0a\x01Desc one\x04\x01D2\x07\x01Maker'), 'Q']),
        case(3000, [M(0, 60928, 10, claim(N[0])), M(5, 126998, 10, b'\x0a\x01Desc one\x02\x01\x03\x01M'), 'Q', M(5, 126998, 10, b'\x02\x01\x02\x01\x0c\x01Maker12345'), 'Q',
                    M(5, 126998, 10, b'\x0b\x01123456789\x02\x01\x02\x01'), 'Q', M(5, 126998, 10, b'\x02\x01\x0b\x01abcdefghi\x02\x01'), 'Q', M(5, 126998, 10, b'\x02\x01\x02\x01\x02\x01'), 'Q',
                    M(5, 126998, 10, b'\x03\x01a\x03\x01b\x03\x01c'), 'Q', M(5, 126998, 10, b'\x40\x01' + b'x' * 62 + b'\x40\x01' + b'y' * 62 + b'\x40\x01' + b'z' * 62), 'Q']),
        case(3000, [M(0, 60928, 10, claim(N[0])), M(5, 126998, 10, bytes([8, 0]) + ucs2([0x4d, 0xe4, 0x20ac]) + bytes([2, 1, 6, 0]) + ucs2([0x800, 0x7ff])), 'Q']),
        # UCS-2 strings whose UTF-8 form is longer than the payload (3 bytes per character): 74/75/80/108 characters, in each position
        case(3000, [M(0, 60928, 10, claim(N[0]))] + sum([[M(5, 126998, 10, bytes([2 + 2 * n, 0]) + ucs2([0x4e2d] * n) + b'\x06\x01Des2\x05\x01Man'), 'Q'] for n in (74, 75, 80, 106)], [])),
        case(3000, [M(0, 60928, 10, claim(N[0])), M(5, 126998, 10, b'\x02\x01' + bytes([2 + 2 * 80, 0]) + ucs2([0x20ac] * 80) + b'\x03\x01M'), 'Q',
                    M(5, 126998, 10, b'\x03\x01a\x02\x00' + bytes([2 + 2 * 107, 0]) + ucs2([0xffff] * 107)), 'Q', M(5, 126998, 10, bytes([2 + 2 * 108, 0]) + ucs2([0x800] * 108) + b'\x02\x01\x02\x01'), 'Q',
                    M(5, 126998, 10, bytes([2 + 2 * 36, 0]) + ucs2([0x4e2d] * 36) + bytes([2 + 2 * 36, 0]) + ucs2([0x20ac] * 36) + bytes([2 + 2 * 36, 0]) + ucs2([0x416] * 36)), 'Q']),
        # the same product information again after a new claim (move, takeover and return), then a different one: the repeated one is the first
        case(2000, [M(0, 60928, 10, claim(N[0])), M(5, 126996, 10, pi1), 'Q', M(5, 60928, 11, claim(N[0])), M(5, 126996, 11, pi1), 'Q', M(5, 126996, 11, pi2), 'Q',
                    M(5, 60928, 11, claim(N[1])), M(5, 60928, 20, claim(N[0])), M(5, 126996, 20, pi1), M(5, 126996, 20, pi2), 'Q', M(5, 126996, 11, pi1), M(5, 126996, 11, pi2), 'Q']),
        case(2000, [M(0, 127250, 10, b'\0'), M(5, 126996, 10, pi1), M(5, 60928, 10, claim(N[0])), M(5, 126996, 10, pi1), M(5, 126996, 10, pi2), 'Q']),
        # PGN lists of every size class, re-sent shorter and longer
        case(4000, [M(0, 60928, 10, claim(N[0])), M(5, 126464, 10, b'\0' + b'\x00\xee\x01' * 74), M(5, 126464, 10, b'\1' + b'\x14\xf0\x01'), 'Q', M(5, 126464, 10, b'\0' + b'\x00\xee\x01' * 2), 'Q',
                    M(5, 126464, 10, b'\0'), 'Q', M(5, 126464, 10, b'\1' + b'\x01\x00\x00' * 73 + b'\x02\x00\x00'), 'Q', M(5, 126464, 10, b''), M(5, 126464, 10, b'\2\x01\x00\x00'), 'Q']),
        # sources 252..255
        case(4000, [M(0, 60928, s, claim(N[0] + s)) for s in (251, 252, 253, 254, 255)] + ['Q'] + [M(1, 127250, s, b'\0') for s in (252, 253, 254, 255)] + ['Q']),
    ]
    # request pacing from every clock origin: one device, then steps around the constants
    for t0 in T0S:
        ops = [M(0, 60928, 10, claim(N[0])), M(1, 127250, 11, b'\0' * 8)]
        for dt in [500, 499, 1, 1, 999, 1, 1, 1000, 1001, 1, 2000, 1500, 1000, 1000, 1001, 1001, 1001, 1001, 1001, 60000, 1, 1001, 1001, 2000]:
            ops.append(M(dt, 127250, r.choice([10, 11]), b'\0' * 8))
        ops.insert(12, M(3, 126996, 10, pi1)); ops.insert(20, M(3, 126998, 10, confinfo(r)))
        cases.append(case(t0, ops))
        if thorough or t0 in (0, 0x80010000, 0xFFFFF000):
            for k in (1, 1000, 2002, 4000):
                cases.append(case((t0 - k) % (1 << 32), walk(r, 40, [10, 11, 12], N[:3], 0, wclaim=1)))
    # --- the same history from many clock origins (request pacing must depend on elapsed time only)
    d20 = [M(0, 60928, 10, claim(N[0])), M(1500, 127250, 10, b'\0')] + [M(1001, 127250, 10, b'\0')] * 12
    cases.append(mcase(d20))
    cases.append(mcase([M(0, 127250, 40, b'\0' * 8)] + [M(dt, 127250, 40, b'\0' * 8) for dt in (999, 1, 1, 1000, 1001, 30000, 29999, 1, 1, 1001, 60001, 1001)]))
    for i in range(24 if not thorough else 300):
        cases.append(mcase(pacing_walk(r, r.choice([15, 25, 40]))))
    # --- small universes, dump after every message (precise check of the updated flag)
    for i in range(400 if not thorough else 4000):
        srcs = r.choice([[10, 11, 12], [0, 1, 2, 3], [0, 1, 2], [0, 5, 252, 253], [3, 4, 5, 254, 255, 6], [40, 30, 50], [0, 253]])
        names = r.choice([N[:3], [0] + N[:2], [0, 0, 5, ALL1], N[:5], [0x1234, 0x1235]])
        cases.append(case(r.choice(T0S + [r.randrange(1 << 32)]), walk(r, r.choice([6, 12, 25]), srcs, names, 1, wclaim=r.choice([2, 3, 5]))))
    # --- longer histories, sparse dumps, big configuration strings
    for i in range(90 if not thorough else 900):
        srcs = r.sample(range(0, 254), r.choice([3, 6, 12])) + [r.choice([254, 255])]
        names = [0] + [r.choice(N) ^ r.randrange(1 << 20) for _ in range(r.choice([2, 5, 10]))]
        cases.append(case(r.choice(T0S + [r.randrange(1 << 32)]), walk(r, r.choice([40, 80, 150]), srcs, names, r.choice([0, 7, 20]), big=True)))
    # --- many sources: every address claimed, then takeovers when no slot is free, moves, traffic
    for i in range(1 if not thorough else 6):
        nsrc = r.choice([252, 254]) if i else 254
        order = list(range(nsrc)); r.shuffle(order)
        ops = []
        for s in order:
            if r.random() < 0.1:
                ops.append(M(r.choice([0, 1, 3]), 127250, s, b'\0' * 8))        # placeholder first
            ops.append(M(r.choice([0, 1, 3]), 60928, s, claim(0xABC0000000000000 + s)))
        ops.append('Q')
        ops += walk(r, 60 if not thorough else 200, order[:8] + [253, 0, 100], [0xABC0000000000000 + s for s in order[:6]] + [0x77, 0x78, 0], 25, wclaim=5)
        cases.append(case(r.choice(T0S), ops))
    for i in range(3 if not thorough else 30):
        # up to 252 sources seen only through data messages, then the requests are paced over all of them
        srcs = r.sample(range(0, 252), r.choice([20, 100, 252]))
        ops = [M(r.choice([0, 1, 10]), r.choice(OTHER_PGNS), s, b'\0' * 8) for s in srcs]
        ops += [M(0, 60928, s, claim(0xD00 + s)) for s in srcs[::3]]
        for k in range(30 if not thorough else 100):
            ops.append(M(r.choice([1, 500, 1001, 1001, 2000]), r.choice(OTHER_PGNS), r.choice(srcs), b'\0' * 8, r.random() > 0.1))
        cases.append(case(r.choice(T0S), ops))
    return cases


# ------------------------------------------------------------------------------------------------------------
# the oracle
def parse_case(c):
    head, rest = c.split('|', 1)
    t0 = int(head.split()[1])
    ops = []
    for o in rest.split(';'):
        t = o.split()
        if not t:
            continue
        if t[0] == 'M':
            data = b'' if t[5] == '-' else bytes.fromhex(t[5])
            ops.append(('M', int(t[1]), int(t[2]), int(t[3]) & 255, data[:223], not (len(t) > 6 and t[6] == '0')))
        else:
            ops.append(('Q',))
    if not ops or ops[-1][0] != 'Q':
        ops.append(('Q',))
    return t0, ops


ENT = re.compile(r's(\d+)\{n=([0-9a-f]+) src=(\d+) ct=\d+ pi=(\d):(\d+):(\d+):([^:]*):([^:]*):([^:]*):([^:]*):(\d+):(\d+) ci=(\d):([^:]*):([^:]*):([^ ]*) tx=([^ ]*) rx=([^ ]*) rq=[^ ]* lm=\d+\}')


def unhx(s):
    return None if s == '~' else (b'' if s == '-' else bytes.fromhex(s))


def unlist(s):
    return None if s == '~' else ([] if s == '-' else [int(x) for x in s.split(',')])


def parse_dump(d):
    ents = {}
    for m in ENT.finditer(d):
        g = m.groups()
        ents[int(g[0])] = {'name': int(g[1], 16), 'src': int(g[2]), 'pi': (int(g[4]), int(g[5]), unhx(g[6]), unhx(g[7]), unhx(g[8]), unhx(g[9]), int(g[10]), int(g[11])),
                           'ci': (unhx(g[13]), unhx(g[14]), unhx(g[15])), 'tx': unlist(g[16]), 'rx': unlist(g[17])}
    byname = {}
    if ' byname' in d:
        for kv in d.split(' byname', 1)[1].split():
            k, v = kv.split('=')
            byname[int(k, 16)] = None if v == '-' else int(v)
    n = len(re.findall(r' s\d+\{', ' ' + d))
    return ents, byname, n


def cut(b):
    for i, x in enumerate(b):
        if x in (0, 0xff):
            return b[:i]
    return b


def want_prod(d):
    if len(d) < 134:
        return None
    ver, code = struct.unpack('<HH', d[:4])
    return (ver, code, cut(d[4:36]), cut(d[36:68]), cut(d[68:100]), cut(d[100:132]), d[132], d[133])


def want_conf(d):
    """three variable strings completely inside the payload -> (man, d1, d2) as the C strings to report; else None"""
    out = []
    i = 0
    for _ in range(3):
        if i + 2 > len(d):
            return None
        L, T = d[i], d[i + 1]
        if L < 2 or L == 255 or T > 1 or i + L > len(d):
            return None
        body = d[i + 2:i + L]
        i += L
        if T == 1:
            out.append(cut(body))
        else:
            s = b''
            for k in range(0, len(body) - 1, 2):
                c = body[k] | (body[k + 1] << 8)
                if c == 0:
                    break
                s += chr(c).encode('utf-8', 'surrogatepass')
            out.append(s)
    return (out[2], out[0], out[1])


ANY = 'any'


def want_list(d):
    """(kind, pgns up to the first 0) | ANY-marker | None"""
    if len(d) == 0 or d[0] > 1:
        return None
    n = (len(d) - 1) // 3
    l = []
    for k in range(n):
        p = d[1 + 3 * k] | (d[2 + 3 * k] << 8) | (d[3 + 3 * k] << 16)
        if p == 0:
            break
        l.append(p)
    return (d[0], ANY if (len(d) - 1) % 3 else l)


REQ = re.compile(r'(\d+):(\d+):(\d+)')


def rel_log(t0, res):
    """per operation: the requests as (time relative to the origin, destination, requested PGN)"""
    log = []
    for part in res.split(' ; '):
        if part.startswith('u='):
            rq = part.split('req=', 1)[1] if 'req=' in part else '-'
            log.append(tuple(((int(a) - t0) % (1 << 32), int(b), int(c)) for a, b, c in REQ.findall(rq)))
    return log


def oracle(case, res):
    if res.startswith('crash'):
        return 'memory:%s' % res
    if res in ('badcase', 'skip'):
        return None
    if case.startswith('DLS '):
        head, rest = case.split('|', 1)
        t0s = [int(x) for x in head.split()[1].split(',') if x]
        parts = res.split(' || ')
        if len(parts) != len(t0s):
            return 'protocol:result has %d parts for %d clock origins' % (len(parts), len(t0s))
        for t0, part in zip(t0s, parts):
            w = oracle1('DL %d |%s' % (t0, rest), part)
            if w:
                return w + ' [clock origin %d]' % t0
        ref = rel_log(t0s[0], parts[0])
        for t0, part in zip(t0s[1:], parts[1:]):
            log = rel_log(t0, part)
            if log != ref:
                k = next(i for i in range(max(len(log), len(ref))) if i >= len(log) or i >= len(ref) or log[i] != ref[i])
                return ('pacing-origin:the same history from clock origin %d (0x%x) sends other ISO requests than from origin %d: message %d: %s against %s '
                        '(time relative to the origin, destination, requested PGN)' % (t0, t0, t0s[0], k, log[k] if k < len(log) else None, ref[k] if k < len(ref) else None))
        return None
    return oracle1(case, res)


def oracle1(case, res):
    if res.startswith('crash'):
        return 'memory:%s' % res
    t0, ops = parse_case(case)
    outs = res.split(' ; ')
    if len(outs) != len(ops):
        return 'protocol:result has %d parts for %d operations' % (len(outs), len(ops))
    mirror = {}      # NAME -> address (undisplaced)
    holder = {}      # address -> NAME
    info = {}        # address -> expectations for its holder
    displaced = {}   # non-zero NAME displaced by a takeover and not seen claiming since -> slot the list was last seen keeping it in (None = unknown)
    fresh = True     # no claim since the last dump (the slots seen there are still the slots)
    prev_view = None
    flags_since = []
    for k, (op, out) in enumerate(zip(ops, outs)):
        if op[0] == 'M':
            _, dt, pgn, src, data, ok = op
            u = out.startswith('u=1')
            flags_since.append(u)
            if src >= 254:
                continue
            if pgn == 60928:
                n = struct.unpack('<Q', data[:8])[0] if len(data) >= 8 else ALL1
                if holder.get(src) == n:
                    continue
                if src in holder:
                    old = holder.pop(src); mirror.pop(old, None); info.pop(src, None)
                    if old != 0:
                        displaced[old] = None
                if n in mirror:
                    a = mirror.pop(n); holder.pop(a, None); info.pop(a, None)
                mirror[n] = src; holder[src] = n
                info[src] = {'pi': None, 'ci': None, 'tx': None, 'rx': None, 'returned': False}
                if n in displaced:
                    at = displaced.pop(n)
                    info[src]['returned'] = at == src or at is None or not fresh
                fresh = False
            elif src in holder:
                e = info[src]
                if pgn == 126996:
                    w = want_prod(data)
                    if w is not None and e['pi'] is None:
                        e['pi'] = w
                elif pgn == 126998:
                    w = want_conf(data)
                    e['ci'] = w if w is not None else ANY
                elif pgn == 126464:
                    w = want_list(data)
                    if w is not None:
                        e['tx' if w[0] == 0 else 'rx'] = w[1]
            continue
        # ---- Q: check the dump against the mirror
        ents, byname, nent = parse_dump(out)
        if nent != len(ents):
            return 'protocol:dump not understood (%d entries, %d parsed)' % (nent, len(ents))
        seen = {}
        for s, en in ents.items():
            if en['name'] != 0:
                if en['name'] in seen:
                    return 'dup-name:NAME %x has entries at sources %d and %d (operation %d)' % (en['name'], seen[en['name']], s, k)
                seen[en['name']] = s
        for n, a in mirror.items():
            if n == 0:
                continue
            en = ents.get(a)
            if en is None or en['name'] != n:
                return 'lookup-source:NAME %x claimed address %d last and was not displaced, looking up address %d gives %s (operation %d)' % (
                    n, a, a, 'nothing' if en is None else 'NAME %x' % en['name'], k)
            if byname.get(n) != a or en['src'] != a:
                return 'lookup-name:NAME %x claimed address %d last and was not displaced, looking it up by NAME gives %s, its GetSource() %d (operation %d)' % (n, a, byname.get(n), en['src'], k)
            e = info[a]
            if e['pi'] is not None:
                w, g = e['pi'], en['pi']
                bad = [i for i in range(8) if w[i] != g[i] and not ((i == 0 and w[0] == 0xffff) or (i in (6, 7) and w[i] == 0xff))]
                if bad and e['returned']:
                    return 'parked-device:device %x was displaced, kept by the list in slot %d, and then claimed address %d: first product information after that claim was %s, reported %s (operation %d)' % (n, a, a, w, g, k)
                if bad:
                    return 'prodinfo:device %x at %d: first product information after its claim was %s, reported %s (operation %d)' % (n, a, w, g, k)
            if e['ci'] is not None and e['ci'] != ANY:
                w, g = e['ci'], tuple(x or b'' for x in en['ci'])
                if w != g:
                    return 'confinfo:device %x at %d: latest configuration information (man, desc1, desc2) was %s, reported %s (operation %d)' % (n, a, w, en['ci'], k)
            for f in ('tx', 'rx'):
                if e[f] is not None and e[f] != ANY and e[f] != (en[f] or []):
                    return 'pgnlist:device %x at %d: latest %s PGN list was %s, reported %s (operation %d)' % (n, a, f, e[f][:8], (en[f] or [])[:8], k)
        for n in displaced:
            at = [s for s, en in ents.items() if en['name'] == n]
            displaced[n] = at[0] if at else -1
        fresh = True
        view = sorted((s, en['name'], en['pi'], tuple(x or b'' for x in en['ci']), tuple(en['tx'] or []), tuple(en['rx'] or [])) for s, en in ents.items() if en['name'] != 0)
        if prev_view is not None and view != prev_view and not any(flags_since):
            return 'updated-flag:what the list reports changed between two dumps (before operation %d) and no message in between raised the list-updated indication' % k
        prev_view = view
        flags_since = []
    return None


def nontrivial(case, mres):
    return (' 60928 ' in case or case.startswith('DLS ')) and mres != 'badcase'


def known(case, what):
    key = what.split(':')[0]
    for k in vlib.known_findings('C18'):
        if key == k['key']:
            return k['line']
    if key in PENDING_KNOWN:
        return '%s (pending entry of known_findings.json)' % PENDING_DESCR.get(key, key)
    return None


def check(run, replay=None):
    cases = vlib.read_replay(replay) if replay else vlib.corpus_lines('C18') + gen(run.seed, run.tier)
    run.cov['rule'] = ('cases = committed corpus + hand written boundary histories (NAME 0 claims on placeholders, move/takeover/re-claim/return, parked devices, first product '
                       'information rule, configuration information repeated with other sizes, PGN lists of 0..74 entries, sources 251..255) + request pacing from 16 clock origins '
                       '(0, 2^31 +- k, 2^32 - k) + metamorphic family: the D-20 witness, a NAME request history and pacing walks (1-4 devices, steps around 1000 ms and 60 s, claims, arriving '
                       'information, send failures) each run from 11 clock origins (5000, 0, 2^31 -+ k, 2^32 - k for k = 1, 500, duration) and compared on the request log relative to the origin '
                       '+ random walks over small universes of sources and NAMEs with a dump after every message + long histories over up to 13 sources with '
                       'payload filling strings + all 254 slots claimed followed by takeovers + up to 252 unknown sources; messages: claims (8 bytes, shorter, longer), 126996 (valid, over-long, '
                       'truncated; drawn from a pool of 2-3 payloads per history so that identical product information is repeated after claims), 126998 (ASCII / UCS-2 incl. strings of 3-byte-UTF-8 characters up to the whole payload (UTF-8 form up to 324 bytes) / empty / malformed / truncated / payload filling), 126464 (0..74 PGNs, both kinds, other kinds, stray bytes), other PGNs; send failures; '
                       'non-trivial = distinct history containing at least one address claim')
    run.assumptions += ['the 32-bit clock value is an input of every message; the harness runs the 64-bit clock at 2^32 + t0 (the device list reads only N2kMillis())',
                        'SendMsg() of the attached node is abstracted to one success flag per handled message (harness: node switched to listen-only for the message)',
                        'malloc never fails; product information strings are modelled by their result (C string of the 33-byte field), not byte by byte']
    vlib.correspond(run, 'devlist', 'h_devlist', 'w64', 'C18', cases, oracle, nontrivial, known=known)
