# C12 - heartbeats (PGN 126993) are sent on schedule with a correct interval field and sequence: scenario generator (virtual clock,
# interval/offset changes, jittered polling, long gaps, clock origins around 2^31/2^32), an abstract per-device scheduler as oracle
# (written from the property text, independent of the Coq model), correspondence with the shared node model in both scheduler builds.
import random
import vlib
from nodesim import parse_case, parse_result

HB_PGN = 126993
DEF_PERIOD, DEF_OFFSET = 60000, 10000          # "default 60 s", library start offset 10 s
MIN_PERIOD, MAX_PERIOD = 1000, 655320          # "the application may set 1 s to 655.32 s"
KEEP, RESTORE = 0xffffffff, 0xfffffffe         # special values of the setter: no change / restore default
CLAIM_MS = 250                                 # a device that (re)started its address claim is silent for 250 ms
M32 = 1 << 32
ACTIVE_MODES = (1, 2)                          # NodeOnly, ListenAndNode

# The C++ keeps a device disabled (interval 0) when it is re-enabled with exactly the period/offset it had before the disable.  The
# oracle below states the property (a re-enabled device sends again) and reports that behaviour under the key `reenable-stays-off`;
# the generator produces the pattern only when this switch is on.
GEN_REENABLE_SAME = True
# confirmed defects that are not repaired (yet): key -> line printed as KNOWN-FINDING.  (`reenable-stays-off` was repaired in /repo 9a9419c:
# the pattern is generated and must pass; Coq: Spec/HbSpec.v hb_reenable_stmt.)
PENDING_KNOWN = {}


# ---------------------------------------------------------------------------------------------------------------------------------
# the configured values, as the property describes the setter (shared by generator and oracle; plain arithmetic, no scheduling)
def resolve(iv, off, cur_period, cur_offset):
    """-> (period or 0 = disable, offset) for one device; special values resolved against this device's own current values"""
    p = cur_period if iv == KEEP else DEF_PERIOD if iv == RESTORE else iv
    o = cur_offset if off == KEEP else off
    if p == 0:
        return 0, cur_offset
    return max(MIN_PERIOD, min(MAX_PERIOD, p)), o


def targets(idev, ndev):
    if idev is None or idev < 0:
        return range(ndev)
    return range(idev, idev + 1) if idev < ndev else range(0)


def first_grid_after(sync, offset, period, t):
    """first point of the grid sync+offset+k*period (k>=0) that is strictly later than t"""
    base = sync + offset
    if base > t:
        return base
    return base + ((t - base) // period + 1) * period


# ---------------------------------------------------------------------------------------------------------------------------------
# generator
INTERVALS = [1, 999, 1000, 1001, 2500, 10000, 60000, 65530, 65535, 65536, 65540, 100000, 655310, 655320, 655321, 655330, 1000000, 4294967293]
SPECIALS = [KEEP, RESTORE, 0]
OFFSETS = [0, 10, 999, 10000, 65535, 100000, KEEP]
ORIGINS = [4294966000, 4294967200, M32 - 1, M32, M32 + 5, M32 + 799, (1 << 31) - 700, (1 << 31), (1 << 31) + 800, 5000, 1000, 70000, 10 ** 12]
WRAP_ORIGINS = set(ORIGINS[:9])
GAP_MAX = 4200000000           # between two readings of the 64-bit clock (a 32-bit millisecond counter cannot represent >= 2^32)
T_MAX = (1 << 40) - 10 ** 6    # total virtual time


class Scenario:
    """builds the op list of one case and mirrors the configured values so that gaps can be aimed at the schedule"""

    def __init__(self, r, ndev, mode, src, t0, cold):
        self.r, self.ndev, self.mode, self.src, self.t0, self.cold = r, ndev, mode, src, t0, cold
        self.ops = []
        self.t = t0
        self.last_read = t0
        self.pend_until = None                     # a claim may be pending until a poll later than this time
        self.cfg = [[0, 0, False] for _ in range(ndev)]   # period, offset, enabled
        self.sync = None
        if not cold:
            self.opened(t0 - 800)

    def opened(self, sync):
        self.sync = sync
        self.cfg = [[DEF_PERIOD, DEF_OFFSET, True] for _ in range(self.ndev)]

    def T(self, dt):
        if self.pend_until is not None:
            dt = min(dt, 100000)
        dt = max(0, min(dt, GAP_MAX - (self.t - self.last_read), T_MAX - self.t))
        self.ops.append('T %d' % dt)
        self.t += dt

    def P(self):
        self.ops.append('P')
        if self.pend_until is not None and self.t > self.pend_until:
            self.pend_until = None
        if self.pend_until is None:
            self.last_read = self.t

    def TP(self, dt):
        self.T(dt)
        self.P()

    def C(self, idev):
        self.ops.append('C %d' % idev)
        self.pend_until = self.t + CLAIM_MS + 1

    def X(self):
        # Restart(): every device claims its address again; the heartbeat schedule stays where it is
        self.ops.append('X')
        self.pend_until = self.t + CLAIM_MS + 1

    def H(self, iv, off, idev=None):
        if iv == KEEP and off == 0xffff:
            self.ops.append('H %d %d' % (iv, off) + ('' if idev is None else ' %d' % idev))
            return
        if self.sync is not None and not GEN_REENABLE_SAME:
            # avoid re-enabling a disabled device with exactly its stored values
            for _try in range(4):
                if any((not self.cfg[i][2]) and resolve(iv, off, self.cfg[i][0], self.cfg[i][1]) == (self.cfg[i][0], self.cfg[i][1]) for i in targets(idev, self.ndev)):
                    off = self.r.choice([1, 7, 500, 12345, 99999]) + _try
                else:
                    break
        if self.sync is None:
            # before Open(): Open() installs the defaults; stay away from stored values equal to the defaults (they would not be re-installed)
            if off in (DEF_OFFSET, KEEP):
                off = 7
        if off == KEEP and self.r.random() < 0.5:
            # the deprecated alias SetHeartbeatInterval(interval, SetAsDefault, iDev) = "this interval, offset unchanged" (seed C12-12)
            self.ops.append('Q hi %d %d' % (iv, -1 if idev is None else idev))
        elif off == 0 and idev is None and self.r.random() < 0.6:
            self.ops.append('H %d' % iv)        # the one-argument call: the header's default offset (0) and device (all) - seed C12-16
        else:
            self.ops.append('H %d %d' % (iv, off) + ('' if idev is None else ' %d' % idev))
        for i in targets(idev, self.ndev):
            p, o = resolve(iv, off, self.cfg[i][0], self.cfg[i][1])
            if p == 0:
                self.cfg[i][2] = False
            else:
                self.cfg[i] = [p, o, True]

    def period(self, i=None):
        i = self.r.randrange(self.ndev) if i is None else i
        return self.cfg[i][0] or DEF_PERIOD

    def line(self):
        return 'NODE mode=%d ndev=%d src=%d q=40 t0=%d hb=1%s%s | %s' % (self.mode, self.ndev, self.src, self.t0, ' cold=1' if self.cold else '',
                                                                          ' onopen=%d,%d' % self.onopen if getattr(self, 'onopen', None) else '', ' ; '.join(self.ops))


def pick_interval(r):
    x = r.random()
    if x < 0.55:
        return r.choice(INTERVALS)
    if x < 0.75:
        return r.choice(SPECIALS)
    if x < 0.9:
        return r.choice([r.randint(1000, 5000), r.randint(1000, 70000), r.randint(65000, 66000), r.randint(1000, 655320), r.randint(655000, 656000)])
    return r.choice([r.randint(0, 1100), r.randint(655321, 10 ** 7), r.getrandbits(32)])


def pick_offset(r):
    x = r.random()
    if x < 0.6:
        return r.choice(OFFSETS)
    if x < 0.9:
        return r.choice([r.randint(0, 1000), r.randint(0, 70000), r.randint(0, 700000)])
    return r.choice([r.getrandbits(32), 0xffff, 4294967294, 3000000000])


def pick_gap(r, per):
    return r.choice([0, 1, r.randint(2, 50), r.randint(1, per), per - 1, per, per + 1, per // 2, per // 3 + 1, 2 * per + r.randint(-1, 1),
                     r.randint(2, 6) * per + r.randint(0, per), r.randint(1, 2 * per)])


def cold_prefix(r, s, with_h):
    """poll until the node has opened (both builds), optionally calling the setter before Open()"""
    if with_h and r.random() < 0.7:
        # incl. exactly the default values (60000 / 10000, RESTORE): Open()'s own call does not regard them as a change, the schedule must still
        # start 10 s after Open()
        s.H(r.choice([1, 1000, 2500, 65536, 655321, KEEP, RESTORE, 0, 60000, 60000, RESTORE]), r.choice([0, 10, 999, 65535, KEEP, 10000, 10000]), None if r.random() < 0.7 else r.randrange(s.ndev))
    if r.random() < 0.7:
        s.P()
        elapsed = 0
        while elapsed < 720:
            dt = r.choice([0, 1, 1, 2, 50, 100, 199, 200, 201, 249, 250])
            s.T(dt)
            elapsed += dt
            s.P()
            if with_h and r.random() < 0.04 and elapsed < 150:
                s.H(r.choice([5000, KEEP, 0, 60000]), r.choice([0, 10, 999]))
    else:
        big = r.choice([1000, 60000, 10 ** 7, r.randint(300, 10 ** 6)])
        s.P(); s.T(big); s.P(); s.T(r.choice([big, 201, 250])); s.P(); s.T(r.choice([1, 201, big])); s.P()
    s.opened(s.t0 + 202)               # about; the oracle takes the open time from the trace
    if getattr(s, 'onopen', None):
        s.cfg = [[s.onopen[0], s.onopen[1], True] for _ in range(s.ndev)]
    s.pend_until = s.t + CLAIM_MS + 1
    s.last_read = s.t


def ep_change(r, s):
    iv, off = pick_interval(r), pick_offset(r)
    x = r.random()
    idev = None if x < 0.6 else r.randrange(s.ndev) if x < 0.95 else r.choice([-1, s.ndev, s.ndev + 2])
    if r.random() < 0.04:
        iv, off = KEEP, 0xffff                 # the complete no-op
    s.H(iv, off, idev)
    per = s.period(idev if idev is not None and 0 <= idev < s.ndev else None)
    for _ in range(r.randint(1, 4)):
        s.TP(pick_gap(r, per))


def ep_polls(r, s):
    per = s.period()
    for _ in range(r.randint(2, 6)):
        s.TP(pick_gap(r, per))


def ep_aligned(r, s):
    """walk the poll times across a grid point of one device, 1 ms apart (the scheduler fires strictly after the grid point)"""
    i = r.randrange(s.ndev)
    per, off, _en = s.cfg[i]
    if not per:
        return ep_polls(r, s)
    g = first_grid_after(s.sync, off, per, s.t) + r.choice([0, 0, 1, 2]) * per
    s.TP(max(0, g - 2 - s.t))
    for _ in range(r.randint(3, 6)):
        s.TP(1)
    if r.random() < 0.5:
        s.TP(per - r.choice([0, 1, 2, 3, 4, 5]))
        s.TP(r.choice([0, 1, 2, 3]))


def ep_long(r, s, huge):
    if huge:
        dt = r.choice([(1 << 31) - 1, 1 << 31, (1 << 31) + 1, 3 * 10 ** 9, 4 * 10 ** 9, GAP_MAX, r.randint(10 ** 9, 4 * 10 ** 9)])
    else:
        dt = r.choice([10 ** 7, 10 ** 6, 655321, 3600000, 86400000, r.randint(10 ** 5, 10 ** 8)])
    s.TP(dt)
    s.TP(pick_gap(r, s.period()))


def ep_claim(r, s):
    """StartAddressClaim of a device, preferably while one of its heartbeats becomes due"""
    i = r.randrange(s.ndev)
    per, off, en = s.cfg[i]
    if per and en and r.random() < 0.7:
        g = first_grid_after(s.sync, off, per, s.t)
        s.T(max(0, g - r.choice([0, 1, 5, 100, 240, 251, 300]) - s.t))
        if r.random() < 0.3:
            s.P()
    if r.random() < 0.3:
        s.X()                    # the application's Restart() instead of one device's claim (seed C12-22)
    else:
        s.C(i)
    for _ in range(r.randint(1, 5)):
        s.TP(r.choice([0, 1, 5, 50, 100, 124, 125, 126, 200, 248, 249, 250, 251, 252, 300]))
    s.TP(r.choice([260, 300, 1000, per or 1000]))
    if per and en and r.random() < 0.5:
        for _ in range(3):
            s.TP(per)            # ... and the schedule afterwards: the same grid as before


def ep_disable(r, s):
    idev = None if r.random() < 0.6 else r.randrange(s.ndev)
    s.H(0, r.choice([0, 10, KEEP, 5000]), idev)
    per = s.period()
    for _ in range(r.randint(1, 3)):
        s.TP(r.choice([per, 2 * per + 1, 10 * per, 1]))
    if r.random() < 0.8:
        s.H(pick_interval(r) or 1000, pick_offset(r), idev if r.random() < 0.7 else None)
        for _ in range(r.randint(1, 3)):
            s.TP(pick_gap(r, s.period()))


def ep_forced(r, s):
    """the application's own heartbeat calls between polls: forced for all devices, forced for one device, the unforced call"""
    for _ in range(r.randint(1, 4)):
        s.T(r.choice([0, 1, 500, s.period() // 2, s.period() - 1, s.period() + 1]))
        if all(c[2] for c in s.cfg) and s.sync is not None:
            s.ops.append(r.choice(['Q hb 1', 'Q hb 1', 'Q hd %d' % r.randrange(-1, s.ndev + 1), 'Q hb 0']))
            if s.ops[-1] == 'Q hb 0' and s.pend_until is None:
                s.last_read = s.t
        s.TP(r.choice([0, 1, 1000, s.period()]))


def ep_busy(r, s):
    """a busy bus: 20 or more frames of other stations wait at every poll (ParseMessages reads at most 20 of them per call); the heartbeat
    schedule must not suffer (seed C12-14)"""
    for _ in range(r.randint(3, 8)):
        s.T(r.choice([s.period() // 3, s.period() // 2, s.period() - 1, s.period() + 1, 1000]))
        for _k in range(r.choice([19, 20, 21, 25, 40])):
            s.ops.append('R %x 8 %s' % (r.choice([0x09f11232, 0x0df80533, 0x15fd0734]), bytes(r.randrange(256) for _ in range(8)).hex()))
        s.P()


def ep_mixed(r, s):
    """devices with different values, then the setter for all devices with "keep": every device keeps its own"""
    if s.ndev < 2:
        return ep_change(r, s)
    i = r.randrange(s.ndev)
    s.H(r.choice([1000, 2500, 10000, 65536, 655320, r.randint(1000, 20000)]), r.choice([0, 10, 999, 5000, r.randint(0, 70000)]), i)
    if r.random() < 0.5:
        s.TP(pick_gap(r, s.period(i)))
    x = r.random()
    if x < 0.4:
        s.H(KEEP, pick_offset(r))
    elif x < 0.8:
        s.H(pick_interval(r) or RESTORE, KEEP)
    else:
        s.H(KEEP, KEEP)
    for _ in range(r.randint(2, 4)):
        s.TP(pick_gap(r, s.period(r.choice([i, None]))))


def scenario(r, ndev=None, mode=None, cold=None, t0=None, n_eps=None, huge=False):
    ndev = r.choice([1, 1, 2, 2, 3, 4, 5, 6, 7, 8, 9]) if ndev is None else ndev
    mode = r.choice([1, 1, 1, 1, 2, 2, 2, 0, 3, 4]) if mode is None else mode
    cold = (r.random() < 0.3) if cold is None else cold
    t0 = r.choice(ORIGINS) if t0 is None else t0
    src = r.choice([0, 22, 100, 240 - ndev, 252 - ndev])
    s = Scenario(r, ndev, mode, src, t0, cold)
    if cold:
        if r.random() < 0.35:
            # the application configures the heartbeat from its OnOpen callback: Open() calls it last, after installing its own defaults
            s.onopen = r.choice([(5000, 1000), (7000, 0), (1000, 10), (65536, 999), (2500, KEEP), (4000, 0)])
        cold_prefix(r, s, with_h=r.random() < 0.5)
    elif r.random() < 0.3:
        s.P()
    n_eps = r.randint(3, 9) if n_eps is None else n_eps
    for _ in range(n_eps):
        if len(s.ops) > 90:
            break
        x = r.random()
        if x < 0.27:
            ep_change(r, s)
        elif x < 0.34:
            ep_mixed(r, s)
        elif x < 0.41:
            ep_forced(r, s)
        elif x < 0.45:
            ep_busy(r, s)
        elif x < 0.52:
            ep_polls(r, s)
        elif x < 0.70:
            ep_aligned(r, s)
        elif x < 0.80:
            ep_long(r, s, huge and r.random() < 0.6)
        elif x < 0.91:
            ep_claim(r, s)
        else:
            ep_disable(r, s)
    if s.ops[-1] != 'P':
        s.P()
    return s.line()


def wrap_case(r, ndev, t0, n, cold=False, single=None, mode=1):
    """1 s interval and > 253 polls about one period apart: the sequence counter runs through 252 -> 0"""
    s = Scenario(r, ndev, mode, r.choice([0, 22, 100]), t0, cold)
    if cold:
        cold_prefix(r, s, False)
        s.TP(300)
    s.H(r.choice([1000, 1, 999]), r.choice([0, 10, 999]), single)
    for k in range(n):
        x = r.random()
        s.TP(r.randint(1000, 1500) if x < 0.9 else r.choice([1000, 1001, 2000, 2500, 999]))
        if k == n // 2 and r.random() < 0.5:
            s.H(KEEP, KEEP)            # changes nothing: the schedule and the sequence go on
    return s.line()


def gen(seed, tier):
    thorough = tier != 'quick'
    cases = []
    rounds = 1 if not thorough else 10
    for rd in range(rounds):
        r = random.Random(seed * 1000003 + 12 + 7919 * rd)
        # every device count x every mode, cold and opened; every clock origin in both start kinds
        for ndev in range(1, 10):
            for mode in range(5):
                cases.append(scenario(r, ndev=ndev, mode=mode, cold=(ndev + mode) % 3 == 0, n_eps=r.randint(2, 5)))
        for t0 in ORIGINS:
            for cold in (False, True):
                cases.append(scenario(r, mode=r.choice([1, 2]), cold=cold, t0=t0))
        for _ in range(420):
            cases.append(scenario(r))
        for _ in range(30):
            cases.append(scenario(r, ndev=r.choice([1, 2, 3]), mode=r.choice([1, 2]), huge=True))
        # sequence wrap
        cases.append(wrap_case(r, 1, r.choice([5000, 70000]), 300))
        cases.append(wrap_case(r, 2, r.choice([4294966000, M32 - 1, 4294967200]), 270, single=1))
        cases.append(wrap_case(r, 1, r.choice([(1 << 31) - 700, 10 ** 12, M32 + 5]), 262, cold=True, mode=2))
        if thorough:
            cases.append(wrap_case(r, r.choice([3, 9]), r.choice(ORIGINS), 520))
    return cases


# ---------------------------------------------------------------------------------------------------------------------------------
# oracle: one abstract scheduler per device, driven by the same operations and the virtual clock
class _Dev:
    __slots__ = ('period', 'offset', 'due', 'seq', 'claim', 'known', 'was_off_same')

    def __init__(self):
        self.period, self.offset = 0, 0
        self.due = None            # next grid point; None = heartbeat disabled
        self.seq = 0
        self.claim = None          # time at which the pending address claim ends
        self.known = True          # False: the schedule origin is not determined by the case (setter called with the defaults before Open())
        self.was_off_same = False  # re-enabled with the values it had when it was disabled


def _is_hb(e):
    return e[0] == 'tx' and ((e[1] >> 8) & 0x1ffff) == HB_PGN


def _judge(cfg, ops, per_op, sync0, sent_later):
    """-> None | (op index, 'key:details').  sync0: open time of a node that was opened by the prelude (None for cold starts)"""
    ndev, src0, mode, t0 = cfg['ndev'], cfg['src'], cfg['mode'], cfg['t0']
    active = mode in ACTIVE_MODES
    devs = [_Dev() for _ in range(ndev)]
    t = t0
    sync = None
    # scope of the schedule rules: clock, polls, setter, claim restarts, and the application's own heartbeat calls (SendHeartbeat)
    def bystander(o):
        # a received frame that is no business of the library's own handlers (not an ISO request / claim / TP / commanded address / group function)
        if o[0] != 'R' or len(o) < 4:
            return False
        cid = int(o[1], 16)
        pf = (cid >> 16) & 0xff
        pgn = (cid >> 8) & 0x3ff00 if pf < 240 else (cid >> 8) & 0x3ffff
        return pgn not in (59392, 59904, 60928, 60160, 60416, 65240, 126208)
    full = all((not o) or o[0] in ('T', 'P', 'H', 'C', 'X') or (o[0] == 'Q' and len(o) >= 3 and o[1] in ('hb', 'hd')) or bystander(o) for o in ops)
    last_poll = None

    def do_open(ts):
        for d in devs:
            if (d.period, d.offset) == (DEF_PERIOD, DEF_OFFSET):
                d.known = False            # Open() finds its defaults already stored: nothing is (re)scheduled
            else:
                d.period, d.offset, d.known = DEF_PERIOD, DEF_OFFSET, True
                d.due = first_grid_after(ts, DEF_OFFSET, DEF_PERIOD, ts)
            if active:
                d.claim = ts + CLAIM_MS

    def apply_H(iv, off, idev):
        if iv == KEEP and off == 0xffff:
            return
        for i in targets(idev, ndev):
            d = devs[i]
            p, off1 = resolve(iv, off, d.period, d.offset)
            if p == 0:
                d.due, d.known = None, True
                d.was_off_same = False
            elif sync is None:
                d.period, d.offset, d.due = p, off1, None       # before Open(): values are stored, Open() installs the defaults
            elif (p, off1) != (d.period, d.offset) or (d.known and d.due is None):
                d.was_off_same = (d.due is None and (p, off1) == (d.period, d.offset))
                d.period, d.offset, d.known = p, off1, True
                d.due = first_grid_after(sync, off1, p, t)

    if sync0 is not None:
        sync = sync0
        do_open(sync0)
        for d in devs:
            d.claim = None                 # the prelude runs until every claim has finished

    for k, (o, evs) in enumerate(zip(ops, per_op)):
        hbs = [e for e in evs if _is_hb(e)]
        opened_now = any(e[0] == 'note' and e[1:2] == ('open',) for e in evs)
        name = o[0] if o else ''
        if name == 'T':
            t += int(o[1])
        if opened_now and sync is None:
            sync = t
            do_open(t)
            if cfg.get('onopen'):
                # the application's OnOpen callback configures the heartbeat: it runs last in Open(), so its values stand (seeds C12-19, C13-19)
                apply_H(int(cfg['onopen'][0]) & 0xffffffff, int(cfg['onopen'][1]) & 0xffffffff, None)
        # ---- every heartbeat frame, whatever produced it
        by_dev = {}
        for e in hbs:
            cid, ln, data = e[1], e[2], e[3]
            src = cid & 0xff
            if not active:
                return k, 'inactive-sent:op %d: heartbeat %x from a node in mode %d, which is not an active bus device' % (k, cid, mode)
            if sync is None:
                return k, 'inactive-sent:op %d: heartbeat %x before the node has opened' % (k, cid)
            if (cid >> 26) != 7:
                return k, 'priority:op %d: heartbeat %x has priority %d, not 7' % (k, cid, cid >> 26)
            if cid != (7 << 26 | HB_PGN << 8 | src):
                return k, 'dest:op %d: identifier %x is not priority 7 / PGN 126993 (global) / source' % (k, cid)
            if not (src0 <= src < src0 + ndev):
                return k, 'source:op %d: heartbeat from address %d, the devices are %d..%d' % (k, src, src0, src0 + ndev - 1)
            if ln != 8 or len(data) != 8 or data[3:] != [0xff] * 5:
                return k, 'payload:op %d: heartbeat data %s (length %d) is not interval(2) sequence(1) ff ff ff ff ff' % (k, bytes(data).hex(), ln)
            by_dev.setdefault(src - src0, []).append(e)
        forced = name == 'Q' and len(o) >= 3 and (o[1] == 'hd' or (o[1] == 'hb' and o[2] == '1'))
        if name == 'Q' and len(o) >= 3 and o[1] == 'hb' and o[2] == '0':
            name = 'P'        # SendHeartbeat() without force is the heartbeat part of a poll: the same schedule rules
        if forced and full and sync is not None and active:
            # SendHeartbeat(true) / SendHeartbeat(iDev): every addressed device outside its claim window sends one heartbeat NOW with the
            # sequence value 0xff (the counter does not move) and its configured interval; SendHeartbeat(true) also moves on to the next
            # grid point (a heartbeat that was due is replaced by the forced one)
            tg = list(range(ndev)) if o[1] == 'hb' else ([int(o[2])] if 0 <= int(o[2]) < ndev else [])
            for i in range(ndev):
                d = devs[i]
                got = by_dev.get(i, [])
                if i not in tg:
                    if got:
                        return k, 'forced:op %d: device %d sent a heartbeat, the call addressed %s' % (k, i, tg)
                    continue
                if d.claim is not None and (t == d.claim or t - d.claim >= (1 << 31) - 1):
                    full = False           # boundary millisecond of the claim window: both readings allowed, stop judging the schedule
                    break
                claiming = d.claim is not None and t < d.claim
                if d.claim is not None and not claiming:
                    d.claim = None
                if claiming:
                    if got:
                        return k, 'claiming-sent:op %d t=%d: device %d sent a forced heartbeat inside its claim window' % (k, t, i)
                    continue
                if d.due is None or not d.known:
                    full = False           # forcing a disabled / not yet scheduled heartbeat: outside the property text
                    break
                if len(got) != 1:
                    return k, 'forced:op %d t=%d: device %d sent %d heartbeat(s) on a forced call, expected one' % (k, t, i, len(got))
                data = got[0][3]
                if (data[0] | data[1] << 8) != d.period // 10:
                    return k, 'interval-field:op %d: device %d states %d (x10 ms) in a forced heartbeat, configured interval %d ms' % (k, i, data[0] | data[1] << 8, d.period)
                if data[2] != 0xff:
                    return k, 'sequence:op %d: device %d sent sequence %d in a forced heartbeat, expected 255' % (k, i, data[2])
                if o[1] == 'hb':
                    d.due = first_grid_after(sync, d.offset, d.period, t)
            continue
        if name != 'P':
            if hbs and full:
                return k, 'schedule-early:op %d (%s) is not a poll but sent heartbeat(s)' % (k, ' '.join(o))
        if name == 'X' and sync is not None and active:
            for d in devs:
                d.claim = t + CLAIM_MS
        if name == 'C' and sync is not None and active and len(o) > 1:
            i = int(o[1])
            if 0 <= i < ndev:
                devs[i].claim = t + CLAIM_MS
        elif name == 'H' and len(o) >= 2:
            iv, off = int(o[1]) & 0xffffffff, (int(o[2]) & 0xffffffff if len(o) > 2 else 0)      # documented default offset: 0
            idev = int(o[3]) if len(o) > 3 else None
            apply_H(iv, off, idev)
        # ---- what a poll must do
        if name == 'P':
            if last_poll is not None and t - last_poll >= M32:
                full = False               # premise: no two polls are 2^32 ms or more apart (a 32-bit millisecond clock cannot tell)
            last_poll = t
        if name == 'P' or not full:
            for i in range(ndev):
                d = devs[i]
                got = by_dev.get(i, [])
                if len(got) > 1:
                    return k, 'schedule-early:op %d: device %d sent %d heartbeats in one poll' % (k, i, len(got))
                if not full:
                    # reduced judgement: format (above), interval range and consecutive sequence numbers
                    for e in got:
                        fld = e[3][0] | e[3][1] << 8
                        if forced and e[3][2] == 0xff:
                            continue       # a heartbeat on demand: sequence value 255, the counter does not move
                        if not (MIN_PERIOD // 10 <= fld <= MAX_PERIOD // 10):
                            return k, 'interval-field:op %d: device %d states %d (x10 ms), outside 1 s..655.32 s' % (k, i, fld)
                        if e[3][2] != d.seq:
                            return k, 'sequence:op %d: device %d sent sequence %d, expected %d' % (k, i, e[3][2], d.seq)
                        d.seq = (d.seq + 1) % 253
                    continue
                if sync is None or not active:
                    continue               # any frame was reported above
                claiming = False
                if d.claim is not None:
                    if t < d.claim:
                        claiming = True
                    elif t == d.claim or t - d.claim >= (1 << 31) - 1:
                        claiming = not got  # the boundary millisecond (and a claim timer older than 2^31 ms): both readings are allowed
                    if not claiming:
                        d.claim = None
                if claiming:
                    if got:
                        return k, 'claiming-sent:op %d t=%d: device %d sent a heartbeat %d ms after its address claim started (silent for %d ms)' % (k, t, i, t - (d.claim - CLAIM_MS), CLAIM_MS)
                    continue
                if not d.known:
                    if got:
                        fld = got[0][3][0] | got[0][3][1] << 8
                        if fld != d.period // 10:
                            return k, 'interval-field:op %d: device %d states %d, configured %d ms' % (k, i, fld, d.period)
                        if got[0][3][2] != d.seq:
                            return k, 'sequence:op %d: device %d sent sequence %d, expected %d' % (k, i, got[0][3][2], d.seq)
                        d.seq = (d.seq + 1) % 253
                    continue
                must = d.due is not None and t > d.due
                if got and not must:
                    if d.due is None:
                        return k, 'disabled-sent:op %d t=%d: device %d sent a heartbeat although its heartbeat is disabled (interval 0)' % (k, t, i)
                    return k, 'schedule-early:op %d t=%d: device %d sent a heartbeat, next grid point is %d (open %d + offset %d + n x %d)' % (k, t, i, d.due, sync, d.offset, d.period)
                if must and not got:
                    if d.was_off_same:
                        return k, 'reenable-stays-off:op %d t=%d: device %d was disabled (interval 0) and re-enabled with period %d offset %d, due %d, but stays silent' % (k, t, i, d.period, d.offset, d.due)
                    key = 'schedule-late' if sent_later(k, i) else 'schedule-missing'
                    return k, '%s:op %d t=%d: device %d did not send the heartbeat due at %d (open %d + offset %d + n x %d)' % (key, k, t, i, d.due, sync, d.offset, d.period)
                if got:
                    data = got[0][3]
                    fld = data[0] | data[1] << 8
                    if fld != d.period // 10:
                        return k, 'interval-field:op %d: device %d states %d (x10 ms), configured interval %d ms' % (k, i, fld, d.period)
                    if data[2] != d.seq:
                        return k, 'sequence:op %d: device %d sent sequence %d, expected %d' % (k, i, data[2], d.seq)
                    d.seq = (d.seq + 1) % 253
                    d.was_off_same = False
                    d.due = first_grid_after(sync, d.offset, d.period, t)
    return None


def _oracle(case, res, sync_deltas):
    if res.startswith('crash'):
        return 'memory:' + res
    if res.startswith('bad'):
        return None
    cfg, ops = parse_case(case)
    per_op, _state = parse_result(res)
    if len(per_op) != len(ops):
        return 'format:%d operations, %d result groups' % (len(ops), len(per_op))
    cfg.setdefault('t0', 0)
    # the deprecated alias is the setter with "offset unchanged"
    ops = [(['H', o[2], str(KEEP)] + ([o[3]] if len(o) > 3 and o[3] != '-1' else [])) if (len(o) >= 3 and o[0] == 'Q' and o[1] == 'hi') else o for o in ops]

    def sent_later(k, i):
        return any(_is_hb(e) and (e[1] & 0xff) == cfg['src'] + i for evs in per_op[k + 1:] for e in evs)

    if cfg.get('cold', 0) == 1:
        v = _judge(cfg, ops, per_op, None, sent_later)
        return v[1] if v else None
    # opened by the prelude: it starts 1000 ms before t0, the node opens about 200 ms later; the exact millisecond is not visible in
    # the trace, so every candidate is tried and one of them has to explain the whole run
    best = None
    for dl in sync_deltas:
        v = _judge(cfg, ops, per_op, cfg['t0'] - dl, sent_later)
        if v is None:
            return None
        if best is None or v[0] > best[0]:
            best = v
    return best[1]


def oracle(case, res):
    return _oracle(case, res, (800, 799, 798))


def oracle_for(fs):
    """the prelude's open time per build: the 64-bit scheduler fires when now > t (t0-798), the 32-bit one when now >= t (t0-800, or
    t0-799 when the open timer lands on its 'disabled' value and is moved by one)"""
    deltas = {'w64': (798,), 'w32': (800, 799)}.get(fs)
    if deltas is None:
        return None
    return lambda case, res: _oracle(case, res, deltas)


def known(case, what):
    key = what.split(':')[0]
    if key in PENDING_KNOWN:
        return PENDING_KNOWN[key]
    for k in vlib.known_findings('C12'):
        if what.startswith(k['key']):
            return k['line']
    return None


def check(run, replay=None):
    cases = vlib.read_replay(replay) if replay else vlib.corpus_lines('C12') + gen(run.seed, run.tier)
    run.cov['rule'] = ('per case one node with the heartbeat left on (hb=1): 1..9 devices x modes 0..4 (each combination at least once), cold starts polled through Open() and starts from an opened node, '
                       'clock origins 1000, 5000, 70000, around 2^31, 2^32-1296 .. 2^32+799, 10^12; operations: clock steps and polls (gaps 0, 1, period-1, period, period+1, fractions and multiples of the '
                       'period, 1 ms walks across grid points, 10^5..10^8 ms, a few up to 4.2*10^9 ms, always < 2^32 between polls), SetHeartbeatIntervalAndOffset for all devices / one device / '
                       'out-of-range index (incl. no-change for all devices after the devices were given different values) with intervals 1..4294967293 incl. 999/1000/1001, 65535/65536, 655320/655321, the special values 0xffffffff, 0xfffffffe, 0 and the complete no-op, '
                       'offsets 0..2^32-1 incl. keep, StartAddressClaim restarts while a heartbeat is due, disable/re-enable, the setter before Open(); 3 runs per round with a 1 s interval and '
                       '262..300 polls so that the sequence passes 252 -> 0.  Model and C++ (both scheduler builds) are compared on every frame and the final state incl. next time/period/offset/sequence; the '
                       'oracle is an abstract per-device scheduler (grid = open time + offset + n x period, fire at the first poll strictly after the grid point) that also checks priority, '
                       'identifier, payload, interval field = period/10 and the sequence 0..252.  non-trivial = distinct case')
    for fs in (() if (replay and any(l.startswith('# family: hb-gf-') or l.startswith('# family: hb-null-') for l in open(replay))) else ('w64', 'w32')):
        vlib.correspond(run, 'hb-' + fs, 'h_node', fs, 'NODE', cases, oracle_for(fs) or oracle, None, known=known, model_args=[fs])
    # a device that lost every address (null address 254) has no claimed address: it sends no heartbeat (seed C12-10).  Cases: the
    # address-exhaustion histories of the C04 development (252 lower-NAME claims, then the heartbeat comes due); the sibling devices go on
    nreplay = bool(replay) and any(l.startswith('# family: hb-null-') for l in open(replay))
    if nreplay or not replay:
        import c04_gen
        ncases = []
        if nreplay:
            ncases = cases
        else:
            c04_gen.gen_null(random.Random(run.seed * 7919 + 112), ncases, run.tier != 'quick')
            ncases = [c for c in ncases if ' hb=1' in c]

        def null_oracle(case, res):
            if res.startswith('crash'):
                return 'memory:' + res
            if res.startswith('bad'):
                return None
            per_op, _state = parse_result(res)
            for k, evs in enumerate(per_op):
                for e in evs:
                    if _is_hb(e) and (e[1] & 0xff) > 251:
                        return 'no-address-sent:op %d: heartbeat %x from source %d, which is not a claimed address' % (k, e[1], e[1] & 0xff)
            return None
        for fs in ('w64', 'w32'):
            vlib.correspond(run, 'hb-null-' + fs, 'h_node', fs, 'NODE', ncases, null_oracle, None, model_args=[fs])
        if nreplay:
            return
    # heartbeats forced by request group functions on multi-device nodes (each device with its own interval): cases and oracle of the C09
    # development, model with the library's group function handlers
    greplay = bool(replay) and any(l.startswith('# family: hb-gf-') for l in open(replay))
    if greplay or not replay:
        import p_C09
        gcases = cases if greplay else p_C09.hb_per_device_cases(random.Random(run.seed * 7919 + 12), run.tier != 'quick')
        for fs in ('w64', 'w32'):
            vlib.correspond(run, 'hb-gf-' + fs, 'h_node', fs, 'NODEGF', gcases, p_C09.oracle, p_C09.nontrivial, known=p_C09.known, model_args=[fs])
