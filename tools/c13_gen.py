# C13 - scenario scripts for the clock-origin metamorphic check.  A scenario is (name, case line with t0=5000); the op list after the
# `|` never depends on the origin, p_C13.with_origin only rewrites `t0=`.  Directed scenarios are written as timelines: a list of
# (relative time in ms, [ops]) that `timeline` turns into `T dt` steps, so that polls can be aimed 1 ms before / at / after every
# timeout of the library (open 0/200 ms, address claim 250 ms, ISO-TP 50/100 ms, pending information 187+src*8 / 187+src*10 ms,
# heartbeat offset 10 s / period, reassembly slot age 100 ms).
from nodesim import own_addr
import random
import nodegen as G

NAME0 = 0xc0328200ffc00001           # NAME of device 0 as configured by the harness; device i has NAME0 + i
PROBE = 'S %d 6 127250 0 255 0 0102030405060708'      # application send used as a probe: refused while the device is claiming


def timeline(evs):
    """[(t, [ops])] (t relative to the first op, non-decreasing after sorting) -> op list with `T dt` in between"""
    ops = []
    now = 0
    for t, o in sorted(evs, key=lambda e: e[0]):
        if t > now:
            ops.append('T %d' % (t - now))
            now = t
        ops += list(o)
    return ops


def cfg(mode=1, ndev=1, src=22, q=40, slots=5, cold=False, hb=False, extra=''):
    s = 'NODE mode=%d ndev=%d src=%d q=%d slots=%d t0=5000' % (mode, ndev, src, q, slots)
    if cold:
        s += ' cold=1'
    if hb:
        s += ' hb=1'
    return s + (' ' + extra if extra else '')


def case(c, ops):
    return c + ' | ' + ' ; '.join(ops)


def hexdata(r, n):
    return bytes(r.randrange(256) for _ in range(n)).hex()


def probes(ndev):
    return [PROBE % i for i in range(ndev)]


# ---------------------------------------------------------------------------------------------------------------------------
def cold_open_claim(r, mode, ndev, src, variant):
    """construction -> Open() (0 ms, 200 ms) -> address claim (250 ms), polled every ms around each expiry in both builds
    (the 64-bit scheduler fires 1 ms later than the 32-bit one, twice), with address claim contention"""
    ev = [(t, ['P']) for t in (0, 1, 2, 3, 198, 199, 200, 201, 202, 203, 204)]
    end = 450
    own = src                                   # contention on device 0's address
    if variant in ('lower-during', 'higher-during', 'equal-during'):
        nm = {'lower-during': NAME0 - 1, 'higher-during': NAME0 + 77, 'equal-during': NAME0}[variant]
        ev.append((300, [G.claim(own, nm), 'P']))
        ev += [(t, ['P'] + probes(ndev)) for t in (448, 449, 450, 451, 452, 453, 454)]
        if variant != 'higher-during':
            end = 550
    if variant in ('lower-after', 'higher-after', 'equal-after', 'lower-twice'):
        ev += [(t, ['P'] + probes(ndev)) for t in (448, 449, 450, 451, 452, 453, 454)]
        nm = {'lower-after': NAME0 - 1, 'higher-after': NAME0 + 77, 'equal-after': NAME0, 'lower-twice': 5}[variant]
        ev.append((600, [G.claim(own, nm), 'P']))
        end = 850
        if variant == 'lower-twice':
            ev.append((700, [G.claim((own + 1) & 255, 6), 'P']))      # the next address is taken as well
            end = 950
    if variant == 'null':
        # device 0 runs out of addresses: every address it tries is defended by a lower NAME
        ev += [(300 + 10 * k, [G.claim((own + k) & 255, 3), 'P']) for k in range(4)]
        end = 580
    ev += [(end + d, ['P'] + probes(ndev)) for d in (-3, -2, -1, 0, 1, 2, 3, 4, 5)]
    ev.append((end + 300, ['P'] + probes(ndev)))
    return case(cfg(mode, ndev, src, cold=True), timeline(ev))


def warm_claim(r, mode, ndev, src, variant):
    """opened node: StartAddressClaim by the application / lost contention, probes at 249/250/251 ms"""
    ev = [(0, ['P'] + probes(ndev))]
    dev = r.randrange(ndev)
    if variant == 'restart':
        ev.append((7, ['C %d' % dev]))
    elif variant == 'lose':
        ev.append((7, [G.claim((src + dev) & 255, NAME0 - 5), 'P']))
    elif variant == 'win':
        ev.append((7, [G.claim((src + dev) & 255, NAME0 + 1000), 'P']))
    elif variant == 'restart-twice':
        ev.append((7, ['C %d' % dev]))
        ev.append((130, ['C %d' % dev]))
    base = 130 if variant == 'restart-twice' else 7
    ev += [(base + d, ['P'] + probes(ndev)) for d in (100, 248, 249, 250, 251, 252, 253, 400)]
    return case(cfg(mode, ndev, src), timeline(ev))


def iso_pending(r, mode, ndev, src, pgn, variant):
    """ISO request answered while the driver refuses and the send queue is tiny: the information is retried 187+src*8 (product) /
    187+src*10 (configuration) ms later"""
    q = r.choice([1, 2, 3])
    dev = r.randrange(ndev)
    own = (src + dev) & 255
    mul = 10 if pgn == 126998 else 8
    d = 187 + own * mul
    dst = 255 if variant == 'broadcast' else own
    ev = [(0, ['P']), (5, ['A ' + '0' * 60, G.iso_request(50, dst, pgn), 'P'])]
    if variant == 'refuse-again':
        ev.append((6, ['A ' + '0' * 200]))
        ev += [(5 + d + x, ['P']) for x in (-1, 0, 1, 2)]
        ev.append((5 + d + 3, ['A']))
        ev += [(5 + 2 * d + x, ['P']) for x in (-1, 0, 1, 2, 3, 4, 5)]
    else:
        ev.append((6, ['A']))
        if variant == 'broadcast' and ndev > 1:
            for i in range(ndev):
                di = 187 + own_addr(src, i) * mul
                ev += [(5 + di + x, ['P']) for x in (-1, 0, 1, 2)]
        else:
            ev += [(5 + d + x, ['P']) for x in (-2, -1, 0, 1, 2, 3)]
    ev.append((5 + 2 * d + 400, ['P', 'F']))
    return case(cfg(mode, ndev, src, q=q), timeline(ev))


def iso_misc(r, mode, ndev, src):
    """requests that are answered at once (address claim, PGN lists), requests to an application handler, unknown PGN (NAK)"""
    own = src
    ev = [(0, ['P'])]
    t = 3
    for pgn in (60928, 126464, 126996, 126998, 127250, 65280):
        ev.append((t, [G.iso_request(r.choice([50, 51, 23]), r.choice([own, 255]), pgn), 'P']))
        t += r.choice([1, 49, 50, 51, 100, 187])
    return case(cfg(mode, ndev, src, extra='iso=127250'), timeline(ev))


def tp_receive(r, mode, ndev, src, variant):
    """RTS/CTS or BAM session towards us, with gaps between the data frames"""
    own = (src + r.randrange(ndev)) & 255
    n = r.choice([9, 20, 30])
    payload = bytes(r.randrange(256) for _ in range(n))
    npk = (n + 6) // 7
    bam = variant == 'bam'
    dst = 255 if bam else own
    ev = [(0, ['P']), (4, [G.tp_rts(130816, 50, dst, n, maxp=r.choice([255, 1, 2]), bam=bam), 'P'])]
    t = 4
    gaps = {'bam': [50, 51, 49, 200, 100], 'slow': [99, 100, 101, 749, 750, 1250], 'fast': [1, 0, 2, 1, 1]}.get(variant, [10, 20, 30, 40, 50])
    for k in range(1, npk + 1):
        t += gaps[(k - 1) % len(gaps)]
        ev.append((t, [G.tp_dt(50, dst, k, payload[(k - 1) * 7:k * 7]), 'P']))
    ev.append((t + 60, ['P']))
    return case(cfg(mode, ndev, src), timeline(ev))


def tp_send(r, mode, ndev, src, variant):
    """we send with ISO-TP: RTS and the peer's answers (CTS, EndOfMsgAck, nothing: timeouts 50 ms / 100 ms), or BAM with TP.DT
    every 50 ms.  A second tp send is used as a probe: it is refused while a session is pending"""
    dev = r.randrange(ndev)
    own = (src + dev) & 255
    n = r.choice([20, 30])
    msg = 'S %d 6 130816 0 %%d 1 %s' % (dev, hexdata(r, n))
    npk = (n + 6) // 7
    ev = [(0, ['P'])]
    if variant == 'bam':
        ev.append((3, [msg % 255]))
        if r.random() < 0.5:
            ev += [(3 + 10 * k, ['P']) for k in range(1, 32)]
        else:
            for j in range(1, npk + 2):
                ev += [(3 + 51 * j + x, ['P']) for x in (-2, -1, 0, 1)]
        return case(cfg(mode, ndev, src), timeline(ev))
    ev.append((3, [msg % 50]))
    if variant == 'no-answer':
        ev += [(3 + x, ['P', msg % 50]) for x in (10, 48, 49, 50, 51, 52, 53)]
        ev += [(3 + x, ['P', msg % 50]) for x in (98, 99, 100, 101, 102, 103, 104, 105, 106)]
    elif variant == 'cts-then-silence':
        ev.append((20, [G.tp_cm(50, own, 17, 2, 1, 255, 255, 130816), 'P']))
        ev += [(20 + x, ['P', msg % 50]) for x in (50, 98, 99, 100, 101, 102, 103)]
    elif variant == 'complete':
        ev.append((20, [G.tp_cm(50, own, 17, 2, 1, 255, 255, 130816), 'P']))
        ev.append((70, [G.tp_cm(50, own, 17, npk - 2, 3, 255, 255, 130816), 'P']))
        ev.append((165, [G.tp_cm(50, own, 19, n, 0, npk, 255, 130816), 'P', msg % 50]))
        ev += [(165 + x, ['P', msg % 50]) for x in (48, 49, 50, 51, 52)]
    elif variant == 'hold':
        # CTS with 0 packets = hold the connection, 100 ms timeout restarted each time
        ev.append((30, [G.tp_cm(50, own, 17, 0, 1, 255, 255, 130816), 'P']))
        ev.append((129, [G.tp_cm(50, own, 17, 0, 1, 255, 255, 130816), 'P', msg % 50]))
        ev += [(129 + x, ['P', msg % 50]) for x in (98, 99, 100, 101, 102)]
    return case(cfg(mode, ndev, src), timeline(ev))


def heartbeat(r, mode, ndev, src, cold, variant):
    """heartbeat offset 10 s after open, period 60 s; then changed to 1 s / 5 s + offset"""
    # open happens at -800 (32-bit) / -798 (64-bit) in the prelude, at 200 / 202 after a cold start
    o = 200 if cold else -800
    ev = [(0, ['P'])]
    if cold:
        ev += [(t, ['P']) for t in (1, 2, 200, 201, 202, 203, 460, 461)]
    ev += [(o + 10000 + x, ['P']) for x in range(-2, 7)]
    if variant == 'long':
        ev += [(o + 70000 + x, ['P']) for x in range(-2, 7)]
        ev += [(o + 130000 + x, ['P']) for x in (-1000, 0, 1, 2, 3, 4, 5)]
        last = o + 130005
    else:
        last = o + 10006
    ev.append((last + 100, ['H 1000 0']))
    ev += [(last + 100 + 500 * k, ['P']) for k in range(1, 8)]
    if ndev > 1:
        ev.append((last + 3700, ['H 5000 100 1']))
    else:
        ev.append((last + 3700, ['H 5000 100']))
    ev += [(last + 3700 + 1250 * k, ['P']) for k in range(1, 10)]
    return case(cfg(mode, ndev, src, cold=cold, hb=True), timeline(ev))


def heartbeat_onopen(r, mode, ndev, src):
    """the application configures the heartbeat from its OnOpen callback (period 5 s / 7 s, small offset): the schedule is anchored at the
    moment of Open(), whatever the clock reads then (seeds C13-19, C12-19)"""
    iv, off = r.choice([(5000, 1000), (7000, 0), (4000, 10)])
    ev = [(t, ['P']) for t in (0, 1, 2, 100, 200, 201, 202, 203, 460, 461)]
    ev += [(461 + k * 1250, ['P']) for k in range(1, 14)]
    return case(cfg(mode, ndev, src, cold=True, hb=True, extra='onopen=%d,%d' % (iv, off)), timeline(ev))


def app_scheduler_onopen(r, mode, ndev, src):
    """the application's own tN2kSyncScheduler, given period and offset in the OnOpen callback and polled after every call: its events are
    anchored at the moment of Open() like the library's own synchronised schedules, at every clock origin (seed C13-19)"""
    p, o = r.choice([(1000, 300), (700, 0), (2500, 100)])
    ev = [(t, ['P']) for t in (0, 1, 2, 100, 200, 201, 202, 203)]
    ev += [(203 + k * 97, ['P']) for k in range(1, 60)]
    return case(cfg(mode, ndev, src, cold=True, extra='appsched=%d,%d' % (p, o)), timeline(ev))


def heartbeat_long_gap(r, mode, ndev, src, cold, gap, variant):
    """heartbeat across a gap of `gap` ms (< 2^32) in which nothing is called, then polls; crossing the 32-bit wrap for origins
    shortly below 2^32 (the 32-bit build's N2kMillis64() only notices a wrap when it is called)"""
    ev = [(0, ['P'])]
    if cold:
        ev += [(t, ['P']) for t in (1, 2, 200, 201, 202, 203, 460, 461)]
    ev.append((500, ['H 5000 100'] if variant != 'default' else ['P']))
    if variant == 'claiming':
        ev.append((600, ['C 0']))           # the device is claiming when the gap starts: heartbeat not evaluated at the next poll
    t = 700
    ev.append((t, ['P']))
    t += gap
    ev.append((t, ['P']))
    ev += [(t + x, ['P']) for x in (1, 2, 3, 1000, 2500, 5000, 5100, 5101, 5102, 7500, 10000, 10100, 10101, 10102, 15200)]
    if variant == 'two-gaps':
        t2 = t + 15200 + gap
        ev += [(t2 + x, ['P']) for x in (0, 1, 2, 2500, 5000, 5100, 5101, 5102, 10200)]
    return case(cfg(mode, ndev, src, cold=cold, hb=True), timeline(ev))


def slot_eviction(r, mode, slots, variant):
    """reassembly slots filled by first frames of fast packets from different sources; a further first frame arrives 99 / 100 / 101 ms
    after the oldest: whether the old slot is reused shows in which messages complete when the remaining frames arrive"""
    age = {'99': 99, '100': 100, '101': 101, '0': 0, '150': 150}[variant]
    srcs = [50, 51, 52, 53][:slots + 1]
    pay = {s: bytes(r.randrange(256) for _ in range(20)) for s in srcs}
    fr = {s: G.sender_stream(r, 129029, s, 255, pay[s], prio=3, sid=r.randrange(8)) for s in srcs}
    ev = [(0, ['P'])]
    t = 2
    for k, s in enumerate(srcs[:slots]):
        ev.append((t + 10 * k, [fr[s][0], 'P']))
    newcomer = srcs[slots]
    t2 = t + age
    ev.append((t2, [fr[newcomer][0], 'P']))
    rest = []
    for s in srcs:
        rest += fr[s][1:]
    ev.append((t2 + 3, rest + ['P']))
    # and once more for ISO-TP slots: RTS from another source when all slots are busy -> abort (busy) or eviction
    ev.append((t2 + 500, ['P']))
    return case(cfg(mode, 1, 22, slots=slots), timeline(ev))


def slot_eviction_tp(r, mode, slots, age):
    own = 22
    ev = [(0, ['P'])]
    for k in range(slots):
        ev.append((2 + 10 * k, [G.tp_rts(130816, 50 + k, own, 20), 'P']))
    ev.append((2 + age, [G.tp_rts(130816, 60, own, 9), 'P']))
    t = 2 + age + 5
    pay = bytes(r.randrange(256) for _ in range(20))
    for s in [50 + k for k in range(slots)] + [60]:
        for k in (1, 2, 3):
            ev.append((t, [G.tp_dt(s, own, k, pay[(k - 1) * 7:k * 7]), 'P']))
            t += 1
    return case(cfg(mode, 1, own, slots=slots), timeline(ev))


def slot_eviction_live_tp(r, mode, slots, bam):
    """a slow ISO-TP reception (one data packet every 50 ms, each refreshes its slot) while every other slot holds an unfinished fast packet;
    a further first frame then has to take the stale fast-packet slot, not the live transport session, which completes (seed C13-17)"""
    own = 22
    n = 70
    payload = bytes(r.randrange(256) for _ in range(n))
    dst = 255 if bam else own
    ev = [(0, ['P']), (10, [G.tp_rts(129540, 30, dst, n, bam=bam), 'P'])]
    for k in range(1, 11):
        ev.append((10 + 50 * k, [G.tp_dt(30, dst, k, payload[(k - 1) * 7:k * 7]), 'P']))
    fp = {s: G.sender_stream(r, 129029, s, 255, bytes(r.randrange(256) for _ in range(20)), prio=3, sid=r.randrange(8)) for s in (40, 41, 42, 43, 44)}
    for j in range(slots - 1):
        ev.append((330 + j, [fp[40 + j][0], 'P']))               # the other slots: first frames only
    ev.append((440, [fp[44][0], 'P']))                          # all busy: the oldest slot older than 100 ms goes - a fast packet of t=330..
    ev.append((445, fp[44][1:] + ['P']))
    ev.append((600, ['P']))
    return case(cfg(mode, 1, own, slots=slots), timeline(sorted(ev, key=lambda e: e[0])))


def mixed(r, mode, ndev, src):
    """several timers running at once: claim restart, TP send, pending information, heartbeat"""
    own = src
    n = 30
    ev = [(0, ['P']), (2, ['H 1000 0']),
          (10, ['S 0 6 130816 0 255 1 ' + hexdata(r, n)]),
          (15, ['A ' + '0' * 40, G.iso_request(51, own, 126996), 'P', 'A']),
          (40, ['C %d' % (ndev - 1)])]
    ev += [(t, ['P'] + probes(ndev)) for t in range(55, 75, 5)]
    ev += [(t, ['P'] + probes(ndev)) for t in (288, 289, 290, 291, 292)]
    d = 15 + 187 + own * 8
    ev += [(d + x, ['P']) for x in (-1, 0, 1, 2)]
    ev += [(t, ['P']) for t in range(1000, 3200, 250)]
    return case(cfg(mode, ndev, src, q=r.choice([2, 3, 40]), hb=True), timeline(ev))


# ---------------------------------------------------------------------------------------------------------------------------
def directed(seed, tier):
    """-> [(name, case line at origin 5000)]"""
    r = random.Random(seed * 7919 + 13)
    thorough = tier != 'quick'
    out = []

    def add(name, line):
        out.append(('%s#%d' % (name, len(out)), line))

    rep = 1 if not thorough else 4
    for _ in range(rep):
        cv = ['none', 'lower-during', 'higher-during', 'equal-during', 'lower-after', 'higher-after', 'equal-after', 'lower-twice', 'null']
        for v in (cv if thorough else r.sample(cv, 5)):
            add('cold-claim-' + v, cold_open_claim(r, r.choice([1, 2, 1, 2, 0, 3, 4]) if v == 'none' else r.choice([1, 2]), r.choice([1, 2, 3]),
                                                   r.choice([0, 22, 100, 249, 251] if v != 'null' else [250, 251]), v))
        for v in (['restart', 'lose', 'win', 'restart-twice'] if thorough else ['restart', 'lose', 'restart-twice']):
            add('claim-' + v, warm_claim(r, r.choice([1, 2]), r.choice([1, 2, 3]), r.choice([0, 22, 100, 250]), v))
        for pgn, v in ([(126996, 'addressed'), (126998, 'addressed'), (126996, 'broadcast'), (126998, 'refuse-again'), (126996, 'refuse-again')] if thorough
                       else [(126996, 'addressed'), (126998, 'broadcast'), (r.choice([126996, 126998]), 'refuse-again')]):
            add('iso-pending-%d-%s' % (pgn, v), iso_pending(r, r.choice([1, 2]), r.choice([1, 2, 3]), r.choice([0, 22, 100, 200, 250]), pgn, v))
        add('iso-misc', iso_misc(r, r.choice([1, 2]), r.choice([1, 2]), r.choice([0, 22, 100])))
        for v in (['cts', 'bam', 'slow', 'fast'] if thorough else ['cts', 'bam', 'slow']):
            add('tp-rx-' + v, tp_receive(r, r.choice([1, 2, 2]) if v != 'bam' else r.choice([2, 2, 0, 4]), r.choice([1, 2]), r.choice([0, 22, 100]), v))
        for v in ['bam', 'no-answer', 'cts-then-silence', 'complete', 'hold']:
            add('tp-tx-' + v, tp_send(r, r.choice([1, 2]), r.choice([1, 2, 3]), r.choice([0, 22, 100]), v))
        add('hb-warm-long', heartbeat(r, r.choice([1, 2]), r.choice([1, 2, 3]), r.choice([0, 22, 100]), False, 'long'))
        add('hb-cold', heartbeat(r, r.choice([1, 2]), r.choice([1, 2]), r.choice([0, 22]), True, 'short' if not thorough else 'long'))
        add('hb-onopen', heartbeat_onopen(r, r.choice([1, 2]), r.choice([1, 2]), r.choice([0, 22])))
        add('app-sched-onopen', app_scheduler_onopen(r, r.choice([1, 2, 0]), 1, r.choice([0, 22])))
        for v in (['99', '100', '101', '0', '150'] if thorough else ['99', '100', '101']):
            add('slots-fp-' + v, slot_eviction(r, r.choice([2, 2, 0, 3, 4, 1]), r.choice([1, 2]), v))
        for age in ([99, 100, 101] if thorough else [r.choice([99, 100, 101])]):
            add('slots-tp-%d' % age, slot_eviction_tp(r, r.choice([1, 2]), r.choice([1, 2]), age))
        add('mixed', mixed(r, r.choice([1, 2]), r.choice([1, 2, 3]), r.choice([0, 22, 100])))
        add('slots-live-tp-bam', slot_eviction_live_tp(r, r.choice([2, 0, 4]), r.choice([2, 3]), True))
        add('slots-live-tp-cts', slot_eviction_live_tp(r, r.choice([1, 2]), 2, False))
    add('mixed-9dev', mixed(r, 1, 9, 30))
    # heartbeat across a long silent gap (wrap of the 32-bit clock inside the gap for origins 2^32-k, 2^33-k)
    for cold, gap, v in ([(False, 3000000000, 'set'), (True, 3000000000, 'default'), (False, 4294967295, 'set'), (False, 2200000000, 'claiming'), (False, 2200000000, 'two-gaps')]
                         if thorough else [(False, 3000000000, 'set'), (True, 4294967295 - 800, 'default'), (False, 2200000000, 'claiming'), (False, 2200000000, 'two-gaps')]):
        add('hb-gap-%s-%s-%d' % ('cold' if cold else 'warm', v, gap), heartbeat_long_gap(r, r.choice([1, 2]), r.choice([1, 2]), r.choice([0, 22]), cold, gap, v))
    return out


def hb_before_open(seed, tier):
    """heartbeat interval and offset set by the application before Open(), to the very values Open() sets itself (see p_C13)"""
    out = []
    for k, (mode, ndev, src) in enumerate([(1, 1, 22), (2, 2, 0)]):
        ev = [(0, ['H 60000 10000', 'P'])] + [(t, ['P']) for t in (1, 2, 200, 201, 202, 203, 460, 461)] + [(t, ['P']) for t in range(1000, 13001, 500)]
        out.append(('hb-before-open#%d' % k, case(cfg(mode, ndev, src, cold=True, hb=True), timeline(ev))))
    return out


def randoms(seed, tier):
    r = random.Random(seed * 104729 + 5)
    n = 14 if tier == 'quick' else 150
    return [('random#%d' % k, G.random_history(r, n_ops=r.choice([30, 40, 60]))) for k in range(n)] + \
           [('random-api#%d' % k, G.random_history_api(r, n_ops=r.choice([30, 40]))) for k in range(max(4, n // 3))]


# ---------------------------------------------------------------------------------------------------------------------------
# Directed cases for the one documented effect (32-bit build): a timer armed so that millis()+delay == 0xFFFFFFFF is stored as 0 and
# fires one millisecond late.  Each entry: (name, case line at the reference origin, arm offset = relative time of the arming op,
# delay).  The exposed origin is 2^32 - 1 - delay - arm offset (+ a multiple of 2^32).
def sentinel_directed():
    out = []
    # StartAddressClaim, 250 ms: probes every ms
    for arm in (10, 0, 300):
        ev = [(0, ['P'])] if arm else []
        ev.append((arm, ['C 0']))
        ev += [(arm + x, ['P', PROBE % 0]) for x in (100, 249, 250, 251, 252, 253, 254)]
        out.append(('sentinel-claim-%d' % arm, case(cfg(1, 1, 22), timeline(ev)), arm, 250))
    # BAM: 50 ms between TP.DT frames
    ev = [(0, ['P']), (20, ['S 0 6 130816 0 255 1 ' + bytes(range(30)).hex()])]
    ev += [(20 + x, ['P']) for x in range(45, 215)]
    out.append(('sentinel-bam-50', case(cfg(1, 1, 22), timeline(ev)), 20, 50))
    # pending product information: 187 + 22*8 = 363 ms
    d = 187 + 22 * 8
    ev = [(0, ['P']), (5, ['A ' + '0' * 60, G.iso_request(50, 22, 126996), 'P', 'A'])]
    ev += [(5 + d + x, ['P']) for x in (-2, -1, 0, 1, 2, 3)]
    out.append(('sentinel-pending-363', case(cfg(1, 1, 22, q=2), timeline(ev)), 5, d))
    # cold open: 200 ms wait armed by the first Open() call
    ev = [(0, ['P'])] + [(x, ['P']) for x in (150, 198, 199, 200, 201, 202, 203)] + [(x, ['P', PROBE % 0]) for x in range(445, 458)]
    out.append(('sentinel-open-200', case(cfg(1, 1, 22, cold=True), timeline(ev)), 0, 200))
    return out
