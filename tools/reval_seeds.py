import subprocess, os, sys, json, glob
from concurrent.futures import ThreadPoolExecutor
seeds=sorted(os.path.basename(d) for d in glob.glob('/verif/seeded/C*-*'))
def run(s):
    pid,k=s.split('-')
    p=subprocess.run(['/usr/bin/python3','/verif/tools/seedcheck.py',pid,k,'/tmp/none_'+s,pid],cwd='/verif',stdout=subprocess.PIPE,stderr=subprocess.STDOUT,text=True)
    line=[l for l in p.stdout.split('\n') if l.startswith(pid+' ')]
    out=(line[-1] if line else 'ERR '+p.stdout[-200:])
    open('/tmp/reval.log','a').write(s+' :: '+out+'\n')
    return out
open('/tmp/reval.log','w').close()
with ThreadPoolExecutor(max_workers=5) as ex:
    list(ex.map(run,seeds))
