# C08 - ISO requests are always answered: data for the mandatory PGNs, a negative acknowledgement otherwise.
# Generator (requested PGN classes, requester addresses, addressed / broadcast, handler, claim windows, blocked bus, DLC, modes, long
# PGN lists), an oracle written from the property text, and the correspondence (node harness, both scheduler builds).
#
# The oracle is a small reference machine, independent of the Coq model: per device "claim pending until", per device retry timers for
# product / configuration information, a FIFO of owed frames of capacity (buffer size - 1) (property C11) and the send gate (C04:
# address above 251 sends nothing but the address claim).  For every operation of the case it says which frames must be handed to the
# driver, with which identifier and bytes, and which must not; the answers' contents come from the published PGN layouts below.
from nodesim import own_addr
import random
import vlib
from nodesim import ref_can_id, ref_fp_decode, pdu1, parse_result
from nodegen import can_id, rx

# ---------------------------------------------------------------------------------------------
# reference contents (NMEA 2000 definitions; the library's defaults as documented in NMEA2000.cpp)
DEF_TX = [59392, 59904, 60160, 60416, 60928, 126208, 126464, 126993, 126996, 126998]
DEF_RX = [59392, 59904, 60160, 60416, 60928, 65240, 126208]
IGNORE_BROADCAST = {127500, 130060, 130061, 130330, 130561, 130562, 130563, 130564, 130565, 130566}
MAX_LIST = 74


def le(v, n):
    return [(v >> (8 * k)) & 255 for k in range(n)]


def fixed32(s):
    b = list(s.encode('ascii'))[:32]
    return b + [255] * (32 - len(b))


def varstr(s):
    b = list(s.encode('ascii'))
    return [len(b) + 2, 1] + b


def product_info(strings=None):
    # N2k version, product code, model id, software code, model version, serial code (32 bytes each, 0xFF padded), certification, load
    if strings is not None:
        f = lambda b: list(b[:32]) + [0xff] * (32 - len(b[:32]))
        return le(2101, 2) + le(666, 2) + f(strings[0]) + f(strings[1]) + f(strings[2]) + f(strings[3]) + [0, 1]
    return le(2101, 2) + le(666, 2) + fixed32('Arduino N2k->PC') + fixed32('1.0.0.0') + fixed32('1.0.0') + fixed32('00000001') + [0, 1]


def config_info(cfg=None):
    # installation description 1, installation description 2, manufacturer information; each field holds at most 70 characters
    if cfg and cfg.get('conf'):
        a, b, m = [list(bytes.fromhex(x))[:70] if x not in ('-', '~') else [] for x in cfg['conf'].split(',')]    # ~ = string not given (null pointer): sent as empty
        return [len(a) + 2, 1] + a + [len(b) + 2, 1] + b + [len(m) + 2, 1] + m
    return varstr('') + varstr('') + varstr('NMEA2000 library, https://github.com/ttlappalainen/NMEA2000')


def device_name(i):
    # ISO 11783-5 NAME: unique number (21 bit), manufacturer (11), device instance (8), function (8), reserved (1), class (7),
    # system instance (4), industry group (3), arbitrary address capable (1)
    unique, manuf, instance, function, cls, sysinst, industry = 1 + i, 2046, 0, 130, 25, 0, 4
    return unique | manuf << 21 | instance << 32 | function << 40 | cls << 49 | sysinst << 56 | industry << 60 | 1 << 63


def fp_frames(payload):
    """fast-packet frames with sequence id 0 (the id bits are compared separately)"""
    n = len(payload)
    fr = [[0, n] + payload[:6] + [255] * (6 - min(6, n))]
    rest = payload[6:]
    k = 1
    while rest:
        fr.append([k] + rest[:7] + [255] * (7 - len(rest[:7])))
        rest = rest[7:]
        k += 1
    return fr


def parse_cfg(line):
    cfgs, opss = line.split('|', 1)
    cfg = {}
    for tok in cfgs.split()[1:]:
        k, v = tok.split('=', 1)
        if k in ('fp0', 'fp1', 'sf0', 'sf1', 'iso') or (k[:2] in ('tx', 'rx') and k[2:].isdigit()):
            cfg[k] = [int(x) for x in v.split(',') if x]
        elif k == 'conf':
            cfg[k] = v
            if v == '~,~,~':
                cfg['noconf'] = 1             # no string given at all: the node has no configuration information
        else:
            cfg[k] = int(v)
    ops = [o.split() for o in opss.split(';')]
    return cfg, ops


# ---------------------------------------------------------------------------------------------
# the reference machine
class Ref:
    def __init__(self, cfg, strict):
        self.cfg = cfg
        self.strict = strict                    # "the time has come" = strictly after (True) / at (False) the instant
        self.ndev = cfg.get('ndev', 1)
        self.src0 = cfg.get('src', 22)
        self.mode = cfg.get('mode', 1)
        self.now = cfg.get('t0', 5000)
        qmax = cfg.get('q', 40) * self.ndev
        self.cap = max(qmax - 1, 0)
        self.fifo = []
        self.answers = []
        self.rxq = []
        self.claim_until = [None] * self.ndev
        self.retry = [{126996: None, 126998: None} for _ in range(self.ndev)]
        self.names = [device_name(i) for i in range(self.ndev)]
        self.prod = None                        # strings given by SetProductInformation at run time (None = the library's default)
        self.handler = cfg.get('iso')           # None = no application handler
        self.ev = []
        self.lenient_notes = False

    def src(self, k):
        return own_addr(self.src0, k)

    def due(self, t):
        return self.now > t if self.strict else self.now >= t

    def claiming(self, k):
        t = self.claim_until[k]
        if t is None:
            return False
        if self.due(t):
            self.claim_until[k] = None
            return False
        return True

    # --- driver + FIFO (C11)
    def drv(self):
        return self.answers.pop(0) if self.answers else True

    def flush(self):
        while self.fifo:
            a = self.drv()
            self.ev.append(('tx',) + self.fifo[0] + (a,))
            if not a:
                return False
            self.fifo.pop(0)
        return True

    def send_frame(self, f):
        sent = False
        if self.flush():
            sent = self.drv()
            self.ev.append(('tx',) + f + (sent,))
        if sent:
            return True
        if len(self.fifo) < self.cap:
            self.fifo.append(f)
            return True
        return False

    # --- SendMsg of an answer: priority 6; PDU1 PGNs carry the destination
    def send(self, k, pgn, dst, payload, fast):
        s = self.src(k)
        if self.mode not in (1, 2):
            return False
        if s > 251 and pgn != 60928:
            return False                        # C04: no valid address, nothing but the claim may be sent
        if self.claiming(k) and pgn != 60928:
            return False
        cid = ref_can_id(6, pgn, s, dst if pdu1(pgn) else 255)
        frames = [(cid, 8, f) for f in fp_frames(payload)] if fast else [(cid, len(payload), payload)]
        for f in frames:
            if not self.send_frame(f):
                return False
        return True

    def send_info(self, k, pgn):
        ok = self.send(k, pgn, 255, product_info(self.prod) if pgn == 126996 else config_info(self.cfg), True)
        self.retry[k][pgn] = None if ok else self.now + 187 + (8 if pgn == 126996 else 10) * self.src(k)

    # --- the property
    def respond(self, k, requester, p, addressed):
        if self.claiming(k):
            return                              # no request is answered while the address claim is pending
        if p == 60928:
            self.send(k, 60928, 255, le(self.names[k], 8), False)
        elif p == 126464:
            txl = (DEF_TX + self.cfg.get('tx%d' % k, []))[:MAX_LIST]
            rxl = (DEF_RX + self.cfg.get('rx%d' % k, []))[:MAX_LIST]
            self.send(k, 126464, requester, [0] + [b for q in txl for b in le(q, 3)], True)
            self.send(k, 126464, requester, [1] + [b for q in rxl for b in le(q, 3)], True)
        elif p == 126998 and self.cfg.get('noconf'):
            # no configuration information at all: like any PGN the node cannot supply
            if addressed:
                self.send(k, 59392, requester, [1, 255, 255, 255, 255] + le(p, 3), False)
        elif p in (126996, 126998):
            self.send_info(k, p)
        else:
            if self.handler is not None:
                if not addressed and p in IGNORE_BROADCAST:
                    self.lenient_notes = True   # the property text does not say whether the handler is asked here
                    return
                if p in self.handler:
                    self.ev.append(('note', 'iso', str(p)))
                    return                      # whatever the handler sends (the harness' handler sends nothing)
            if addressed:
                self.send(k, 59392, requester, [1, 255, 255, 255, 255] + le(p, 3), False)

    def request(self, idv, ln, data):
        requester, dst = idv & 255, (idv >> 8) & 255
        if ((idv >> 16) & 0xff) == 0xEE and ((idv >> 24) & 3) == 0 and ln == 8 and self.mode in (1, 2):
            # an address claim for one of our addresses from a HIGHER NAME (the only kind the cases of this check contain): the device
            # defends its address with its own claim and keeps it - no new claim window, requests go on being answered
            nm = int.from_bytes(bytes(data[:8]), 'little')
            for k in range(self.ndev):
                if self.src(k) == requester and requester <= 251 and nm > self.names[k]:
                    self.send(k, 60928, 255, le(self.names[k], 8), False)
            return
        if ((idv >> 16) & 0xff) != 0xEA or ((idv >> 24) & 3) != 0:
            return                              # not an ISO request
        if self.mode not in (1, 2):
            return                              # listen-only / send-only nodes have no device on the bus
        p = data[0] | data[1] << 8 | data[2] << 16 if 3 <= ln <= 8 else 0
        if dst == 255:
            for k in range(self.ndev):
                self.respond(k, requester, p, False)
        elif dst <= 253:
            for k in range(self.ndev):
                if self.src(k) == dst:
                    self.respond(k, requester, p, True)
                    break

    def poll(self):
        self.flush()
        for k in range(self.ndev):
            for pgn in (126996, 126998):
                t = self.retry[k][pgn]
                if t is not None and self.due(t):
                    self.send_info(k, pgn)
        n = 0
        while self.rxq and n < 20:
            idv, ln, data = self.rxq.pop(0)
            n += 1
            self.request(idv, ln, data)

    def step(self, o):
        self.ev = []
        self.lenient_notes = False
        if not o:
            return self.ev
        if o[0] == 'T':
            self.now += int(o[1])
        elif o[0] == 'A':
            self.answers = [c == '1' for c in (o[1] if len(o) > 1 else '')]
        elif o[0] == 'F':
            self.flush()
        elif o[0] == 'C':
            k = int(o[1])
            if 0 <= k < self.ndev and self.mode in (1, 2):
                self.claim_until[k] = None
                self.send(k, 60928, 255, le(self.names[k], 8), False)
                self.claim_until[k] = self.now + 250
        elif o[0] == 'R':
            self.rxq.append((int(o[1], 16), int(o[2]), list(bytes.fromhex(o[3]))))
        elif o[0] == 'P':
            self.poll()
        elif o[0] == 'K' and len(o) >= 6:
            # SetProductInformation (device 0; the other devices report device 0's): by strings (s) or by pointer (p), the latest call counts
            self.prod = [bytes.fromhex(x) if x != '-' else b'' for x in o[2:6]]
        elif o[0] == 'D' and len(o) >= 7:
            # SetDeviceInformation(unique, function, class, manufacturer, industry, iDev): the NAME the next address claims carry
            i, uq, fn, cl, mf, ig = (int(x) for x in o[1:7])
            if 0 <= i < self.ndev:
                nm = self.names[i]
                if mf != 65535:
                    nm = (nm & ~(0x7ff << 21)) | ((mf & 0x7ff) << 21)
                if uq != 4294967295:
                    nm = (nm & ~0x1fffff) | (uq & 0x1fffff)
                if fn != 255:
                    nm = (nm & ~(0xff << 40)) | ((fn & 0xff) << 40)
                if cl != 255:
                    nm = (nm & ~(0xff << 48)) | (((cl & 0x7f) << 1) << 48)
                if ig != 255:
                    nm = (nm & ~(0x7 << 60)) | ((ig & 7) << 60) | (1 << 63)
                self.names[i] = nm
        elif o[0] == 'Q' and len(o) >= 3 and self.mode in (1, 2, 3, 4):
            # the public senders: the same answers without a request (no claim-window exemption: SendMsg refuses inside the window)
            kind = o[1]
            if kind in ('pi', 'ci'):
                k = int(o[2])
                if 0 <= k < self.ndev:
                    if kind == 'ci' and self.cfg.get('noconf'):
                        self.send(k, 59392, 255, [1, 255, 255, 255, 255] + le(126998, 3), False)
                    else:
                        self.send_info(k, 126996 if kind == 'pi' else 126998)
            elif kind in ('tx', 'rx') and len(o) >= 5 and o[4] == '0':
                dst, k = int(o[2]), int(o[3])
                if dst == 255 and k == -1:
                    k = 0
                if 0 <= k < self.ndev:
                    lst = ((DEF_TX + self.cfg.get('tx%d' % k, [])) if kind == 'tx' else (DEF_RX + self.cfg.get('rx%d' % k, [])))[:MAX_LIST]
                    self.send(k, 126464, dst, [0 if kind == 'tx' else 1] + [b for q in lst for b in le(q, 3)], True)
            elif kind == 'ac' and len(o) >= 5 and o[4] == '0':
                dst, k = int(o[2]), int(o[3])
                if dst == 255 and k == -1:
                    k = 0
                if 0 <= k < self.ndev:
                    self.send(k, 60928, dst, le(self.names[k], 8), False)
        return self.ev


def same_frame(exp, got):
    """identifier, length, acceptance and bytes; of a fast-packet frame's first byte only the frame counter (sequence ids: C01)"""
    if exp[1] != got[1] or exp[2] != got[2] or exp[4] != got[4]:
        return False
    e, g = exp[3], got[3]
    if len(e) != len(g):
        return False
    if pgn_of(exp) in (126464, 126996, 126998):
        return len(g) == 8 and (e[0] & 31) == (g[0] & 31) and e[1:] == g[1:]
    return e == g


def describe(f):
    return '%x:%d:%s:%d' % (f[1], f[2], bytes(f[3]).hex(), f[4])


def run_ref(cfg, ops, per_op, strict):
    m = Ref(cfg, strict)
    for k, (o, got) in enumerate(zip(ops, per_op)):
        exp = m.step(o)
        gtx = [e for e in got if e[0] == 'tx']
        etx = [e for e in exp if e[0] == 'tx']
        for j in range(max(len(gtx), len(etx))):
            if j >= len(gtx):
                return classify(etx[j], None, k, o, j)
            if j >= len(etx):
                return classify(None, gtx[j], k, o, j)
            if not same_frame(etx[j], gtx[j]):
                return classify(etx[j], gtx[j], k, o, j)
        if not m.lenient_notes:
            gn = sorted(e[2] for e in got if e[0] == 'note' and len(e) > 2 and e[1] == 'iso')
            en = sorted(e[2] for e in exp if e[0] == 'note')
            if gn != en:
                return 'handler:op %d (%s): application handler invoked for %s, the property says %s' % (k, ' '.join(o)[:40], gn, en)
        # complete fast-packet answers must carry one sequence id in all their frames
        msg = []
        for e in gtx:
            if e[4] and len(e[3]) == 8 and pgn_of(e) in (126464, 126996, 126998):
                if (e[3][0] & 31) == 0:
                    msg = [e]
                elif msg and msg[-1][1] == e[1] and (e[3][0] & 31) == (msg[-1][3][0] & 31) + 1:
                    msg.append(e)
                    if (msg[0][3][0] >> 5) != (e[3][0] >> 5):
                        return 'fastpacket:op %d: frames of one answer carry different sequence ids' % k
                else:
                    msg = []
    return None


def pgn_of(f):
    pf = (f[1] >> 16) & 0xff
    return (f[1] >> 8) & (0x1ff00 if pf < 240 else 0x1ffff)


def classify(exp, got, k, o, j):
    where = 'op %d (%s) frame %d' % (k, ' '.join(o)[:40], j)
    if got is None:
        key = {59392: 'nak-missing', 60928: 'claim-missing', 126464: 'pgnlist-missing', 126996: 'product-missing', 126998: 'config-missing'}.get(pgn_of(exp), 'missing')
        return '%s:%s: the property requires %s, nothing was sent' % (key, where, describe(exp))
    if exp is None:
        key = 'nak-unexpected' if pgn_of(got) == 59392 else 'unexpected'
        return '%s:%s: %s was sent, the property allows no frame here (broadcast / claim pending / not addressed to us / nothing owed)' % (key, where, describe(got))
    if exp[1] != got[1]:
        return 'identifier:%s: sent %s, expected %s' % (where, describe(got), describe(exp))
    return 'content:%s: sent %s, expected %s' % (where, describe(got), describe(exp))


def oracle(case, res):
    if res.startswith('crash') or res.startswith('oob'):
        return 'memory:' + res
    cfg, ops = parse_cfg(case)
    per_op, state = parse_result(res)
    first = None
    for strict in (True, False):                 # 64-bit scheduler: strictly after the instant; 32-bit scheduler: at the instant
        what = run_ref(cfg, ops, per_op, strict)
        if what is None:
            return None
        first = first or what
    return first


# ---------------------------------------------------------------------------------------------
# generator
MANDATORY = [60928, 126464, 126996, 126998]
SYSTEM = [59392, 59904, 60160, 60416, 65240, 126208]
DEFAULT_LIST = [126993, 127250, 129025, 129029, 127489, 130306, 126992]
PROPRIETARY = [61184, 65280, 65535, 126720, 130816, 131071]
EDGE = [0, 1, 255, 256, 0xffffff, 0xffff00, 0x01ffff, 0x020000, 60927, 60929, 126463, 126465, 126995, 126997, 126999]
HANDLED = [127250, 129029, 127500, 130060, 65300, 126993, 0]


def req(r, requester, dst, p, ln=3):
    data = [p & 255, (p >> 8) & 255, (p >> 16) & 255] + [r.randrange(256) for _ in range(5)]
    return rx(can_id(6, 59904, requester, dst), data[:ln], garbage=r.choice([0xff, 0, 0x5a]))


def pick_pgn(r):
    x = r.random()
    if x < 0.3:
        return r.choice(MANDATORY)
    if x < 0.4:
        return r.choice(SYSTEM)
    if x < 0.55:
        return r.choice(DEFAULT_LIST + HANDLED + sorted(IGNORE_BROADCAST))
    if x < 0.65:
        return r.choice(PROPRIETARY)
    if x < 0.75:
        return r.choice(EDGE)
    return r.randrange(1 << 24)


def cfg_line(r, ndev=None, mode=None, q=None, src0=None, lists=True):
    ndev = r.choice([1, 1, 2, 3, 5, 9]) if ndev is None else ndev
    mode = r.choice([1, 1, 1, 2, 2]) if mode is None else mode
    src0 = r.choice([0, 22, 100, 200, 252 - ndev]) if src0 is None else src0
    q = r.choice([40, 40, 10, 3]) if q is None else q
    t0 = r.choice([5000, 70000, 4294966000, 4294967200, 2147483000, 10 ** 12])
    s = 'NODE mode=%d ndev=%d src=%d q=%d slots=%d t0=%d' % (mode, ndev, src0, q, r.choice([5, 2, 8]), t0)
    hk = r.random()
    if hk < 0.35:
        s += ' iso=' + ','.join(str(p) for p in r.sample(HANDLED, 3))
    elif hk < 0.45:
        s += ' iso=999999'                       # a handler that declines everything we ask
    if lists:
        for i in range(ndev):
            y = r.random()
            if y < 0.25:
                s += ' tx%d=%s' % (i, ','.join(str(p) for p in r.sample([129029, 127489, 127250, 130306, 128267, 65300, 130900], 3)))
            elif y < 0.32:
                s += ' tx%d=%s' % (i, ','.join(str(127000 + j) for j in range(r.choice([63, 64, 65, 70, 90]))))
            y = r.random()
            if y < 0.25:
                s += ' rx%d=%s' % (i, ','.join(str(p) for p in r.sample([127250, 129026, 130306, 65301, 129540], 2)))
            elif y < 0.32:
                s += ' rx%d=%s' % (i, ','.join(str(128000 + j) for j in range(r.choice([66, 67, 68, 80]))))
    if r.random() < 0.1:
        s += ' ok=1'
    if r.random() < 0.15:
        # the application's own PGN lists may name PGNs the library handles itself (requests, claims, group functions): they stay system messages (seed C08-15)
        s += ' %s=%s' % (r.choice(['sf1', 'sf0']), ','.join(str(p) for p in r.sample([59904, 60928, 59392, 65300, 127250], 3)))
        if r.random() < 0.5:
            s += ' fp1=%s' % ','.join(str(p) for p in r.sample([126208, 126996, 126464, 130900, 65240], 2))
    return s, ndev, src0, mode


def gen(seed, tier):
    r = random.Random(seed * 9176 + 8)
    thorough = tier != 'quick'
    cases = []
    N = 1 if not thorough else 12
    requesters = [0, 50, 77, 251, 254, 255]

    # 1. plain: accepting driver, empty queue; every device of the node addressed, and broadcast
    for _ in range(60 * N):
        line, ndev, src0, mode = cfg_line(r)
        own = [own_addr(src0, i) for i in range(ndev)]
        ops = []
        for _k in range(r.randint(3, 8)):
            for _j in range(r.randint(1, 3)):
                dst = r.choice(own + [255, 255] + ([77, 254] if r.random() < 0.15 else []))
                ops.append(req(r, r.choice(requesters + own[:1]), dst, pick_pgn(r), ln=r.choice([3, 3, 3, 3, 4, 8, 2, 0, 1, 5, 6, 7])))
            ops.append('P')
            if r.random() < 0.3:
                ops.append('T %d' % r.choice([1, 100, 1000, 60000]))
        cases.append(line + ' | ' + ' ; '.join(ops))
    # every device of a 9-device node, all four mandatory PGNs + an unknown one, addressed and broadcast
    for ndev in ([9] if not thorough else range(1, 10)):
        line, _, src0, _ = cfg_line(r, ndev=ndev, mode=1, q=40, src0=r.choice([0, 100, 243]))
        own = [own_addr(src0, i) for i in range(ndev)]
        ops = []
        for k in range(ndev):
            for p in MANDATORY + [127250]:
                ops += [req(r, 50, own[k], p), 'P']
        for p in MANDATORY + [127250, 127500]:
            ops += [req(r, 51, 255, p), 'P']
        cases.append(line + ' | ' + ' ; '.join(ops))
    # 2. modes in which the node has no device on the bus: silence
    for mode in (0, 3, 4):
        for _ in range(2 * N):
            line, ndev, src0, _ = cfg_line(r, mode=mode)
            ops = []
            for _k in range(4):
                ops += [req(r, 50, r.choice([src0, 255]), pick_pgn(r)), 'P']
            ops += ['C 0', 'T 300', req(r, 50, src0, 126996), 'P']
            cases.append(line + ' | ' + ' ; '.join(ops))
    # 3. claim windows: request 0..251 (and more) ms after StartAddressClaim, for the claiming device, its siblings and broadcast
    dts = [0, 1, 100, 249, 250, 251, 252, 400] if not thorough else list(range(0, 254)) + [300, 1000]
    for dt in dts:
        for _ in range(2 if not thorough else 1):
            line, ndev, src0, mode = cfg_line(r, ndev=r.choice([1, 2, 3]))
            own = [own_addr(src0, i) for i in range(ndev)]
            k = r.randrange(ndev)
            ops = ['C %d' % k, 'T %d' % dt]
            for p in r.sample(MANDATORY, 2) + [r.choice([127250, 59392, 0xffffff, 129029])]:
                ops += [req(r, 50, own[k], p), req(r, 50, 255, p), req(r, 51, own[(k + 1) % ndev], p), 'P']
            ops += ['T 251', req(r, 52, own[k], 126996), req(r, 52, own[k], 130000), 'P']
            cases.append(line + ' | ' + ' ; '.join(ops))
    # 4. earlier answers still pending: the driver refuses some frames, the queue has room
    for _ in range(40 * N):
        line, ndev, src0, mode = cfg_line(r, q=r.choice([40, 40, 20]))
        own = [own_addr(src0, i) for i in range(ndev)]
        ops = []
        for _k in range(r.randint(2, 6)):
            if r.random() < 0.7:
                pr = r.random()
                ops.append('A ' + ''.join('1' if r.random() < pr else '0' for _ in range(r.randint(1, 12))))
            for _j in range(r.randint(1, 3)):
                ops.append(req(r, r.choice(requesters), r.choice(own + [255]), pick_pgn(r)))
            ops.append('P')
            if r.random() < 0.3:
                ops.append('F')
        ops += ['A', 'P', 'T 3000', 'P']
        cases.append(line + ' | ' + ' ; '.join(ops))
    # 5. blocked bus with a small queue: answers that do not fit are dropped, product / configuration information is retried at
    #    now + 187 + 8 (10) * source ms: nothing one ms before, the whole message afterwards
    for _ in range(40 * N):
        ndev = r.choice([1, 1, 2, 3])
        q = r.choice([1, 2, 3, 5, 8, 12, 21, 40])
        line, ndev, src0, mode = cfg_line(r, ndev=ndev, q=q, src0=r.choice([0, 22, 100, 200, 240]), lists=False)
        own = [own_addr(src0, i) for i in range(ndev)]
        k = r.randrange(ndev)
        p = r.choice([126996, 126998, 126996, 126998, 126464, 60928, 127250])
        dst = r.choice([own[k], own[k], 255])
        delay = 187 + (8 if p == 126996 else 10) * own[k if dst != 255 else 0]
        ops = ['A ' + '0' * 150, req(r, 50, dst, p), 'P']
        if r.random() < 0.3:
            ops += [req(r, 50, own[k], 127250), 'P']
        ops += ['A', 'T %d' % (delay - 1), 'P', 'T 2', 'P', 'T %d' % (10 * 255 + 200), 'P', 'P']
        cases.append(line + ' | ' + ' ; '.join(ops))
    # 5b. two deferred answers of ONE device with different retry instants (product information: +187+8*source, configuration
    #     information: +187+10*source): the requests arrive `gap` ms apart in either order while the bus is blocked; the first retry that
    #     succeeds must not cancel the other one (seed C08-2: the per-device "has pending" gate recomputed from due instead of armed timers)
    for _ in range(30 * N):
        ndev = r.choice([1, 1, 2, 3])
        q = r.choice([1, 2, 3, 5, 8])
        line, ndev, src0, mode = cfg_line(r, ndev=ndev, q=q, src0=r.choice([0, 1, 22, 60, 100, 200, 240]), lists=False)
        own = [own_addr(src0, i) for i in range(ndev)]
        k = r.randrange(ndev)
        first, second = r.choice([(126996, 126998), (126998, 126996)])
        gap = r.choice([0, 1, 2, 10, 50, 100, 150, 2 * own[k], 2 * own[k] + 1, max(2 * own[k] - 1, 0), 300, 1000])
        hold = r.choice([0, 1, 30, 100])
        d1 = 187 + (8 if first == 126996 else 10) * own[k]
        d2 = gap + 187 + (8 if second == 126996 else 10) * own[k]
        ops = ['A ' + '0' * 150, req(r, 50, r.choice([own[k], 255]), first), 'P', 'T %d' % gap, req(r, 51, r.choice([own[k], 255]), second), 'P']
        if r.random() < 0.3:
            ops += [req(r, 50, own[k], r.choice([127250, 60928, 126464])), 'P']
        ops += ['T %d' % hold, 'A']
        now = gap + hold
        for due in sorted({d1, d2}):
            for tgt in (due - 1, due + 1):
                if tgt > now:
                    ops += ['T %d' % (tgt - now), 'P']
                    now = tgt
        ops += ['T %d' % (10 * 255 + 200), 'P', 'P', 'T 3000', 'P']
        cases.append(line + ' | ' + ' ; '.join(ops))
    # 5c. the answers without a request: the application calls the public senders (SendProductInformation, SendConfigurationInformation,
    #     SendTxPGNList / SendRxPGNList with a destination, SendIsoAddressClaim) and sets the device information at run time
    #     (SetDeviceInformation: the next address claims carry the new NAME fields); valid, negative and too large device indices; inside
    #     and outside claim windows; blocked bus with retries
    for _ in range(30 * N):
        line, ndev, src0, mode = cfg_line(r, ndev=r.choice([1, 2, 3]), mode=r.choice([1, 1, 2]))
        own = [own_addr(src0, i) for i in range(ndev)]
        ops = []
        for _k in range(r.randint(4, 9)):
            i = r.choice(list(range(ndev)) * 3 + [-1, ndev])
            x = r.random()
            if x < 0.2:
                ops.append('D %d %d %d %d %d %d' % (i, r.choice([4294967295, 0, 5, 2097151, 123456]), r.choice([255, 0, 130, 140]), r.choice([255, 0, 25, 75, 127]),
                                                    r.choice([65535, 0, 275, 2046, 2047]), r.choice([255, 0, 4, 7])))
                ops += [req(r, 50, r.choice(own + [255]), 60928), 'P']
            elif x < 0.35:
                ops.append('Q ac %d %d 0' % (r.choice([255, 50]), i))
            elif x < 0.5:
                ops.append('Q pi %d' % i)
            elif x < 0.65:
                ops.append('Q ci %d' % i)
            elif x < 0.8:
                ops.append('Q %s %d %d 0' % (r.choice(['tx', 'rx']), r.choice([255, 50, 77]), i))
            elif x < 0.88:
                ops += ['C %d' % r.randrange(ndev), 'T %d' % r.choice([0, 100, 249, 252])]
            elif x < 0.94:
                ops += ['A ' + '0' * r.choice([3, 30]), 'Q pi %d' % r.randrange(ndev), 'P', 'A', 'T %d' % (10 * 255 + 200), 'P', 'P']
            else:
                ops += [req(r, 51, r.choice(own + [255]), pick_pgn(r)), 'P']
            if r.random() < 0.4:
                ops.append('P')
        ops += ['A', 'T 3000', 'P', 'P']
        cases.append(line + ' | ' + ' ; '.join(ops))
    # 5d. product information configured several times, by strings and by pointer in any order (the latest call counts; seed C08-13), strings
    #     of 0..32 characters, requests in between
    for _ in range(12 * N):
        line, ndev, src0, mode = cfg_line(r, ndev=r.choice([1, 2]), mode=1, lists=False)
        own = [own_addr(src0, i) for i in range(ndev)]
        hx = lambda n: bytes(r.choice(b'ABCDEFGHabcdefgh0123456789 .-') for _ in range(n)).hex() or '-'
        ops = []
        for _k in range(r.randint(2, 5)):
            ops.append('K %s %s %s %s %s' % (r.choice('sp'), hx(r.choice([0, 1, 10, 31, 32])), hx(r.choice([0, 5, 32])), hx(r.choice([0, 5, 32])), hx(r.choice([0, 8, 32]))))
            if r.random() < 0.7:
                ops += [req(r, 50, r.choice(own + [255]), 126996), 'P']
        ops += [req(r, 51, own[-1], 126996), 'P', 'Q pi 0', 'T 3000', 'P']
        cases.append(line + ' | ' + ' ; '.join(ops))
    # 6. devices without a valid address (252, 253, 254): only the address claim may be sent
    #    (254 is not configured: Open() replaces the null address by a free one)
    for src0 in (252, 253, 250):
        for _ in range(N):
            line, ndev, _, mode = cfg_line(r, ndev=(1 if src0 == 253 else r.choice([1, 2])), src0=src0, q=40)
            ops = []
            for p in MANDATORY + [127250]:
                ops += [req(r, 50, src0, p), req(r, 50, 255, p), 'P']
            ops += ['T 5000', 'P']
            cases.append(line + ' | ' + ' ; '.join(ops))
    # 6b. no configuration information at all (the application cleared the three strings): a request for 126998 is refused to the
    #     requester, a broadcast request draws nothing; every device count, inside / outside claim windows, blocked bus
    for ndev in range(1, 10):
        for _ in range(1 if not thorough else 4):
            line, _, src0, mode = cfg_line(r, ndev=ndev)
            own = [own_addr(src0, i) for i in range(ndev)]
            ops = []
            for k in range(ndev):
                ops += [req(r, r.choice(requesters), own[k], 126998, ln=r.choice([3, 3, 8])), 'P']
            ops += [req(r, 51, 255, 126998), 'P', req(r, 51, 255, 126996), req(r, 52, own[0], 126996), 'P']
            k = r.randrange(ndev)
            ops += ['C %d' % k, 'T %d' % r.choice([0, 100, 249]), req(r, 50, own[k], 126998), req(r, 50, 255, 126998), 'P', 'T 252', req(r, 50, own[k], 126998), 'P']
            if r.random() < 0.5:
                ops += ['A ' + '0' * 60, req(r, 50, own[k], 126998), req(r, 50, 255, 126998), 'P', 'A', 'T 3000', 'P', 'P']
            cases.append(line + ' noconf=1 | ' + ' ; '.join(ops))
    # 6c. configuration information set by the application (SetConfigurationInformation): string lengths around the 70 character field
    #     limit, all three fields; the answer must carry exactly the configured strings (cut to 70 characters)
    def cstr(n):
        return bytes(r.choice(b'ABCDEFGHIJKLMNOPQRSTUVWXYZabcdefghijklmnopqrstuvwxyz0123456789 .,-/') for _ in range(n)).hex() or '-'
    lens = [0, 1, 2, 35, 68, 69, 70, 71, 72, 100]
    combos = [(70, 70, 70), (69, 70, 71), (71, 69, 70), (70, 71, 69), (0, 0, 70), (70, 0, 0), (0, 70, 0), (100, 100, 100), (1, 1, 1), (0, 0, 0)]
    combos += [(r.choice(lens), r.choice(lens), r.choice(lens)) for _ in range(6 if not thorough else 120)]
    for la, lb, lm in combos:
        line, ndev, src0, mode = cfg_line(r, ndev=r.choice([1, 2]), q=40, lists=False)
        own = [own_addr(src0, i) for i in range(ndev)]
        ops = [req(r, 50, own[0], 126998), 'P', req(r, 51, 255, 126998), 'P', req(r, 52, own[-1], 126998, ln=r.choice([3, 8])), 'P', 'T 3000', 'P']
        cases.append(line + ' conf=%s,%s,%s | ' % (cstr(la), cstr(lb), cstr(lm)) + ' ; '.join(ops))
    # ... and strings the application does not give at all (null pointers, ~): every subset of the three; whatever is given must be reported,
    # only a node without any string answers "not available" (seed C08-10)
    for mask in range(8):
        line, ndev, src0, mode = cfg_line(r, ndev=r.choice([1, 2]), q=40, lists=False)
        own = [own_addr(src0, i) for i in range(ndev)]
        ops = [req(r, 50, own[0], 126998), 'P', req(r, 51, 255, 126998), 'P', req(r, 52, own[-1], 126998, ln=r.choice([3, 8])), 'P', 'T 3000', 'P']
        f = [cstr(r.choice([1, 5, 30])) if mask & (1 << j) else '~' for j in range(3)]
        cases.append(line + ' conf=%s,%s,%s | ' % tuple(f) + ' ; '.join(ops))
    # 7. sweep of the requested PGN: every value of the low 16 bits and every value of the high 8 bits occurs (thorough tier);
    #    the quick tier samples the same sequence
    ks = range(0, 65536) if thorough else r.sample(range(0, 65536), 600)
    ks = list(ks)
    for c in range(0, len(ks), 150):
        line, ndev, src0, mode = cfg_line(r, ndev=r.choice([1, 2]), q=40, lists=False)
        ops = []
        chunk = ks[c:c + 150]
        for j in range(0, len(chunk), 15):
            for k in chunk[j:j + 15]:
                p = ((k * 251) & 255) << 16 | k
                ops.append(req(r, 50, r.choice([src0, src0, 255]), p))
            ops.append('P')
        cases.append(line + ' | ' + ' ; '.join(ops))
    # 8. a request behind a backlog: one ParseMessages call takes 20 frames, the 21st and later ones stay in the driver and are answered
    #    at the next call - a burst of requests, and a request behind ordinary traffic (seeds C08-18 / C03-17)
    from nodegen import backlog
    for k in ([19, 20, 21] if not thorough else list(range(12, 48))):
        line, ndev, src0, mode = cfg_line(r, ndev=1, mode=1, q=40, lists=False)
        p = r.choice([126996, 60928, 126998, 65300, 126464])
        cases.append(line + ' | ' + ' ; '.join(backlog(r, k, [req(r, 50, r.choice([src0, 255]), p)]) + ['T 300', 'P']))
    # 9. a contender with a higher NAME claims our address: the device defends and keeps it, so a request right afterwards is answered
    #    like any other (winning a conflict opens no claim window; seed C08-19)
    from nodegen import claim
    for _ in range(4 if not thorough else 60):
        line, ndev, src0, mode = cfg_line(r, ndev=r.choice([1, 2]), mode=r.choice([1, 2]), q=40, lists=False)
        k = r.randrange(ndev)
        own = (src0 + k) if src0 + ndev - 1 <= 251 else None
        if own is None:
            continue
        p = r.choice([126996, 65300, 126998, 126464, 60928])
        cases.append(line + ' | ' + ' ; '.join([claim(own, (1 << 64) - 1 - r.randrange(3)), 'P', 'T %d' % r.choice([0, 10, 100, 249]), req(r, 50, r.choice([own, 255]), p), 'P', 'T 300', 'P']))
    # 10. send buffers above 256 entries (7..9 devices x 40): the answers of every device to a broadcast request queued under a blocked driver,
    #     twice, so that the ring indices pass 255 with the read index away from 0 (seed C08-20)
    for nd in ([9] if not thorough else [7, 8, 9, 9]):
        line, ndev, src0, mode = cfg_line(r, ndev=nd, mode=1, q=40, src0=r.choice([20, 100]), lists=False)
        ops = []
        for _round in range(2):
            ops += ['A ' + '0' * 600, req(r, 50, 255, 126996), 'P', 'T 100', 'P', 'A', 'P', 'T 400', 'P', 'T 2500', 'P', 'T 2500', 'P']
        cases.append(line + ' | ' + ' ; '.join(ops))
    for nreq in ([25] if not thorough else [21, 22, 25, 41, 45]):
        line, ndev, src0, mode = cfg_line(r, ndev=1, mode=1, q=40, lists=False)
        cases.append(line + ' | ' + ' ; '.join([req(r, 50 + j, src0, 65300 + j) for j in range(nreq)] + ['P', 'T 5', 'P', 'T 5', 'P', 'T 300', 'P']))
    return cases


def nontrivial(case, mres):
    return ' tx:' in (' ' + mres) or 'note:iso' in mres


def check(run, replay=None):
    cases = vlib.read_replay(replay) if replay else vlib.corpus_lines('C08') + gen(run.seed, run.tier)
    run.cov['rule'] = ('per case one node (modes 1, 2 and the silent modes 0, 3, 4; 1..9 devices; first address 0..254; send buffer 1..40 x devices; application handler absent / accepting a subset / '
                       'declining; application transmit / receive lists up to 90 entries, i.e. beyond the 74 that fit) and a history of ISO requests (PGN 59904, DLC 0..8) from requesters 0, 50, 77, 251, 254, 255 and '
                       'own addresses, addressed to every device and broadcast, over requested PGN classes (the four mandatory, system, default lists, proprietary ranges, handler list, broadcast-ignore list, 0, '
                       '0xFFFFFF, neighbours of the mandatory PGNs, random 24-bit); requests 0..251+ ms after StartAddressClaim; driver refusing random frames with room in the queue; blocked bus with small '
                       'queues followed by the retry instants -1 / +1 ms; devices at addresses 252, 253; nodes without any configuration information (noconf=1), 1..9 devices.  Requested-PGN sweep: p = ((k*251 mod 256) << 16) | k, k = 0..65535, covers every value of the low 16 bits and '
                       'every value of the high 8 bits (thorough: all k; quick: 600 sampled k) - the full 2^24 enumeration is replaced by this stride because the extracted model processes lists in O(n); the theorems '
                       'quantify over all 2^24 values.  Model and C++ (both scheduler builds) are compared on every driver frame, handler call and the internal state; the oracle is an independent reference machine '
                       '(claim windows, retry timers, FIFO, gate) with the answer layouts from the published PGN definitions.  non-trivial = case in which the node sent something or the handler was called')
    for fs in (() if (replay and any(l.startswith('# family: conf-change-') for l in open(replay))) else ('w64', 'w32')):
        vlib.correspond(run, 'iso-' + fs, 'h_node', fs, 'NODE', cases, oracle, nontrivial, model_args=[fs])
    # configuration information changed at run time (a Command group function replaces one installation description of a node whose
    # application configured all three strings): the next answers to ISO requests for 126998 must carry the new description AND the
    # untouched strings.  Cases and oracle of the C09 development, model with the library's group function handlers.
    creplay = bool(replay) and any(l.startswith('# family: conf-change-') for l in open(replay))
    if creplay or not replay:
        import random, p_C09
        ccases = cases if creplay else p_C09.conf_change_cases(random.Random(run.seed * 9176 + 88), run.tier != 'quick')
        for fs in ('w64', 'w32'):
            vlib.correspond(run, 'conf-change-' + fs, 'h_node', fs, 'NODEGF', ccases, p_C09.oracle, p_C09.nontrivial, known=p_C09.known, model_args=[fs])
