# C15 - setter output follows the published NMEA 2000 field layout for the listed PGNs.
# Proof side: coq/Props/Properties_C15.v (layout_sound + the generated layout_<pgn> obligations against coq/Spec/RefLayouts.v).
# Tie: the C05 correspondence (same model family, same harness) on the setters of the listed PGNs, and - the property oracle - a direct
# comparison of the bytes the C++ setter produced with ref_encode: the reference table of RefLayouts.v run as an encoder in plain Python
# (exact rational arithmetic with the PUBLISHED resolution, not the library's double), including the fields the bit-level check of
# the Coq side cannot express (PGN list of 126464, interval of 126993, optional reference station record of 129029).
import os, re, random, math, struct
from fractions import Fraction
import vlib
import cxx2coq
import p_C05

META = p_C05.META
FN = p_C05.FN
NA = -1e9
PENDING_KNOWN = {
}


def load_reference():
    """parse the table of coq/Spec/RefLayouts.v:  Definition ref_<pgn> ... := [ (* <setter> *)  mk <off> <len> <kind> <arg> <argbit>; ... ]"""
    txt = open(os.path.join(vlib.COQ, 'Spec', 'RefLayouts.v')).read()
    res = {}
    for m in re.finditer(r'Definition (r_\w+) : res := \{\| r_num := (\d+); r_den := (\d+); r_bits := (\d+) \|\}', txt):
        res[m.group(1)] = (Fraction(int(m.group(2)), int(m.group(3))), int(m.group(4)))
    ref = {}
    for m in re.finditer(r'Definition ref_(\d+) : list reffield := \[\s*\(\* (\w+) \*\)(.*?)\]\.([^\n]*)', txt, flags=re.S):
        pgn, setter, body, after = int(m.group(1)), m.group(2), m.group(3), m.group(4)
        fields = []
        for fm in re.finditer(r'mk (\d+) (\d+) (IU|IS|KText|\((?:US|SS|QS) (r_\w+)\)|\(KSpecial (\d+)\)) (\d+) (\d+)[;\].]*\s*\(\*\s*(.*?)\s*\*\)', body + ']. ' + after):
            off, ln, kind = int(fm.group(1)), int(fm.group(2)), fm.group(3)
            f = {'off': off, 'len': ln, 'arg': int(fm.group(6)), 'argbit': int(fm.group(7)), 'name': fm.group(8).strip(' []')}
            if kind in ('IU', 'IS'):
                f['kind'] = 'int'
                f['signed'] = kind == 'IS'
            elif kind == 'KText':
                f['kind'] = 'text'
            elif kind.startswith('(KSpecial'):
                f['kind'] = 'special'
                f['tag'] = int(fm.group(5))
            else:
                f['kind'] = 'scaled'
                f['sign'] = {'US': False, 'SS': True, 'QS': None}[kind[1:3]]
                f['res'] = res[fm.group(4)][0]
                f['resname'] = fm.group(4)
            fields.append(f)
        ref[pgn] = {'setter': setter, 'fields': fields}
    return ref


REF = load_reference()


def get_bits(data, off, ln):
    v = int.from_bytes(data, 'little')
    return (v >> off) & ((1 << ln) - 1)


def rnd_half_away(q):
    n = abs(q)
    f = n.numerator // n.denominator
    if n - f >= Fraction(1, 2):
        f += 1
    return f if q >= 0 else -f


def check_scaled(f, v, code_u):
    """v: the double argument; code_u: the raw bits of the field.  None if the field carries what the published definition says"""
    ln, sg, r = f['len'], f['sign'], f['res']
    if math.isnan(v) or math.isinf(v):
        return None                                  # C06's business: what is stored for NaN / infinity
    full = (1 << ln) - 1
    na_u, na_s = full, (1 << (ln - 1)) - 1
    if v == NA:
        ok = code_u in ((na_u,) if sg is False else (na_s,) if sg is True else (na_u, na_s))
        return None if ok else '"not available" is stored as %#x' % code_u
    q = Fraction(v) / r
    for signed in ((False, True) if sg is None else (sg,)):
        lo = -(1 << (ln - 1)) if signed else 0
        orc = ((1 << (ln - 1)) if signed else (1 << ln)) - 2
        code = code_u - (1 << ln) if (signed and code_u >= (1 << (ln - 1))) else code_u
        if sg is None and not (0 <= q <= (1 << (ln - 1)) - 2):
            return None                              # signedness uncertain: only the common code range is constrained
        tol = abs(q) * Fraction(1, 2 ** 50) + Fraction(1, 10 ** 9)
        if lo <= q <= orc - 1:
            lim = Fraction(1) if ln == 64 else Fraction(1, 2)
            if abs(Fraction(code) - q) <= lim + tol and code != orc + 1:
                return None
        elif q < lo - 1 or q > orc + 1:
            if code == orc:
                return None
        else:
            if code == orc or abs(Fraction(code) - q) <= Fraction(1) + tol:
                return None
    return 'value %r with resolution %s stored as code %#x' % (v, f['resname'], code_u)


def oracle(case, res):
    t = case.split()
    if res.startswith('crash'):
        return 'undefined-behaviour:%s %s' % (t[1], res)
    if t[0] != 'S':
        return None
    s = FN[t[1]]
    m = re.fullmatch(r'k\S+ S (\d+) (\d+) (\d+) (\d+) (\S+)', res)
    if not m:
        return 'harness:unparsable result'
    pgn = int(m.group(1))
    r = REF.get(pgn)
    data = b'' if m.group(5) == '-' else bytes.fromhex(m.group(5))
    names = [x['name'] for x in s['ins']]
    if pgn == 127489 and r is not None and all(b in names for b in p_C05.STATUS1_BITS + p_C05.STATUS2_BITS):
        # the one-bool-per-bit overload / alias: each flag sits on its bit of discrete status 1 (16 bits at bit 160) / 2 (at bit 176), in the
        # order of the published field list
        args = [p_C05.parse_arg(x) for x in t[2:]]
        for word, bits in (('status 1', p_C05.STATUS1_BITS), ('status 2', p_C05.STATUS2_BITS)):
            f = [x for x in r['fields'] if x['name'] == word][0]
            exp = sum((1 << k) for k, b in enumerate(bits) if args[names.index(b)])
            got = get_bits(data, f['off'], f['len']) if f['off'] + f['len'] <= 8 * len(data) else None
            if got != exp:
                return 'PGN127489.%s:flags %s written as %s, expected %#x' % (word.replace(' ', '_'), [b for b in bits if args[names.index(b)]], hex(got) if got is not None else 'nothing', exp)
        return None
    if r is None or r['setter'] != s['name']:
        return None
    args = [p_C05.parse_arg(x) for x in t[2:]]
    for f in r['fields']:
        key = 'PGN%d.%s' % (pgn, re.sub(r'[^A-Za-z0-9]+', '_', f['name']))
        a = args[f['arg']] if f['arg'] < len(args) else None
        k = f['kind']
        if k == 'special':
            w = special(pgn, f, args, data)
            if w:
                return '%s:%s' % (key, w)
            continue
        if f['off'] + f['len'] > 8 * len(data):
            return '%s:field beyond the %d byte payload' % (key, len(data))
        got = get_bits(data, f['off'], f['len'])
        if k == 'int':
            x = s['ins'][f['arg']]
            lo, hi = p_C05.int_range(x)
            exp = (a >> f['argbit']) & ((1 << f['len']) - 1)
            if got != exp:
                return '%s:argument %d written as %#x at bit %d (u%d), expected %#x' % (key, a, got, f['off'], f['len'], exp)
        elif k == 'scaled':
            w = check_scaled(f, p_C05.bd(a), got)
            if w:
                return '%s:%s' % (key, w)
        elif k == 'text':
            if any(c < 0x20 or c > 0x7e for c in a):
                continue
            n = f['len'] // 8
            o = f['off'] // 8
            e = a[:n]
            if data[o:o + len(e)] != e:
                return '%s:text %r written as %r' % (key, a, data[o:o + n])
    return None


def special(pgn, f, args, data):
    tag = f['tag']
    if tag == 1:                                    # PGN list: u24 at 8 + 24*i
        lst = []
        for x in args[f['arg']]:
            if x == 0:
                break
            lst.append(x)
        exp = b''.join((x & 0xffffff).to_bytes(3, 'little') for x in lst)
        if data[1:] != exp:
            return 'PGN list %r written as %s' % (lst, data[1:].hex())
    elif tag == 2:                                  # interval in ms into a field of 10 ms
        ms = args[f['arg']]
        got = get_bits(data, f['off'], f['len'])
        if ms <= 655320:
            if ms % 10 == 0:
                if got != ms // 10:
                    return 'interval %d ms written as %d units of 10 ms' % (ms, got)
            elif got not in (ms // 10, ms // 10 + 1):
                return 'interval %d ms written as %d units of 10 ms' % (ms, got)
        elif ms > 655330 and got not in (0xfffe, 0xffff):
            return 'interval %d ms (not representable) written as %#x' % (ms, got)
    elif tag == 4:                                  # optional reference station record of 129029
        n = args[12]
        if len(data) < 43:
            return 'payload too short'
        cnt = data[42]
        if n in (0, 255):
            if f['off'] == 336 and (cnt != n or len(data) != 43):
                return 'no reference station: count byte %d, %d payload bytes' % (cnt, len(data))
            return None
        if f['off'] == 336:
            if cnt < 1 or len(data) != 43 + 4 * cnt:
                return '%d reference stations: count byte %d with %d payload bytes' % (n, cnt, len(data))
            return None
        if f['off'] + f['len'] > 8 * len(data):
            return 'reference station record missing'
        got = get_bits(data, f['off'], f['len'])
        a = args[f['arg']]
        if f['off'] in (344, 348):
            if got != a & ((1 << f['len']) - 1):
                return 'argument %d written as %#x' % (a, got)
        else:
            return check_scaled({'len': 16, 'sign': False, 'res': Fraction(1, 100), 'resname': 'r_1e_2'}, p_C05.bd(a), got)
    return None


def gen(seed, tier):
    r = random.Random(seed * 7919 + 15)
    thorough = tier != 'quick'
    per = 400 if not thorough else 6000
    cases = []
    for pgn in cxx2coq.C15_PGNS:
        ref = REF.get(pgn)
        if not ref or ref['setter'] not in FN:
            continue
        f = FN[ref['setter']]
        if not f['harness']:
            continue
        for tup in p_C05.tuples(r, f, per, thorough):
            cases.append(('S %s %s' % (f['name'], ' '.join(p_C05.tok(x, v) for x, v in zip(f['ins'], tup)))).rstrip())
    # the one-bool-per-bit overload and alias of PGN 127489: every flag alone, all but one, random patterns
    flags = p_C05.STATUS1_BITS + p_C05.STATUS2_BITS
    for f in p_C05.META['functions']:
        if f['kind'] == 'S' and f['harness'] and all(b in [x['name'] for x in f['ins']] for b in flags):
            names = [x['name'] for x in f['ins']]
            base = p_C05.tuples(r, f, 1, thorough)[0]
            pats = [[b == f1 for b in flags] for f1 in flags] + [[b != f1 for b in flags] for f1 in flags] + [[r.random() < 0.5 for _ in flags] for _ in range(8)]
            for pat in pats:
                tup = list(base)
                for b, v in zip(flags, pat):
                    tup[names.index(b)] = 1 if v else 0
                cases.append(('S %s %s' % (f['name'], ' '.join(p_C05.tok(x, v) for x, v in zip(f['ins'], tup)))).rstrip())
    return cases


def known(case, what):
    key = what.split(':')[0]
    if key in PENDING_KNOWN:
        return PENDING_KNOWN[key]
    for k in vlib.known_findings('C15'):
        if key == k['key'] or what.startswith(k['key']):
            return k['line']
    return None


def check(run, replay=None):
    exe, err = p_C05.prepare_harness()
    if exe is None:
        run.broken.append('harness h_msgs does not build against the current /repo/src: %s' % (err or '')[-1500:])
        return
    missing = [p for p in cxx2coq.C15_PGNS if p not in REF or REF[p]['setter'] not in FN or not FN[REF[p]['setter']]['translated']]
    if missing:
        run.broken.append('listed PGNs without a translated setter / reference layout: %s' % missing)
    # the enumerators an application names (N2kWind_True_boat ...) against the published code table: the packing code cannot show a
    # renumbered enumeration, because it writes whatever value the name has (seed C15-17)
    # (the published table lives in coq/Spec/RefEnums.v, where C15_enumerator_codes proves it against the generated Gen/GenEnums.v; this
    #  reading of the same table gives the concrete enumerator as replay when that obligation breaks)
    spec = open(os.path.join(vlib.COQ, 'Spec', 'RefEnums.v')).read()
    spec = spec[spec.index('Definition ref_enum_codes'):spec.index('Fixpoint assoc')]
    codes = {t: {n: int(v) for n, v in re.findall(r'\("(\w+)", (-?\d+)\)', body)} for t, body in re.findall(r'\("(\w+)", \[(.*?)\]\)', spec)}
    now = {t: dict((n, v) for n, v in vals) for t, vals in META.get('enums', {}).items()}
    bad = ['%s::%s is %s in src/N2kTypes.h, the published code is %d' % (t, n, now.get(t, {}).get(n, 'missing'), v)
           for t, tab in sorted(codes.items()) for n, v in sorted(tab.items()) if now.get(t, {}).get(n) != v]
    run.cov['enumerator_codes'] = {'types': len(codes), 'enumerators': sum(len(t) for t in codes.values()), 'mismatches': len(bad)}
    if bad:
        enum_replay = bool(replay) and any(l.startswith('ENUM ') for l in vlib.read_replay(replay))
        if not replay or enum_replay:
            run.violation(vlib.write_replay(run.pid, 'enumerators-%d' % run.seed, {'property': run.pid, 'family': 'enumerators', 'seed': run.seed,
                          'failed': 'published enumerator codes (coq/Spec/RefEnums.v) against the enumerator values clang reads from the source',
                          'what': 'enum:' + '; '.join(bad[:8])}, ['ENUM ' + b for b in bad]))
    if replay and any(l.startswith('ENUM ') for l in vlib.read_replay(replay)):
        return          # the replay of an enumerator finding is the table comparison above
    # what an application gets when it leaves an argument out: the default arguments of the setters / parsers, as values (seed C15-21)
    import defaults_probe
    defaults_probe.check(run, replay)
    if replay and any(l.startswith('DEFAULT ') for l in vlib.read_replay(replay)):
        return
    ob = META.get('obligations', {})
    lay = ob.get('layout', [])
    built = run.cov['discharged'] == run.cov['obligations'] and run.cov['obligations'] > 0
    n = sum(1 for x in lay if x['status'] == 'proved')
    run.cov['generated_obligations'] = {'file': 'coq/Gen/GenObligations.v: layout_<pgn> : layout_matches s_<setter> ref_<pgn> = true, closed by vm_compute',
                                        'count': len(lay), 'discharged': n if built else 0, 'not_provable': [x['pgn'] for x in lay if x['status'] != 'proved']}
    run.cov['obligations'] += len(lay)
    run.cov['discharged'] += n if built else 0
    nf = sum(len(v['fields']) for v in REF.values())
    run.cov['reference'] = {'pgns': len(REF), 'fields': nf, 'fields_checked_by_theorem': sum(1 for v in REF.values() for f in v['fields'] if f['kind'] != 'special'),
                            'fields_compared_on_the_implementation_only': ['PGN%d %s' % (p, f['name']) for p, v in sorted(REF.items()) for f in v['fields'] if f['kind'] == 'special']}
    cases = vlib.read_replay(replay) if replay else vlib.corpus_lines('C15') + gen(run.seed, run.tier)
    run.cov['rule'] = ('per listed PGN: the setter on argument tuples from the C05 pools (boundary codes lowest, -1, 0, 1, OR-1, OR, NA, beyond the range, quarter and half steps, random; every enumerator '
                       'and bit pattern of packed fields; text of length 0, width-1, width, width+1; PGN lists of 0..20 entries); model (IR interpreter) and C++ compared bit-exactly; the oracle '
                       'decodes every field of coq/Spec/RefLayouts.v from the bytes the C++ produced and compares it with the argument: integers bit for bit, scaled fields against the exact quotient '
                       'argument / published resolution (nearest code; out-of-range and NA codes), text left aligned, the PGN list of 126464, the 10 ms interval of 126993, the optional reference '
                       'station record of 129029.  non-trivial = every case')
    run.assumptions += ['the reference table is my transcription of the public field definitions (DESIGN.md Appendix A); signedness marked "?" there constrains only codes below 2^(N-1)-1',
                        'the IEEE rounding of argument/resolution is tolerated by the oracle (2^-50 relative); NaN and infinity arguments are not judged here (C06)']
    preplay = bool(replay) and any(l.startswith('# family: prodinfo-progmem-') for l in open(replay))
    if not preplay:
        vlib.correspond(run, 'layouts', 'h_msgs', 'w64', 'C05', cases, oracle, None, canon=p_C05.canon, known=known)
    # PGN 126996 as a node builds it from a tProductInformation the application hands over by pointer (SetN2kPGN126996Progmem, the one
    # 126996 setter outside the translated subset; also used for the library's default product information): answers to ISO requests on a
    # node configured with strings of 0..32 characters (32 = the whole field), decoded against the published layout (seed C15-11)
    if preplay or not replay:
        node_families(run, replay, cases, preplay)


def node_families(run, replay, cases, preplay):
    """the node-level families of this check (product information by pointer, NAME from run-time configuration); also run by C05"""
    import random
    from nodesim import parse_case, parse_result, ref_fp_decode
    r = random.Random(run.seed * 7919 + 1515)

    def hx(n):
        return bytes(r.choice(b'ABCDEFGHIJKLMNOPQRSTUVWXYZabcdefghijklmnopqrstuvwxyz0123456789 .-/') for _ in range(n)).hex() or '-'
    pcases = []
    if preplay:
        pcases = cases
    else:
        combos = [(32, 32, 32, 32), (31, 32, 1, 0), (0, 0, 0, 32), (32, 0, 31, 5), (1, 2, 3, 4)] + [tuple(r.choice([0, 1, 15, 30, 31, 32]) for _ in range(4)) for _ in range(6 if run.tier == 'quick' else 200)]
        for c in combos:
            key = r.choice(['pprod', 'pprod', 'prod'])
            pcases.append('NODE mode=1 ndev=1 src=%d q=40 slots=5 t0=5000 %s=%s | R 18ea%02x32 3 14f001 ; P ; R 18eaff33 3 14f001 ; P' % (
                r.choice([22, 0, 100]), key, ','.join(hx(n) for n in c), 0))
        pcases = [c.replace('18ea0032', '18ea%02x32' % int(c.split('src=')[1].split()[0])) for c in pcases]
        # the strings set a second time at run time, some of them left out (null pointer): a field that is not given is empty, whatever an
        # earlier call had stored there (seed C15-23)
        for _ in range(4 if run.tier == 'quick' else 40):
            own = r.choice([22, 100])
            second = [r.choice(['~', '~', '-', hx(r.choice([1, 10, 32]))]) for _k in range(4)]
            pcases.append('NODE mode=1 ndev=1 src=%d q=40 slots=5 t0=5000 prod=%s | R 18ea%02x32 3 14f001 ; P ; K s %s ; R 18ea%02x32 3 14f001 ; P ; T 300 ; P' % (
                own, ','.join(hx(n_) for n_ in (20, 9, 12, 8)), own, ' '.join(second), own))

    def prod_oracle(case, res):
        if res.startswith('crash') or res.startswith('oob'):
            return 'memory:' + res
        v = [t.split('=', 1)[1] for t in case.split('|')[0].split() if t.startswith('pprod=') or t.startswith('prod=')][0].split(',')
        s = [bytes.fromhex(x) if x != '-' else b'' for x in v]
        fld = lambda b: list(b[:32]) + [0xff] * (32 - len(b[:32]))
        want = [2101 & 255, 2101 >> 8, 666 & 255, 666 >> 8] + fld(s[0]) + fld(s[1]) + fld(s[2]) + fld(s[3]) + [0, 1]
        per_op, _st = parse_result(res)
        n = 0
        opl = [o.split() for o in case.split('|', 1)[1].split(';')]
        for k_, evs in enumerate(per_op):
            if k_ < len(opl) and opl[k_] and opl[k_][0] == 'K' and len(opl[k_]) >= 6:
                # SetProductInformation again at run time (strings; ~ = not given, the field is then empty): the latest call counts, whole
                s = [bytes.fromhex(x) if x not in ('-', '~') else b'' for x in opl[k_][2:6]]
                want = [2101 & 255, 2101 >> 8, 666 & 255, 666 >> 8] + fld(s[0]) + fld(s[1]) + fld(s[2]) + fld(s[3]) + [0, 1]
            fr = [e[3] for e in evs if e[0] == 'tx' and ((e[1] >> 8) & 0x1ffff) == 126996]
            if not fr:
                continue
            try:
                _sid, payload = ref_fp_decode(fr)
            except (ValueError, IndexError) as ex:
                return 'PGN126996.frames:%s' % ex
            n += 1
            if payload != want:
                k = next((i for i in range(min(len(payload), len(want))) if payload[i] != want[i]), min(len(payload), len(want)))
                return 'PGN126996.product_information:byte %d of the answer is %s, the published layout with the configured strings has %s (length %d / %d)' % (
                    k, '%02x' % payload[k] if k < len(payload) else '-', '%02x' % want[k] if k < len(want) else '-', len(payload), len(want))
        nreq = sum(1 for o in opl if o and o[0] == 'R' and o[1].lower().startswith('18ea'))
        return None if n == nreq else 'PGN126996.answers:%d answers to %d requests' % (n, nreq)
    # PGN 60928 as a node builds it from the device information the application sets at run time: SetDeviceInformation (unique number,
    # function, class, manufacturer code, industry group) and SetDeviceInformationInstances (device instance lower / upper, system
    # instance; one call may give all three), then SendIsoAddressClaim: the NAME on the bus decoded against the published bit layout (seed C15-13)
    if not preplay:
        for _ in range(14 if run.tier == 'quick' else 300):
            ndev = r.choice([1, 2])
            i = r.randrange(ndev)
            ops = []
            nops = r.randint(1, 4)
            for _k in range(nops):
                # both orders of the two configuration calls matter: each writes part of a byte the other one owns (system instance /
                # industry group share NAME byte 7, seed C15-18); the call that only refreshes the unique number uses the header's defaults
                if (r.random() < 0.5 and not (_ >= 4 and _ < 8)) or (4 <= _ < 8 and _k == 0):
                    ops.append('I %d %d %d %d' % (i, r.choice([255, 0, 1, 5, 7]), r.choice([255, 0, 1, 3, 31]), r.choice([255, 0, 2, 15, 8, 9]) if not 4 <= _ < 8 else r.choice([8, 9, 15, 12])))
                elif r.random() < 0.3 or 4 <= _ < 8:
                    ops.append('D %d %d 255 255 65535 4' % (i, r.choice([54321, 1, 2097151])))
                else:
                    ops.append('D %d %d %d %d %d %d' % (i, r.choice([4294967295, 0, 1, 2097151, 123456]), r.choice([255, 0, 130, 200]), r.choice([255, 0, 25, 127]), r.choice([65535, 0, 275, 2047]), r.choice([255, 0, 4, 7])))
                ops.append('Q ac 255 %d 0' % i)
            pcases.append('NODE mode=1 ndev=%d src=%d q=40 slots=5 t0=5000 | %s' % (ndev, r.choice([22, 100]), ' ; '.join(ops)))

    def name_oracle(case, res):
        if res.startswith('crash') or res.startswith('oob'):
            return 'memory:' + res
        head, opss = case.split('|', 1)
        kv = dict(x.split('=', 1) for x in head.split()[1:] if '=' in x)
        ndev = int(kv['ndev'])
        # the library's defaults: unique number 1+i, manufacturer 2046, instances 0, function 130, class 25, industry group 4
        f = [dict(uq=1 + j, mf=2046, lo=0, up=0, fn=130, cl=25, si=0, ig=4) for j in range(ndev)]
        per_op, _st = parse_result(res)
        for k, (o, evs) in enumerate(zip([x.split() for x in opss.split(';')], per_op)):
            if not o:
                continue
            if o[0] == 'I':
                j, lo_, up_, si_ = (int(x) for x in o[1:5])
                if lo_ != 255: f[j]['lo'] = lo_ & 7
                if up_ != 255: f[j]['up'] = up_ & 31
                if si_ != 255: f[j]['si'] = si_ & 15
            elif o[0] == 'D':
                j, uq, fn, cl, mf, ig = (int(x) for x in o[1:7])
                if uq != 4294967295: f[j]['uq'] = uq & 0x1fffff
                if fn != 255: f[j]['fn'] = fn
                if cl != 255: f[j]['cl'] = cl & 0x7f
                if mf != 65535: f[j]['mf'] = mf & 0x7ff
                if ig != 255: f[j]['ig'] = ig & 7
            elif o[0] == 'Q' and o[1] == 'ac':
                j = int(o[3])
                fr = [e for e in evs if e[0] == 'tx' and ((e[1] >> 8) & 0x1ff00) == 60928]
                if len(fr) != 1 or len(fr[0][3]) != 8:
                    return 'PGN60928.frames:op %d: %d address claim frame(s)' % (k, len(fr))
                nm = int.from_bytes(bytes(fr[0][3]), 'little')
                g = f[j]
                got = dict(uq=nm & 0x1fffff, mf=(nm >> 21) & 0x7ff, lo=(nm >> 32) & 7, up=(nm >> 35) & 31, fn=(nm >> 40) & 0xff, cl=(nm >> 49) & 0x7f, si=(nm >> 56) & 15, ig=(nm >> 60) & 7)
                for key, label in (('uq', 'unique_number'), ('mf', 'manufacturer_code'), ('lo', 'device_instance_lower'), ('up', 'device_instance_upper'), ('fn', 'device_function'),
                                   ('cl', 'device_class'), ('si', 'system_instance'), ('ig', 'industry_group')):
                    if got[key] != g[key]:
                        return 'PGN60928.%s:op %d: the address claim carries %d, the application set %d (NAME %016x)' % (label, k, got[key], g[key], nm)
                if (nm >> 48) & 1 or not (nm >> 63) & 1:
                    return 'PGN60928.reserved:op %d: reserved bit / arbitrary-address-capable bit wrong in NAME %016x' % (k, nm)
        return None

    # PGN 126993 as a node builds it (through the inline alias SetHeartbeat of NMEA2000.h) from the interval the application configured: intervals
    # above 65535 ms, field in units of 10 ms (seed C15-19)
    if not preplay:
        for iv in ([65540, 120000, 655320] if run.tier == 'quick' else [65536, 65540, 70000, 120000, 300000, 655320, 655310]):
            pcases.append('NODE mode=1 ndev=1 src=22 q=40 slots=5 t0=5000 hb=1 | H %d 0 ; T %d ; P ; T %d ; P ; T %d ; P' % (iv, iv + 5, iv, iv))

    def hb_oracle(case, res):
        if res.startswith('crash') or res.startswith('oob'):
            return 'memory:' + res
        iv = int(case.split('|')[1].split(';')[0].split()[1])
        per_op, _st = parse_result(res)
        seen = 0
        for evs in per_op:
            for e in evs:
                if e[0] == 'tx' and ((e[1] >> 8) & 0x1ffff) == 126993:
                    seen += 1
                    fld = e[3][0] | e[3][1] << 8
                    if len(e[3]) != 8 or fld != iv // 10:
                        return 'PGN126993.interval:the heartbeat of a node configured with %d ms states %d (x 10 ms), the published field holds %d' % (iv, fld, iv // 10)
        return None if seen >= 2 else 'PGN126993.frames:%d heartbeats in three intervals' % seen

    def node_oracle(case, res):
        head = case.split('|')[0]
        return prod_oracle(case, res) if ('prod=' in head) else hb_oracle(case, res) if ' hb=1' in head else name_oracle(case, res)
    for fs in ('w64', 'w32'):
        vlib.correspond(run, 'prodinfo-progmem-' + fs, 'h_node', fs, 'NODE', pcases, node_oracle, None, model_args=[fs])
