# C11 - send queue under back-pressure: generator (exhaustive accept/refuse patterns + random long), FIFO-machine oracle, correspondence
import random, itertools
import vlib
from nodesim import *


def fp_encode(sid, data):
    n = len(data)
    frames = [[sid << 5, n] + data[:6] + [0xff] * (6 - min(6, n))]
    rest = data[6:]
    k = 1
    while rest:
        chunk = rest[:7]
        frames.append([sid << 5 | k] + chunk + [0xff] * (7 - len(chunk)))
        rest = rest[7:]
        k += 1
    return frames


def smsg(r, idev, pgn, n):
    data = bytes(r.randrange(256) for _ in range(n))
    return 'S %d %d %d 0 255 0 %s' % (idev, r.choice([2, 3, 6]), pgn, data.hex() or '-')


SINGLE = [127250, 127488, 129025, 130306]
FAST = [129029, 127489, 128275]


def large_queue_cases(r, thorough):
    cases = []
    # large queues (7..9 devices x 40, or an explicit size above 256 / near the uint16_t range): more than 256 frames queued under a long
    # refusal, then drained - the ring indices are 16 bit wide in the code
    # early=1: Open() is the first call that creates the device table (the ring must be allocated with the size it is used with)
    for ndev, q, nmsg, early in ([(7, 40, 9, 0), (1, 300, 10, 0), (2, 40, 3, 1), (3, 5, 2, 1), (9, 2, 2, 1)] + ([(9, 40, 12, 0), (1, 1000, 33, 0), (1, 65535, 40, 0), (2, 20000, 60, 0), (9, 40, 12, 1)] if thorough else [])):
        cfg = 'NODE mode=1 ndev=%d src=30 q=%d t0=5000%s %s' % (ndev, q, ' early=1' if early else '', ' '.join('tx%d=%s' % (i, ','.join(map(str, FAST))) for i in range(ndev)))
        ops = ['A ' + '0' * (nmsg * 33 + 50)]
        for k in range(nmsg):
            ops.append(smsg(r, k % ndev, r.choice(FAST), r.choice([223, 223, 200, 150])))
            if k % 5 == 4:
                ops.append('F')
        ops += ['A ' + '1' * 100 + '0' * 7, 'F', smsg(r, 0, 127250, 8), 'A', 'F', smsg(r, 0, 129029, 30), 'F']
        cases.append(cfg + ' | ' + ' ; '.join(ops))
    return cases


def gen(seed, tier):
    r = random.Random(seed * 31337 + 11)
    thorough = tier != 'quick'
    cases = []
    L = 10 if not thorough else 13
    # exhaustive accept/refuse patterns over fixed operation templates with small queues
    templates = [
        (1, 2, lambda: [smsg(r, 0, 127250, 8), smsg(r, 0, 129029, 20), 'F', smsg(r, 0, 127488, 8), 'F', 'F']),
        (1, 3, lambda: [smsg(r, 0, 129029, 13), smsg(r, 0, 129029, 14), smsg(r, 0, 129025, 8), 'F', smsg(r, 0, 128275, 9), 'F']),
        (2, 2, lambda: [smsg(r, 0, 127489, 26), smsg(r, 1, 127489, 8), 'F', smsg(r, 1, 130306, 6), smsg(r, 0, 127250, 8), 'F', 'F']),
    ]
    for ndev, q, mk in templates:
        ops = mk()
        cfg = 'NODE mode=1 ndev=%d src=30 q=%d t0=5000 %s' % (ndev, q, ' '.join('tx%d=%s' % (i, ','.join(map(str, FAST))) for i in range(ndev)))
        for ln in range(0, L + 1):
            if not thorough and ln not in (0, 1, 2, 3, 5, 7, L):
                continue
            for pat in itertools.product('01', repeat=ln):
                cases.append('%s | A %s ; %s' % (cfg, ''.join(pat), ' ; '.join(ops)))
    # random long histories: queue sizes from the minimum upward, 1..9 devices, refusals starting mid fast packet, polling at arbitrary points
    for _ in range(150 if not thorough else 3000):
        ndev = r.choice([1, 1, 2, 3, 9])
        q = r.choice([0, 1, 2, 2, 3, 4, 7, 40])
        cfg = 'NODE mode=%d ndev=%d src=%d q=%d t0=%d%s %s' % (r.choice([1, 2, 4]), ndev, r.choice([0, 30, 200]), q, r.choice([5000, 4294967000]), r.choice(['', '', ' early=1']),
                                                            ' '.join('tx%d=%s' % (i, ','.join(map(str, FAST))) for i in range(ndev)))
        ops = []
        claimed = []
        for _k in range(r.randint(5, 40)):
            x = r.random()
            if claimed and _k > 0 and ops and ops[-1].startswith('S %d ' % claimed[-1]):
                ops.pop()          # (a send of the claiming device: refused by the claim window, not a queue matter)
            if x < 0.23:
                p = r.random()
                pat = ''.join('1' if r.random() < p else '0' for _ in range(r.randint(0, 30)))
                ops.append('A ' + pat)
            elif x < 0.27:
                ops.append('Z %d %d' % (r.choice([0, 0, 0, 1, 2, 3]), r.choice([1, 2, 3, 5, 6, 250])))      # late sizing call: no effect
            elif x < 0.38:
                ops.append('F')
            elif x < 0.45:
                ops.append('P')          # a poll with frames waiting and the driver still refusing: nothing but the waiting frames is offered (seed C11-19)
            elif x < 0.47 and ndev >= 1 and not claimed:
                # an address claim produced while frames wait (StartAddressClaim): it takes its place in the queue like any other frame (seed
                # C11-23); afterwards that device sends nothing but claims, so its later sends are left out of this history
                claimed.append(r.randrange(ndev))
                ops.append('C %d' % claimed[-1])
            elif x < 0.5:
                # pass-through send (device index -1): the frame keeps the message's own source, also while it waits in the queue (seed C11-21)
                ops.append(smsg(r, -1, r.choice(SINGLE + FAST), r.choice([8, 9, 20])).replace(' 0 255 0 ', ' %d 255 0 ' % r.choice([77, 5, 200]), 1))
            elif x < 0.7:
                ops.append(smsg(r, r.randrange(ndev), r.choice(SINGLE), r.choice([0, 1, 8])))
            else:
                ops.append(smsg(r, r.randrange(ndev), r.choice(FAST), r.choice([5, 9, 13, 14, 30, 100, 223])))
        cases.append(cfg + ' | ' + ' ; '.join(ops))
    # runs of frames with the SAME identifier and length and different data, queued one after the other under back-pressure (a periodic PGN
    # repeated, ISO-TP data packets, repeated acknowledgements): every one of them reaches the driver, in order (seed C11-15)
    for _ in range(20 if not thorough else 300):
        ndev = r.choice([1, 2])
        cfg = 'NODE mode=1 ndev=%d src=30 q=%d t0=5000 tx0=129029' % (ndev, r.choice([3, 5, 8, 40]))
        pgn, pri, n, idev = r.choice(SINGLE), r.choice([2, 3, 6]), r.choice([8, 8, 3, 0]), r.randrange(ndev)
        rep = lambda: 'S %d %d %d 0 255 0 %s' % (idev, pri, pgn, bytes(r.randrange(256) for _ in range(n)).hex() or '-')
        ops = ['A ' + '0' * r.choice([3, 8, 30])]
        for _k in range(r.randint(3, 7)):
            ops.append(rep())
            if r.random() < 0.25:
                ops.append(smsg(r, r.randrange(ndev), r.choice(SINGLE + FAST), r.choice([8, 9, 20])))
            if r.random() < 0.2:
                ops.append('F')
        ops += ['A', 'F', rep(), rep(), 'F']
        cases.append(cfg + ' | ' + ' ; '.join(ops))
    # a run-time SetMode to listen-only and back while frames wait in the queue: frames whose send was reported successful still leave, in
    # order, once (the queue is not part of the mode; seed C11-18) - sends made while listen-only are refused and queue nothing
    for _ in range(16 if not thorough else 300):
        ndev = r.choice([1, 2])
        mode = r.choice([1, 2])
        cfg = 'NODE mode=%d ndev=%d src=30 q=%d t0=5000 tx0=129029' % (mode, ndev, r.choice([3, 5, 8, 40]))
        ops = ['A ' + ''.join(r.choice('0001') for _ in range(r.choice([2, 6, 12])))]
        for _k in range(r.randint(1, 3)):
            ops.append(smsg(r, r.randrange(ndev), r.choice(SINGLE + FAST), r.choice([8, 9, 20])))
        ops.append('M 0 30')
        for _k in range(r.randint(0, 2)):
            ops.append(r.choice(['F', smsg(r, 0, r.choice(SINGLE), 8)]))
        ops += ['A ' + ''.join(r.choice('01') for _ in range(r.choice([0, 2, 5]))), 'F', 'M %d 30' % mode, smsg(r, 0, r.choice(FAST), 20), 'A', 'F', 'F']
        cases.append(cfg + ' | ' + ' ; '.join(ops))
    cases += large_queue_cases(r, thorough)
    return cases


def oracle(case, res):
    """the FIFO machine of capacity max-1 fed with the same driver answers"""
    if res.startswith('crash'):
        return 'memory:' + res
    cfg, ops = parse_case(case)
    per_op, state = parse_result(res)
    ndev, src0, q = cfg['ndev'], cfg['src'], cfg['q']
    cap = q * ndev - 1 if q * ndev >= 1 else 0
    pending = []
    answers = []
    seq = {}
    mode = cfg['mode']
    claiming = set()
    NAME0 = 0xc0328200ffc00001

    def nxt():
        return answers.pop(0) if answers else True

    def flush(evs):
        while pending:
            a = nxt()
            evs.append(('tx',) + pending[0] + (a,))
            if a:
                pending.pop(0)
            else:
                return False
        return True

    for k, (o, got) in enumerate(zip(ops, per_op)):
        exp = []
        if not o:
            continue
        if o[0] == 'A':
            answers = [c == '1' for c in (o[1] if len(o) > 1 else '')]
        elif o[0] in ('F', 'P'):
            # (P: ParseMessages of an opened node without received frames, pending information or heartbeat: SendFrames and nothing else)
            if q > 0:
                flush(exp)
        elif o[0] == 'C' and len(o) > 1 and mode in (1, 2) and 0 <= int(o[1]) < ndev:
            # StartAddressClaim: the claim frame (priority 6, PGN 60928 to 255, the NAME) goes the way of every frame: flush, then driver or queue
            i = int(o[1])
            f = (ref_can_id(6, 60928, own_addr(src0, i), 255), 8, list((NAME0 + i).to_bytes(8, 'little')))
            claiming.add(i)
            flushed = flush(exp) if q > 0 else True
            sent = False
            if flushed:
                a = nxt()
                exp.append(('tx',) + f + (a,))
                sent = a
            if not sent and len(pending) < cap:
                pending.append(f)
        elif o[0] == 'S' and max(int(o[1]), 0) in claiming:     # (pass-through sends count for device 0)
            exp.append(('res', False))     # the claim window (C04): refused without touching the queue
        elif o[0] == 'M':
            mode = int(o[1])               # run-time SetMode (the cases keep the source address): the queue is untouched
        elif o[0] == 'S' and mode == 0:
            exp.append(('res', False))     # listen-only: refused, nothing queued, nothing flushed
        elif o[0] == 'S':
            idev, pri, pgn = int(o[1]), int(o[2]), int(o[3])
            data = list(bytes.fromhex(o[7])) if o[7] != '-' else []
            cid = ref_can_id(pri, pgn, own_addr(src0, idev) if idev >= 0 else int(o[4]), 255)
            if idev < 0:
                idev = 0                   # pass-through: the message's own source, device 0's sequence counters
            if ref_class(pgn, cfg) == 'single' and len(data) <= 8:
                frames = [(cid, len(data), data)]
            else:
                n = seq.get((idev, pgn), 0)
                seq[(idev, pgn)] = n + 1
                frames = [(cid, 8, f) for f in fp_encode(n % 8, data)]
            ok = True
            for f in frames:
                flushed = flush(exp) if q > 0 else True
                sent = False
                if flushed:
                    a = nxt()
                    exp.append(('tx',) + f + (a,))
                    sent = a
                if not sent:
                    if len(pending) < cap:
                        pending.append(f)
                    else:
                        ok = False
                        break
            exp.append(('res', ok))
        if [tuple(e) for e in got] != [tuple(e) for e in exp]:
            return 'fifo:op %d (%s): the implementation did %s, the FIFO machine does %s' % (k, ' '.join(o)[:40], str(got)[:300], str(exp)[:300])
    return None


def check(run, replay=None):
    cases = vlib.read_replay(replay) if replay else vlib.corpus_lines('C11') + gen(run.seed, run.tier)
    run.cov['rule'] = ('ALL accept/refuse patterns of length <= 10 (quick: lengths 0,1,2,3,5,7,10; thorough: every length <= 13) applied to three fixed templates mixing single-frame and '
                       'fast-packet sends from 1..2 devices with flushes, queue sizes 2..4; plus random long histories (queue buffer sizes 0,1,2,3,4,7,40 x 1..9 devices, '
                       'random answer patterns incl. refusals starting inside a fast packet, flushes at arbitrary points).  Every CANSendFrame call and its answer, every SendMsg result and the '
                       'ring indices are compared between model and C++ (both scheduler builds); the oracle is an independent FIFO machine.  non-trivial = distinct case')
    for fs in ('w64', 'w32'):
        vlib.correspond(run, 'queue-' + fs, 'h_node', fs, 'NODE', cases, oracle, None, model_args=[fs])
