#!/usr/bin/python3
# runs the quick command of every claimed check (as registered in MANIFEST.json) and prints a one-line summary per property
import json, subprocess, sys, os, time
V = os.path.dirname(os.path.dirname(os.path.abspath(__file__)))
m = json.load(open(os.path.join(V, 'MANIFEST.json')))
bad = 0
for c in m['checks']:
    if len(sys.argv) > 1 and c['property_id'] not in sys.argv[1:]:
        continue
    t = time.time()
    p = subprocess.run(c['quick_cmd'], shell=True, cwd=V, stdout=subprocess.PIPE, stderr=subprocess.STDOUT, text=True)
    v = [l for l in p.stdout.split('\n') if l.startswith('VIOLATION')]
    k = [l for l in p.stdout.split('\n') if l.startswith('KNOWN-FINDING')]
    ev = json.load(open(os.path.join(V, c['evidence_file'])))
    cov = ev['coverage']
    print('%s rc=%d %5.1fs obligations %d/%d cases %d violations %d known %d' % (c['property_id'], p.returncode, time.time() - t, cov['discharged'], cov['obligations'], cov['evaluations'], len(v), len(k)))
    if p.returncode != 0:
        bad += 1
        print('   ', '\n    '.join(v[:3]), cov.get('broken', [])[:1])
sys.exit(1 if bad else 0)
