(* small list utilities shared by the models *)
From Coq Require Import ZArith List.
Import ListNotations.

Fixpoint set_nth {A} (l:list A) (i:nat) (v:A) : list A :=
  match l, i with
  | [], _ => []
  | _::r, O => v::r
  | x::r, S k => x :: set_nth r k v
  end.
Definition znth {A} (l:list A) (i:Z) (d:A) : A := nth (Z.to_nat i) l d.
Definition zset {A} (l:list A) (i:Z) (v:A) : list A := set_nth l (Z.to_nat i) v.
