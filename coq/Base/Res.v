(* Result monad for models that touch memory: every array / string access goes through a checked accessor.
   OOB  = access outside the object (what ASan/UBSan would report on the C++ side)
   Fuel = a fuelled loop ran out of fuel (excluded by theorems, never a normal-looking result) *)
From Coq Require Import ZArith List.
Import ListNotations.

Inductive res (A:Type) : Type := Ok (a:A) | OOB | Fuel.
Arguments Ok {A} a. Arguments OOB {A}. Arguments Fuel {A}.

Definition bind {A B} (r:res A) (f:A -> res B) : res B :=
  match r with Ok a => f a | OOB => OOB | Fuel => Fuel end.

Module ResNotations.
Notation "x <- r ;; k" := (bind r (fun x => k)) (at level 61, r at next level, right associativity).
End ResNotations.

Definition is_ok {A} (r:res A) : bool := match r with Ok _ => true | _ => false end.
