(* C07, part B: part 2 of the node model, everything that works on the device array (ISO-TP control messages and the sending role,
   address claim, commanded address, ISO requests, pending information, heartbeat, Open): with valid device indices these functions
   keep the invariant, do not set r_oob, leave the reassembly slots and the driver's receive queue alone and emit no EvDeliver. *)
From Coq Require Import ZArith List Bool Lia.
From N2kV Require Import Base.ListAux Model.CanId Model.Sched Model.PgnClass Model.NodeDefs Model.NodeRxDefs Gen.GenTables Gen.GenConsts
  Spec.SendSpec Spec.SafeSpec Proofs.SafeProofsA.
Import ListNotations.
Local Open Scope Z_scope.

Definition DWF (nd:nat) (mx:Z) (r:rnode) : Prop := NWF nd mx (rn r) /\ length (rx_dev r) = nd.
Definition G (nd:nat) (mx:Z) (r:rnode) : Prop := DWF nd mx r /\ r_oob r = false.
(* r' is good again and has the same slots and receive queue as r *)
Definition Step (nd:nat) (mx:Z) (r r':rnode) : Prop := G nd mx r' /\ r_slots r' = r_slots r /\ r_q r' = r_q r.

Lemma Step_refl nd mx r : G nd mx r -> Step nd mx r r.
Proof. intros; split; auto. Qed.
Lemma Step_trans nd mx r r1 r2 : Step nd mx r r1 -> Step nd mx r1 r2 -> Step nd mx r r2.
Proof. intros (G1 & S1 & Q1) (G2 & S2 & Q2). split; auto. split; congruence. Qed.
Lemma Step_G nd mx r r' : Step nd mx r r' -> G nd mx r'.
Proof. intros [H _]; auto. Qed.
Global Hint Resolve Step_refl Step_G : safe.

Lemma G_count nd mx r : G nd mx r -> dev_count (rn r) = Z.of_nat nd.
Proof. intros [[H _] _]. eapply NWF_count; eauto. Qed.
Lemma chk_dev_in nd mx r i : G nd mx r -> 0 <= i < Z.of_nat nd -> chk_dev r i = r.
Proof.
  intros H Hi. unfold chk_dev. rewrite (G_count _ _ _ H).
  destruct (0 <=? i) eqn:E1; destruct (i <? Z.of_nat nd) eqn:E2; simpl; auto; lia.
Qed.

(* ---------- field updates ---------- *)
Lemma mkStep nd mx r r' : NWF nd mx (rn r') -> length (rx_dev r') = nd -> r_oob r' = false -> r_slots r' = r_slots r -> r_q r' = r_q r -> Step nd mx r r'.
Proof. intros. split; [split; [split|]|split]; auto. Qed.
Lemma with_rn_step nd mx r n' : G nd mx r -> NWF nd mx n' -> Step nd mx r (with_rn r n').
Proof. intros [[H1 H2] H3] Hn. apply mkStep; auto. Qed.
Lemma with_devx_step nd mx r i x : G nd mx r -> Step nd mx r (with_devx r i x).
Proof. intros [[H1 H2] H3]. apply mkStep; auto. simpl. rewrite zset_len; auto. Qed.
Lemma with_devinfo_changed_step nd mx r : G nd mx r -> Step nd mx r (with_devinfo_changed r).
Proof. intros [[H1 H2] H3]. apply mkStep; auto. Qed.
Lemma with_sync_step nd mx r s : G nd mx r -> Step nd mx r (with_sync r s).
Proof. intros [[H1 H2] H3]. apply mkStep; auto. Qed.
Lemma with_clk_step nd mx r c : G nd mx r -> Step nd mx r (with_clk r c).
Proof. intros [[H1 H2] H3]. apply mkStep; auto. Qed.
Lemma millis64_step nd mx r : G nd mx r -> Step nd mx r (fst (millis64 r)).
Proof. intros H. unfold millis64. destruct (w64 r); simpl; auto with safe. apply with_clk_step; auto. Qed.
Lemma with_open_G nd mx r st sc : G nd mx r -> G nd mx (with_open r st sc).
Proof. intros [[H1 H2] H3]. split; [split|]; auto. Qed.

Lemma G_get_dev_ok nd mx r i : G nd mx r -> dev_ok (get_dev (rn r) i).
Proof. intros [[H _] _]. eapply get_dev_ok; eauto. Qed.
Lemma upd_dev_step nd mx r i d : G nd mx r -> dev_ok d -> Step nd mx r (with_rn r (upd_dev (rn r) i d)).
Proof. intros H Hd. apply with_rn_step; auto. apply upd_dev_ok; auto. apply H. Qed.

Lemma rsend_ok nd mx r m idev r' ev ok : rsend r m idev = (r', ev, ok) -> G nd mx r -> Step nd mx r r' /\ evs_ok ev.
Proof.
  unfold rsend. intros E H. destruct (send_msg (rn r) m idev) as [[n1 ev1] ok1] eqn:E1. inversion E; subst.
  destruct (send_msg_ok nd mx _ _ _ _ _ _ E1) as [Hn He]; [apply H|]. split; auto. apply with_rn_step; auto.
Qed.
(* the same, projection style *)
Lemma rsend_ok' nd mx r m idev : G nd mx r -> Step nd mx r (fst (fst (rsend r m idev))) /\ evs_ok (snd (fst (rsend r m idev))).
Proof. intros H. destruct (rsend r m idev) as [[r' ev] ok] eqn:E. simpl. eapply rsend_ok; eauto. Qed.

(* ---------- FindSourceDeviceIndex ---------- *)
Lemma find_src_range src : forall devs i0, 0 <= i0 ->
  find_src devs src i0 = -1 \/ i0 <= find_src devs src i0 < i0 + Z.of_nat (length devs).
Proof.
  induction devs; intros i0 H0; simpl; auto.
  destruct (d_src a =? src); [right; lia|]. destruct (IHdevs (i0+1)) as [E|E]; [lia|left; auto|right; lia].
Qed.
Lemma find_source_device_range nd mx r src : G nd mx r ->
  find_source_device r src = -1 \/ 0 <= find_source_device r src < Z.of_nat nd.
Proof.
  intros [[[Hl _] _] _]. unfold find_source_device. destruct (src <=? 253); auto.
  destruct (find_src_range src (n_devs (rn r)) 0) as [E|E]; [lia|auto|]. right. rewrite Hl in E. lia.
Qed.
Lemma find_source_device_ge nd mx r src : G nd mx r -> (find_source_device r src >=? 0) = true -> 0 <= find_source_device r src < Z.of_nat nd.
Proof. intros H E. destruct (find_source_device_range nd mx r src H); lia. Qed.
Lemma find_source_device_ne nd mx r src : G nd mx r -> (find_source_device r src =? -1) = false -> 0 <= find_source_device r src < Z.of_nat nd.
Proof. intros H E. destruct (find_source_device_range nd mx r src H); lia. Qed.

(* ---------- tactics ---------- *)
(* compose the Step facts in the context, following the source state syntactically; leaves the last leg if no hypothesis provides it *)
Ltac chain :=
  lazymatch goal with
  | H : Step _ _ ?a ?b |- Step _ _ ?a ?b => exact H
  | H : Step _ _ ?a ?b |- Step _ _ ?a ?c => apply (Step_trans _ _ _ _ _ H); chain
  | |- _ => idtac
  end.

(* ---------- ISO-TP control messages ---------- *)
Lemma send_tpcm_cts_ok nd mx r pgn dst idev np nx : G nd mx r -> 0 <= idev < Z.of_nat nd ->
  Step nd mx r (fst (send_tpcm_cts r pgn dst idev np nx)) /\ evs_ok (snd (send_tpcm_cts r pgn dst idev np nx)).
Proof.
  intros H Hi. unfold send_tpcm_cts. cbv zeta. rewrite (chk_dev_in _ _ _ _ H Hi).
  destruct (negb _); cbn [fst snd]; auto with safe.
  match goal with |- context [rsend r ?m idev] => pose proof (rsend_ok' nd mx r m idev H) as [S V]; destruct (rsend r m idev) as [[r' ev] ok] end.
  auto.
Qed.
Lemma send_tpcm_endack_ok nd mx r pgn dst idev nb np : G nd mx r -> 0 <= idev < Z.of_nat nd ->
  Step nd mx r (fst (send_tpcm_endack r pgn dst idev nb np)) /\ evs_ok (snd (send_tpcm_endack r pgn dst idev nb np)).
Proof.
  intros H Hi. unfold send_tpcm_endack. cbv zeta. rewrite (chk_dev_in _ _ _ _ H Hi).
  destruct (negb _); cbn [fst snd]; auto with safe.
  match goal with |- context [rsend r ?m idev] => pose proof (rsend_ok' nd mx r m idev H) as [S V]; destruct (rsend r m idev) as [[r' ev] ok] end.
  auto.
Qed.
Lemma send_tpcm_abort_ok nd mx r pgn dst idev code : G nd mx r -> 0 <= idev < Z.of_nat nd ->
  Step nd mx r (fst (send_tpcm_abort r pgn dst idev code)) /\ evs_ok (snd (send_tpcm_abort r pgn dst idev code)).
Proof.
  intros H Hi. unfold send_tpcm_abort. cbv zeta. rewrite (chk_dev_in _ _ _ _ H Hi).
  destruct (negb _); cbn [fst snd]; auto with safe.
  match goal with |- context [rsend r ?m idev] => pose proof (rsend_ok' nd mx r m idev H) as [S V]; destruct (rsend r m idev) as [[r' ev] ok] end.
  auto.
Qed.

(* ---------- ISO-TP sending role ---------- *)
Lemma set_dev_tp_ok nd mx r i tp t s : G nd mx r -> 0 <= i < Z.of_nat nd -> Step nd mx r (set_dev_tp r i tp t s).
Proof.
  intros H Hi. unfold set_dev_tp. cbv zeta. rewrite (chk_dev_in _ _ _ _ H Hi).
  apply upd_dev_step; auto. apply set_tp_ok. eapply G_get_dev_ok; eauto.
Qed.
Lemma end_send_tp_r_ok nd mx r i : G nd mx r -> 0 <= i < Z.of_nat nd -> Step nd mx r (end_send_tp_r r i).
Proof.
  intros H Hi. unfold end_send_tp_r. cbv zeta. rewrite (chk_dev_in _ _ _ _ H Hi).
  apply with_rn_step; auto. apply end_send_tp_ok. apply H.
Qed.
Lemma send_tpdt_ok nd mx r i r' ev ok : send_tpdt r i = (r', ev, ok) -> G nd mx r -> 0 <= i < Z.of_nat nd -> Step nd mx r r' /\ evs_ok ev.
Proof.
  intros E H Hi. unfold send_tpdt in E. cbv zeta in E. rewrite (chk_dev_in _ _ _ _ H Hi) in E.
  match type of E with rsend (set_dev_tp r i ?a ?b ?c) _ _ = _ => pose proof (set_dev_tp_ok nd mx r i a b c H Hi) as S1 end.
  destruct (rsend_ok _ _ _ _ _ _ _ _ E (Step_G _ _ _ _ S1)) as [S2 V]. split; [chain|auto].
Qed.
Lemma send_tpdt_burst_ok nd mx i : forall k r r' ev ok, send_tpdt_burst k r i = (r', ev, ok) -> G nd mx r -> 0 <= i < Z.of_nat nd ->
  Step nd mx r r' /\ evs_ok ev.
Proof.
  induction k; intros r r' ev ok E H Hi; simpl in E.
  - inversion E; subst; auto with safe.
  - destruct (has_all_dt_sent _); [inversion E; subst; auto with safe|].
    destruct (send_tpdt r i) as [[r1 ev1] ok1] eqn:E1. destruct (send_tpdt_ok _ _ _ _ _ _ _ E1 H Hi) as [S1 V1].
    destruct ok1; [|inversion E; subst; auto].
    destruct (send_tpdt_burst k r1 i) as [[r2 ev2] ok2] eqn:E2. inversion E; subst.
    destruct (IHk _ _ _ _ E2 (Step_G _ _ _ _ S1) Hi) as [S2 V2]. split; [chain|auto with safe].
Qed.
Lemma send_pending_tp_ok nd mx r i : G nd mx r -> 0 <= i < Z.of_nat nd ->
  Step nd mx r (fst (send_pending_tp r i)) /\ evs_ok (snd (send_pending_tp r i)).
Proof.
  intros H Hi. unfold send_pending_tp. cbv zeta. rewrite (chk_dev_in _ _ _ _ H Hi).
  destruct (d_tp_msg (get_dev (rn r) i)) as [m|]; cbn [fst snd]; auto with safe.
  destruct (sched_is_time _ _ _); cbn [fst snd]; auto with safe.
  destruct (m_dst m =? 255).
  - destruct (send_tpdt r i) as [[r1 ev1] ok1] eqn:E1. destruct (send_tpdt_ok _ _ _ _ _ _ _ E1 H Hi) as [S1 V1].
    match goal with |- context [set_dev_tp r1 i ?a ?b ?c] => pose proof (set_dev_tp_ok nd mx r1 i a b c (Step_G _ _ _ _ S1) Hi) as S2;
      set (r2 := set_dev_tp r1 i a b c) in * end.
    destruct (has_all_dt_sent _); cbn [fst snd]; split; auto.
    + chain. apply end_send_tp_r_ok; eauto with safe.
    + chain.
  - cbn [fst snd]. split; auto with safe. apply end_send_tp_r_ok; auto.
Qed.

(* ---------- address claim ---------- *)
Lemma set_src_ok nd mx r i src ue : G nd mx r -> 0 <= i < Z.of_nat nd -> 0 <= src <= 255 -> Step nd mx r (set_src r i src ue).
Proof.
  intros H Hi Hs. unfold set_src. cbv zeta. rewrite (chk_dev_in _ _ _ _ H Hi).
  apply upd_dev_step; auto.
Qed.
Lemma set_addr_changed_ok nd mx r : G nd mx r -> Step nd mx r (set_addr_changed r).
Proof. intros H. unfold set_addr_changed. apply with_rn_step; auto. destruct H as [[H _] _]. exact H. Qed.
Lemma set_name_ok nd mx r i nm : G nd mx r -> 0 <= i < Z.of_nat nd -> Step nd mx r (set_name r i nm).
Proof.
  intros H Hi. unfold set_name. cbv zeta. rewrite (chk_dev_in _ _ _ _ H Hi).
  apply upd_dev_step; auto. eapply dev_ok_src; [eapply G_get_dev_ok; eauto | reflexivity].
Qed.

Lemma next_address_ok nd mx i restart : forall fuel r, G nd mx r -> 0 <= i < Z.of_nat nd -> Step nd mx r (next_address fuel r i restart).
Proof.
  induction fuel; intros r H Hi; simpl; auto with safe.
  pose proof (G_get_dev_ok _ _ _ i H) as Hd. unfold dev_ok in Hd.
  destruct (d_src (get_dev (rn r) i) =? c_N2kNullCanBusAddress).
  - destruct restart; auto with safe.
    pose proof (set_src_ok nd mx r i 14 true H Hi ltac:(lia)) as S1.
    destruct (same_as_sibling _ i).
    + chain. apply IHfuel; eauto with safe.
    + chain. apply set_addr_changed_ok; eauto with safe.
  - destruct (negb _).
    + match goal with |- context [set_src r i ?s false] => assert (S1 : Step nd mx r (set_src r i s false)) end.
      { apply set_src_ok; auto. unfold c_N2kMaxCanBusAddress. destruct (_ >? 251) eqn:E; lia. }
      destruct (same_as_sibling _ i).
      * chain. apply IHfuel; eauto with safe.
      * chain. apply set_addr_changed_ok; eauto with safe.
    + pose proof (set_src_ok nd mx r i c_N2kNullCanBusAddress false H Hi ltac:(unfold c_N2kNullCanBusAddress; lia)) as S1.
      chain. apply set_addr_changed_ok; eauto with safe.
Qed.

Lemma rstart_claim_ok nd mx r i : G nd mx r -> 0 <= i < Z.of_nat nd ->
  Step nd mx r (fst (rstart_claim r i)) /\ evs_ok (snd (rstart_claim r i)).
Proof.
  intros H Hi. unfold rstart_claim. cbv zeta. rewrite (chk_dev_in _ _ _ _ H Hi).
  pose proof (start_address_claim_ok nd mx (rn r) i) as [Hn He]; [apply H|].
  destruct (start_address_claim (rn r) i) as [n' ev]; cbn [fst snd] in *. split; auto. apply with_rn_step; auto.
Qed.
Lemma rsend_claim_ok nd mx r dst i : G nd mx r ->
  Step nd mx r (fst (rsend_claim r dst i)) /\ evs_ok (snd (rsend_claim r dst i)).
Proof.
  intros H. unfold rsend_claim.
  pose proof (send_iso_address_claim_ok nd mx (rn r) dst i) as [Hn He]; [apply H|].
  destruct (send_iso_address_claim (rn r) dst i) as [n' ev]; cbn [fst snd] in *. split; auto. apply with_rn_step; auto.
Qed.

Lemma handle_claim_ok nd mx r src data : G nd mx r ->
  Step nd mx r (fst (handle_claim r src data)) /\ evs_ok (snd (handle_claim r src data)).
Proof.
  intros H. unfold handle_claim. cbv zeta.
  destruct (src =? c_N2kNullCanBusAddress); cbn [orb fst snd]; auto with safe.
  destruct (find_source_device r src =? -1) eqn:Ei; cbn [fst snd]; auto with safe.
  pose proof (find_source_device_ne _ _ _ _ H Ei) as Hi. set (i := find_source_device r src) in *.
  rewrite (chk_dev_in _ _ _ _ H Hi).
  destruct (_ <? _); [apply rsend_claim_ok; auto|].
  pose proof (claim_started_ok nd mx (rn r) i) as Hc. destruct (claim_started (rn r) i) as [n1 started]; cbn [fst] in Hc.
  assert (S1 : Step nd mx r (if d_name (get_dev (rn r) i) =? (if 8 <=? Z.of_nat (length data) then of_le8 data else 2 ^ 64 - 1) then with_rn r n1 else r)).
  { destruct (d_name _ =? _); auto with safe. apply with_rn_step; auto. apply Hc. apply H. }
  set (r1 := if d_name _ =? _ then with_rn r n1 else r) in *.
  destruct (_ && started).
  - pose proof (set_name_ok nd mx r1 i (bump_instance (d_name (get_dev (rn r) i))) (Step_G _ _ _ _ S1) Hi) as S2.
    pose proof (with_devinfo_changed_step nd mx _ (Step_G _ _ _ _ S2)) as S3.
    pose proof (rstart_claim_ok nd mx _ i (Step_G _ _ _ _ S3) Hi) as [S4 V4].
    split; [chain|auto].
  - pose proof (next_address_ok nd mx i false 300 r1 (Step_G _ _ _ _ S1) Hi) as S2.
    pose proof (rstart_claim_ok nd mx _ i (Step_G _ _ _ _ S2) Hi) as [S4 V4].
    split; [chain|auto].
Qed.

Lemma commanded_one_ok nd mx r nm newaddr i : G nd mx r -> 0 <= i < Z.of_nat nd -> 0 <= newaddr <= 255 ->
  Step nd mx r (fst (commanded_one r nm newaddr i)) /\ evs_ok (snd (commanded_one r nm newaddr i)).
Proof.
  intros H Hi Ha. unfold commanded_one. cbv zeta. rewrite (chk_dev_in _ _ _ _ H Hi).
  destruct (newaddr =? 255); cbn [fst snd]; auto with safe.
  destruct (_ && _); cbn [fst snd]; auto with safe.
  pose proof (set_src_ok nd mx r i newaddr true H Hi Ha) as S1.
  pose proof (rstart_claim_ok nd mx _ i (Step_G _ _ _ _ S1) Hi) as [S2 V2].
  destruct (rstart_claim _ i) as [r1 ev]; cbn [fst snd] in *. split; auto.
  chain. apply set_addr_changed_ok; eauto with safe.
Qed.
Lemma commanded_all_ok nd mx nm newaddr : 0 <= newaddr <= 255 -> forall k r i, G nd mx r -> 0 <= i -> i + Z.of_nat k <= Z.of_nat nd ->
  Step nd mx r (fst (commanded_all k r nm newaddr i)) /\ evs_ok (snd (commanded_all k r nm newaddr i)).
Proof.
  intros Ha. induction k; intros r i H H0 Hk; simpl; auto with safe.
  pose proof (commanded_one_ok nd mx r nm newaddr i H ltac:(lia) Ha) as [S1 V1].
  destruct (commanded_one r nm newaddr i) as [r1 ev1]; cbn [fst snd] in *.
  pose proof (IHk r1 (i+1) (Step_G _ _ _ _ S1) ltac:(lia) ltac:(lia)) as [S2 V2].
  destruct (commanded_all k r1 nm newaddr (i+1)) as [r2 ev2]; cbn [fst snd] in *.
  split; [chain|auto with safe].
Qed.
Lemma G_devs_len nd mx r : G nd mx r -> length (n_devs (rn r)) = nd.
Proof. intros [[[H _] _] _]; auto. Qed.
Lemma handle_commanded_ok nd mx r s : G nd mx r -> Forall byte_ok (s_data s) ->
  Step nd mx r (fst (handle_commanded r s)) /\ evs_ok (snd (handle_commanded r s)).
Proof.
  intros H Hb. unfold handle_commanded. cbv zeta.
  destruct (negb _); cbn [fst snd]; auto with safe.
  destruct (negb (s_dst s =? 255) && _); cbn [fst snd]; auto with safe.
  assert (Ha : 0 <= nth 8 (s_data s) 255 <= 255) by (apply (nth_Forall byte_ok); auto; unfold byte_ok; lia).
  destruct (_ >=? 252); cbn [fst snd]; auto with safe.
  destruct (find_source_device r (s_dst s) =? -1) eqn:Ei.
  - apply commanded_all_ok; auto; try lia. rewrite (G_devs_len _ _ _ H). lia.
  - apply commanded_one_ok; auto. eapply find_source_device_ne; eauto.
Qed.

(* ---------- ISO requests, pending information ---------- *)
Lemma set_pending_ok nd mx r i a b c : G nd mx r -> 0 <= i < Z.of_nat nd -> Step nd mx r (set_pending r i a b c).
Proof. intros H Hi. unfold set_pending. cbv zeta. rewrite (chk_dev_in _ _ _ _ H Hi). apply with_devx_step; auto. Qed.

Lemma send_product_info_ok nd mx r i : G nd mx r -> 0 <= i < Z.of_nat nd ->
  Step nd mx r (fst (send_product_info r i)) /\ evs_ok (snd (send_product_info r i)).
Proof.
  intros H Hi. unfold send_product_info. cbv zeta. rewrite (chk_dev_in _ _ _ _ H Hi).
  match goal with |- context [rsend r ?m i] => pose proof (rsend_ok' nd mx r m i H) as [S V]; destruct (rsend r m i) as [[r1 ev] ok] end.
  cbn [fst snd] in *. split; [chain; apply set_pending_ok; eauto with safe|auto].
Qed.
Lemma send_config_info_ok nd mx r i : G nd mx r -> 0 <= i < Z.of_nat nd ->
  Step nd mx r (fst (send_config_info r i)) /\ evs_ok (snd (send_config_info r i)).
Proof.
  intros H Hi. unfold send_config_info. cbv zeta. rewrite (chk_dev_in _ _ _ _ H Hi).
  match goal with |- context [rsend r ?m i] => pose proof (rsend_ok' nd mx r m i H) as [S V]; destruct (rsend r m i) as [[r1 ev] ok] end.
  cbn [fst snd] in *. split; [chain; apply set_pending_ok; eauto with safe|auto].
Qed.

Lemma evs_note c : evs_ok [EvNote c]. Proof. repeat constructor. Qed.

Lemma respond_iso_request_ok nd mx r req addressed rpgn i : G nd mx r -> 0 <= i < Z.of_nat nd ->
  Step nd mx r (fst (respond_iso_request r req addressed rpgn i)) /\ evs_ok (snd (respond_iso_request r req addressed rpgn i)).
Proof.
  intros H Hi. unfold respond_iso_request. cbv zeta. rewrite (chk_dev_in _ _ _ _ H Hi).
  pose proof (claim_started_ok nd mx (rn r) i) as Hc. destruct (claim_started (rn r) i) as [n1 started]; cbn [fst] in Hc.
  assert (S0 : Step nd mx r (with_rn r n1)) by (apply with_rn_step; auto; apply Hc; apply H).
  set (r0 := with_rn r n1) in *. pose proof (Step_G _ _ _ _ S0) as H0.
  destruct started; cbn [fst snd]; auto with safe.
  destruct (rpgn =? 60928).
  { pose proof (rsend_claim_ok nd mx r0 255 i H0) as [S1 V1]. split; [chain|auto]. }
  destruct (rpgn =? 126464).
  { match goal with |- context [rsend r0 ?m i] => pose proof (rsend_ok' nd mx r0 m i H0) as [S1 V1]; destruct (rsend r0 m i) as [[r1 ev1] ok1] end.
    cbn [fst snd] in *.
    match goal with |- context [rsend r1 ?m i] => pose proof (rsend_ok' nd mx r1 m i (Step_G _ _ _ _ S1)) as [S2 V2]; destruct (rsend r1 m i) as [[r2 ev2] ok2] end.
    cbn [fst snd] in *. split; [chain|auto with safe]. }
  destruct (rpgn =? 126996).
  { pose proof (send_product_info_ok nd mx r0 i H0 Hi) as [S1 V1]. split; [chain|auto]. }
  destruct (rpgn =? 126998).
  { destruct (c_confinfo (r_cfg r0)).
    - (* no configuration information configured: NAK to an addressed request, silence on a broadcast one *)
      destruct addressed; cbn [fst snd]; auto with safe.
      match goal with |- context [rsend r0 ?m i] => pose proof (rsend_ok' nd mx r0 m i H0) as [S1 V1]; destruct (rsend r0 m i) as [[r1 ev1] ok1] end.
      cbn [fst snd] in *. split; [chain|auto].
    - pose proof (send_config_info_ok nd mx r0 i H0 Hi) as [S1 V1]. split; [chain|auto]. }
  destruct (match c_iso_handler (r_cfg r0) with Some acc => _ | None => _ end) as [[|]|]; cbn [fst snd]; auto using evs_note with safe.
  destruct addressed; cbn [fst snd]; auto with safe.
  match goal with |- context [rsend r0 ?m i] => pose proof (rsend_ok' nd mx r0 m i H0) as [S1 V1]; destruct (rsend r0 m i) as [[r1 ev1] ok1] end.
  cbn [fst snd] in *. split; [chain|auto].
Qed.
Lemma respond_all_ok nd mx req rpgn : forall k r i, G nd mx r -> 0 <= i -> i + Z.of_nat k <= Z.of_nat nd ->
  Step nd mx r (fst (respond_all k r req rpgn i)) /\ evs_ok (snd (respond_all k r req rpgn i)).
Proof.
  induction k; intros r i H H0 Hk; simpl; auto with safe.
  pose proof (respond_iso_request_ok nd mx r req false rpgn i H ltac:(lia)) as [S1 V1].
  destruct (respond_iso_request r req false rpgn i) as [r1 ev1]; cbn [fst snd] in *.
  pose proof (IHk r1 (i+1) (Step_G _ _ _ _ S1) ltac:(lia) ltac:(lia)) as [S2 V2].
  destruct (respond_all k r1 req rpgn (i+1)) as [r2 ev2]; cbn [fst snd] in *.
  split; [chain|auto with safe].
Qed.
Lemma handle_iso_request_ok nd mx r s : G nd mx r ->
  Step nd mx r (fst (handle_iso_request r s)) /\ evs_ok (snd (handle_iso_request r s)).
Proof.
  intros H. unfold handle_iso_request. cbv zeta.
  destruct (s_dst s =? 255) eqn:Ed; cbn [negb andb].
  - apply respond_all_ok; auto; try lia. rewrite (G_devs_len _ _ _ H). lia.
  - destruct (find_source_device r (s_dst s) =? -1) eqn:Ei; cbn [fst snd]; auto with safe.
    apply respond_iso_request_ok; auto. eapply find_source_device_ne; eauto.
Qed.

Lemma send_pending_info_dev_ok nd mx r i : G nd mx r -> 0 <= i < Z.of_nat nd ->
  Step nd mx r (fst (send_pending_info_dev r i)) /\ evs_ok (snd (send_pending_info_dev r i)).
Proof.
  intros H Hi. unfold send_pending_info_dev. cbv zeta. rewrite (chk_dev_in _ _ _ _ H Hi).
  pose proof (send_pending_tp_ok nd mx r i H Hi) as [S1 V1]. destruct (send_pending_tp r i) as [r1 ev1]; cbn [fst snd] in *.
  pose proof (Step_G _ _ _ _ S1) as H1.
  assert (X2 : forall p : rnode * list event,
             p = (if sched_is_time (w64 r1) (now r1) (x_pend_claim (get_devx r1 i))
                  then let '(r', ev) := rsend_claim r1 255 i in
                       (set_pending r' i (sched_disabled (w64 r')) (x_pend_prod (get_devx r' i)) (x_pend_conf (get_devx r' i)), ev)
                  else (r1, [])) -> Step nd mx r1 (fst p) /\ evs_ok (snd p)).
  { intros p ->. destruct (sched_is_time _ _ _); cbn [fst snd]; auto with safe.
    pose proof (rsend_claim_ok nd mx r1 255 i H1) as [S V]. destruct (rsend_claim r1 255 i) as [r' ev]; cbn [fst snd] in *.
    split; [chain; apply set_pending_ok; eauto with safe|auto]. }
  destruct (if sched_is_time (w64 r1) (now r1) (x_pend_claim (get_devx r1 i)) then _ else _) as [r2 ev2].
  destruct (X2 _ eq_refl) as [S2 V2]; cbn [fst snd] in *. pose proof (Step_G _ _ _ _ S2) as H2.
  assert (X3 : Step nd mx r2 (fst (if sched_is_time (w64 r2) (now r2) (x_pend_prod (get_devx r2 i)) then send_product_info r2 i else (r2, []))) /\
               evs_ok (snd (if sched_is_time (w64 r2) (now r2) (x_pend_prod (get_devx r2 i)) then send_product_info r2 i else (r2, [])))).
  { destruct (sched_is_time _ _ _); cbn [fst snd]; auto with safe. apply send_product_info_ok; auto. }
  destruct (if sched_is_time (w64 r2) (now r2) (x_pend_prod (get_devx r2 i)) then _ else _) as [r3 ev3].
  destruct X3 as [S3 V3]; cbn [fst snd] in *. pose proof (Step_G _ _ _ _ S3) as H3.
  assert (X4 : Step nd mx r3 (fst (if sched_is_time (w64 r3) (now r3) (x_pend_conf (get_devx r3 i)) then send_config_info r3 i else (r3, []))) /\
               evs_ok (snd (if sched_is_time (w64 r3) (now r3) (x_pend_conf (get_devx r3 i)) then send_config_info r3 i else (r3, [])))).
  { destruct (sched_is_time _ _ _); cbn [fst snd]; auto with safe. apply send_config_info_ok; auto. }
  destruct (if sched_is_time (w64 r3) (now r3) (x_pend_conf (get_devx r3 i)) then _ else _) as [r4 ev4].
  destruct X4 as [S4 V4]; cbn [fst snd] in *.
  split; [chain|auto 6 with safe].
Qed.
Lemma send_pending_info_ok nd mx : forall k r i, G nd mx r -> 0 <= i -> i + Z.of_nat k <= Z.of_nat nd ->
  Step nd mx r (fst (send_pending_info k r i)) /\ evs_ok (snd (send_pending_info k r i)).
Proof.
  induction k; intros r i H H0 Hk; simpl; auto with safe.
  assert (X1 : Step nd mx r (fst (if has_pending r i then send_pending_info_dev r i else (r, []))) /\
               evs_ok (snd (if has_pending r i then send_pending_info_dev r i else (r, [])))).
  { destruct (has_pending r i); cbn [fst snd]; auto with safe. apply send_pending_info_dev_ok; auto. lia. }
  destruct (if has_pending r i then _ else _) as [r1 ev1]. destruct X1 as [S1 V1]; cbn [fst snd] in *.
  pose proof (IHk r1 (i+1) (Step_G _ _ _ _ S1) ltac:(lia) ltac:(lia)) as [S2 V2].
  destruct (send_pending_info k r1 (i+1)) as [r2 ev2]; cbn [fst snd] in *.
  split; [chain|auto with safe].
Qed.

(* ---------- heartbeat ---------- *)
Lemma send_heartbeat_dev_ok nd mx r i : G nd mx r -> 0 <= i < Z.of_nat nd ->
  Step nd mx r (fst (send_heartbeat_dev r i)) /\ evs_ok (snd (send_heartbeat_dev r i)).
Proof.
  intros H Hi. unfold send_heartbeat_dev. cbv zeta. rewrite (chk_dev_in _ _ _ _ H Hi).
  pose proof (claim_started_ok nd mx (rn r) i) as Hc. destruct (claim_started (rn r) i) as [n1 started]; cbn [fst] in Hc.
  assert (S0 : Step nd mx r (with_rn r n1)) by (apply with_rn_step; auto; apply Hc; apply H).
  set (r0 := with_rn r n1) in *. pose proof (Step_G _ _ _ _ S0) as H0.
  destruct started; cbn [fst snd]; auto with safe.
  pose proof (millis64_step nd mx r0 H0) as S1. destruct (millis64 r0) as [r1 t1]; cbn [fst] in S1. pose proof (Step_G _ _ _ _ S1) as H1.
  destruct (ss_is_time t1 _); cbn [fst snd]; [|split; auto with safe; eapply Step_trans; eauto].
  pose proof (millis64_step nd mx r1 H1) as S2. destruct (millis64 r1) as [r2 t2]; cbn [fst] in S2. pose proof (Step_G _ _ _ _ S2) as H2.
  match goal with |- context [rsend (with_devx r2 i ?x) _ i] =>
    pose proof (with_devx_step nd mx r2 i x H2) as S3; set (r3 := with_devx r2 i x) in * end.
  match goal with |- context [rsend r3 ?m i] =>
    pose proof (rsend_ok' nd mx r3 m i (Step_G _ _ _ _ S3)) as [S4 V4]; destruct (rsend r3 m i) as [[r4 ev4] ok4] end.
  cbn [fst snd] in *. split; [|auto].
  chain. apply with_devx_step; eauto with safe.
Qed.
Lemma send_heartbeat_ok nd mx : forall k r i, G nd mx r -> 0 <= i -> i + Z.of_nat k <= Z.of_nat nd ->
  Step nd mx r (fst (send_heartbeat k r i)) /\ evs_ok (snd (send_heartbeat k r i)).
Proof.
  induction k; intros r i H H0 Hk; simpl; auto with safe.
  pose proof (send_heartbeat_dev_ok nd mx r i H ltac:(lia)) as [S1 V1].
  destruct (send_heartbeat_dev r i) as [r1 ev1]; cbn [fst snd] in *.
  pose proof (IHk r1 (i+1) (Step_G _ _ _ _ S1) ltac:(lia) ltac:(lia)) as [S2 V2].
  destruct (send_heartbeat k r1 (i+1)) as [r2 ev2]; cbn [fst snd] in *.
  split; [chain|auto with safe].
Qed.
(* SetHeartbeatIntervalAndOffset indexes Devices[] only inside its loop bounds or after its own range test; the model has no chk_dev here and
   the per-device state lives in rx_dev, so any index keeps the invariant *)
Lemma set_heartbeat_all_ok nd mx iv off : forall k r i, G nd mx r -> Step nd mx r (set_heartbeat_all k r i iv off).
Proof.
  induction k; intros r i H; simpl; auto with safe.
  destruct (_ =? 0).
  - eapply Step_trans; [apply with_devx_step; eauto|]. apply IHk. eapply Step_G. apply with_devx_step; eauto.
  - match goal with |- Step _ _ _ (set_heartbeat_all k ?r1 _ _ _) => assert (S1 : Step nd mx r r1) end.
    { destruct (_ || _ || _); auto with safe.
      pose proof (millis64_step nd mx r H) as S1. destruct (millis64 r) as [rc t]; cbn [fst] in S1.
      match goal with |- context [with_devx rc i ?x] => pose proof (with_devx_step nd mx rc i x (Step_G _ _ _ _ S1)) as S2 end.
      destruct (_ || _); [|chain].
      chain. apply with_devinfo_changed_step. eauto with safe. }
    chain. apply IHk; eauto with safe.
Qed.
(* the recomputation of the enabled heartbeat schedulers in Open(): per-device state and the clock extension only *)
Lemma resync_heartbeats_ok nd mx : forall k r i, G nd mx r -> Step nd mx r (resync_heartbeats k r i).
Proof.
  induction k; intros r i H; cbn [resync_heartbeats]; auto with safe.
  match goal with |- Step _ _ _ (resync_heartbeats k ?r1 _) => assert (S1 : Step nd mx r r1) end.
  { destruct (_ =? ss_disabled); auto with safe.
    destruct (_ =? 0); [apply with_devx_step; auto|].
    pose proof (millis64_step nd mx r H) as S1. destruct (millis64 r) as [rc t]; cbn [fst] in S1.
    chain. apply with_devx_step; eauto with safe. }
  chain. apply IHk; eauto with safe.
Qed.

(* ---------- Open ---------- *)
Lemma start_claim_all_ok nd mx : forall k r i, G nd mx r -> 0 <= i -> i + Z.of_nat k <= Z.of_nat nd ->
  Step nd mx r (fst (start_claim_all k r i)) /\ evs_ok (snd (start_claim_all k r i)).
Proof.
  induction k; intros r i H H0 Hk; [simpl; auto with safe|]. cbn [start_claim_all].
  assert (S0 : Step nd mx r (if dev_src r i =? c_N2kNullCanBusAddress then next_address 300 r i true else r)).
  { destruct (_ =? _); auto with safe. apply next_address_ok; auto. lia. }
  set (r0 := if _ =? _ then _ else r) in *.
  pose proof (rstart_claim_ok nd mx r0 i (Step_G _ _ _ _ S0) ltac:(lia)) as [S1 V1].
  destruct (rstart_claim r0 i) as [r1 ev1]; cbn [fst snd] in *.
  pose proof (IHk r1 (i+1) (Step_G _ _ _ _ S1) ltac:(lia) ltac:(lia)) as [S2 V2].
  destruct (start_claim_all k r1 (i+1)) as [r2 ev2]; cbn [fst snd] in *.
  split; [chain|auto with safe].
Qed.

(* Open(): keeps the invariant and the slots; the receive queue is kept or emptied ("read rubbish out from CAN controller") *)
Lemma open_step_ok nd mx r : G nd mx r ->
  let r' := fst (fst (open_step r)) in
  G nd mx r' /\ r_slots r' = r_slots r /\ (r_q r' = r_q r \/ r_q r' = []) /\ evs_ok (snd (fst (open_step r))).
Proof.
  intros H. unfold open_step. cbv zeta.
  destruct (n_open (rn r) =? 3); cbn [fst snd]; auto 6 with safe.
  assert (H0 : G nd mx (if n_open (rn r) =? 0 then with_open r 1 (r_open_sched r) else r)) by (destruct (_ =? 0); auto using with_open_G).
  assert (E0 : r_slots (if n_open (rn r) =? 0 then with_open r 1 (r_open_sched r) else r) = r_slots r /\
               r_q (if n_open (rn r) =? 0 then with_open r 1 (r_open_sched r) else r) = r_q r) by (destruct (_ =? 0); auto).
  set (r0 := if n_open (rn r) =? 0 then _ else r) in *. destruct E0 as [Es Eq].
  destruct (n_open (rn r0) =? 1).
  - destruct (negb _); cbn [fst snd]; auto 6 with safe.
  - destruct (sched_is_time _ _ _); cbn [fst snd].
    + pose proof (with_open_G nd mx r0 3 (r_open_sched r0) H0) as H1. set (r1 := with_open r0 3 (r_open_sched r0)) in *.
      pose proof (start_claim_all_ok nd mx (length (n_devs (rn r1))) r1 0 H1 ltac:(lia)) as [S2 V2].
      { rewrite (G_devs_len _ _ _ H1). lia. }
      destruct (start_claim_all _ r1 0) as [r2 ev]; cbn [fst snd] in *.
      pose proof (millis64_step nd mx r2 (Step_G _ _ _ _ S2)) as S3. destruct (millis64 r2) as [r2c ts]; cbn [fst snd] in *.
      pose proof (with_sync_step nd mx r2c ts (Step_G _ _ _ _ S3)) as S4.
      pose proof (set_heartbeat_all_ok nd mx c_DefaultHeartbeatInterval 10000 (length (n_devs (rn (with_sync r2c ts)))) _ 0 (Step_G _ _ _ _ S4)) as S5.
      set (r4 := set_heartbeat_all (length (n_devs (rn (with_sync r2c ts)))) (with_sync r2c ts) 0 c_DefaultHeartbeatInterval 10000) in *.
      pose proof (resync_heartbeats_ok nd mx (length (n_devs (rn r4))) r4 0 (Step_G _ _ _ _ S5)) as S6.
      cbn [fst snd].
      assert (S : Step nd mx r1 (resync_heartbeats (length (n_devs (rn r4))) r4 0)).
      { chain. }
      destruct S as (HG & Hs & Hq). split; auto. split; [rewrite Hs; auto|]. split; [left; rewrite Hq; auto|].
      apply evs_app; auto. apply evs_note.
    + split; [|auto with safe]. destruct H0 as [[Ha Hb] Hc]. split; [split|]; auto.
Qed.

Lemma rflush_ok nd mx r : G nd mx r -> Step nd mx r (fst (rflush r)) /\ evs_ok (snd (rflush r)).
Proof.
  intros H. unfold rflush.
  destruct (flush _ _) as [[[q d] ev] ok] eqn:E. cbn [fst snd].
  destruct (flush_ok mx _ _ _ _ _ _ E) as [Hq He]; [apply H|]. split; auto. apply with_rn_step; auto. apply upd_q_ok; auto. apply H.
Qed.
