(* C07, part C: the reassembly slots (FindFreeCANMsgIndex, TestHandleTPMessage, SetN2kCANBufMsg). *)
From Coq Require Import ZArith List Bool Lia.
From N2kV Require Import Base.ListAux Model.CanId Model.Sched Model.PgnClass Model.NodeDefs Model.NodeRxDefs Gen.GenTables Gen.GenConsts
  Spec.SendSpec Spec.SafeSpec Proofs.SafeProofsA Proofs.SafeProofsB.
Import ListNotations.
Local Open Scope Z_scope.

(* ---------- slot lists ---------- *)
Definition unready (s:slot) : Prop := s_ready s = false.
Definition SWF (ns:nat) (l:list slot) : Prop := length l = ns /\ Forall slot_ok l.
(* every slot except possibly number idx is not ready *)
Definition ure (l:list slot) (idx:Z) : Prop := forall j, 0 <= j -> j <> idx -> s_ready (znth l j slot0) = false.

Lemma slot0_ok : slot_ok slot0.
Proof. unfold slot_ok; simpl. repeat split; auto; try lia; try discriminate. Qed.
Lemma free_slot_ok s : slot_ok s -> slot_ok (free_slot s).
Proof. intros (H1 & H2 & H3 & H4). unfold slot_ok; simpl. repeat split; auto; try lia; try discriminate. Qed.
Lemma SWF_znth ns l i : SWF ns l -> slot_ok (znth l i slot0).
Proof. intros [_ H]. apply znth_Forall; auto using slot0_ok. Qed.
Lemma SWF_zset ns l i s : SWF ns l -> slot_ok s -> SWF ns (zset l i s).
Proof. intros [H1 H2] Hs. split; [rewrite zset_len; auto | apply zset_Forall; auto]. Qed.

Lemma quiet_znth l j : Forall unready l -> s_ready (znth l j slot0) = false.
Proof. intros H. apply (znth_Forall unready); auto. reflexivity. Qed.
Lemma quiet_ure l idx : Forall unready l -> ure l idx.
Proof. intros H j _ _. apply quiet_znth; auto. Qed.
Lemma ure_quiet l idx : ure l idx -> (0 <= idx -> s_ready (znth l idx slot0) = false) -> Forall unready l.
Proof.
  intros H Hi. apply Forall_nth. intros k d Hk. unfold unready.
  rewrite (nth_indep l d slot0 Hk). destruct (Z.eq_dec (Z.of_nat k) idx) as [E|E].
  - specialize (Hi ltac:(lia)). unfold znth in Hi. rewrite <- E, Nat2Z.id in Hi. auto.
  - specialize (H (Z.of_nat k) ltac:(lia) E). unfold znth in H. rewrite Nat2Z.id in H. auto.
Qed.
Lemma quiet_zset l i v : Forall unready l -> unready v -> Forall unready (zset l i v).
Proof. apply zset_Forall. Qed.
Lemma quiet_zset_ure l i v : Forall unready l -> 0 <= i -> ure (zset l i v) i.
Proof. intros H Hi j Hj Hne. rewrite znth_zset_other; auto. apply quiet_znth; auto. Qed.
Lemma ure_zset_unready l i v : ure l i -> 0 <= i -> unready v -> Forall unready (zset l i v).
Proof.
  intros H Hi Hv. apply (ure_quiet _ i).
  - intros j Hj Hne. rewrite znth_zset_other; auto.
  - intros _. destruct (Z_lt_dec i (Z.of_nat (length l))).
    + rewrite znth_zset_same; auto; lia.
    + unfold znth, zset. assert (E : forall (l:list slot) k v, (length l <= k)%nat -> set_nth l k v = l).
      { induction l0; intros [|k] v0 Hk; simpl in *; auto; try lia. f_equal. apply IHl0. lia. }
      rewrite E by lia. rewrite nth_overflow by lia. reflexivity.
Qed.

(* ---------- payload copy ---------- *)
Lemma copy_buf_len d st ln buf : (length d <= 223)%nat -> (length (copy_buf d st ln buf) <= 223)%nat.
Proof.
  intros H. unfold copy_buf. rewrite app_length. unfold c_MaxDataLen.
  match goal with |- (_ + length (firstn ?k ?l) <= _)%nat => pose proof (firstn_le_length k l) end. lia.
Qed.
Lemma copy_buf_bytes d st ln buf : Forall byte_ok d -> Forall byte_ok buf -> Forall byte_ok (copy_buf d st ln buf).
Proof. intros H1 H2. unfold copy_buf. apply Forall_app'; auto. repeat apply Forall_firstn'. apply Forall_skipn'. auto. Qed.
Lemma byte_range buf k : Forall byte_ok buf -> 0 <= byte buf k <= 255.
Proof. intros H. unfold byte. apply (nth_Forall byte_ok); auto. unfold byte_ok; lia. Qed.

(* ---------- FindFreeCANMsgIndex ---------- *)
Lemma has_elapsed_self t : 0 <= t < M32 -> has_elapsed t c_Max_N2kMsgBuf_Time t = false.
Proof.
  unfold has_elapsed, u32, IMAX, M32, c_Max_N2kMsgBuf_Time. change (2^32) with 4294967296. change (2^31 - 1) with 2147483647.
  intros H. apply Z.ltb_ge.
  destruct (Z_lt_dec (t + 100) 4294967296).
  - rewrite (Z.mod_small (t + 100)) by lia. replace (t - (t + 100)) with (-100) by lia. change (-100 mod 4294967296) with 4294967196. lia.
  - replace ((t + 100) mod 4294967296) with (t + 100 - 4294967296).
    + replace (t - (t + 100 - 4294967296)) with 4294967196 by lia. change (4294967196 mod 4294967296) with 4294967196. lia.
    + apply (Z.mod_unique (t + 100) 4294967296 1); lia.
Qed.

Lemma ff_scan_spec pgn src dst tp : forall slots i oi ot,
  let '(i', oi', ot') := ff_scan slots pgn src dst tp i oi ot in
  i <= i' <= i + Z.of_nat (length slots) /\ ((oi' = oi /\ ot' = ot) \/ i <= oi' < i').
Proof.
  induction slots; intros i oi ot; simpl.
  - split; [lia | left; auto].
  - destruct (_ || _); [split; [lia | left; auto]|].
    destruct (is_time_before _ _).
    + specialize (IHslots (i+1) i (s_time a)). destruct (ff_scan slots pgn src dst tp (i+1) i (s_time a)) as [[i' oi'] ot'].
      destruct IHslots as [H1 H2]. split; [lia|]. right. destruct H2 as [[E _]|H2]; lia.
    + specialize (IHslots (i+1) oi ot). destruct (ff_scan slots pgn src dst tp (i+1) oi ot) as [[i' oi'] ot'].
      destruct IHslots as [H1 H2]. split; [lia|]. destruct H2 as [H2|H2]; [left; auto | right; lia].
Qed.

Lemma now32_range r : 0 <= now32 r < M32.
Proof. unfold now32, u32. apply Z.mod_pos_bound. unfold M32. lia. Qed.

Lemma ff_key_range pgn src dst tp : forall slots i, i <= ff_key slots pgn src dst tp i <= i + Z.of_nat (length slots).
Proof. induction slots; intros i; simpl; [lia|]. destruct (_ && _); [lia|]. specialize (IHslots (i+1)). lia. Qed.

Lemma find_free_slot_spec ns r pgn src dst tp : SWF ns (r_slots r) ->
  let '(sl, idx) := find_free_slot r pgn src dst tp in
  SWF ns sl /\ 0 <= idx <= Z.of_nat ns /\ (Forall unready (r_slots r) -> Forall unready sl).
Proof.
  intros HS. pose proof HS as [Hl Hf]. unfold find_free_slot, nslots. cbv zeta. rewrite Hl.
  pose proof (ff_key_range pgn src dst tp (r_slots r) 0) as Hk. rewrite Hl in Hk.
  destruct (ff_key (r_slots r) pgn src dst tp 0 <? Z.of_nat ns); [split; [auto | split; [lia | auto]]|].
  pose proof (ff_scan_spec pgn src dst tp (r_slots r) 0 (Z.of_nat ns) (now32 r)) as Hs.
  destruct (ff_scan (r_slots r) pgn src dst tp 0 (Z.of_nat ns) (now32 r)) as [[i oi] ot]. rewrite Hl in Hs. destruct Hs as [H1 H2].
  destruct ((i =? Z.of_nat ns) && has_elapsed ot c_Max_N2kMsgBuf_Time (now32 r)) eqn:E.
  - apply andb_prop in E. destruct E as [E1 E2]. apply Z.eqb_eq in E1.
    destruct H2 as [[Eo Et]|H2].
    + subst ot. rewrite has_elapsed_self in E2 by apply now32_range. discriminate.
    + split; [|split; [lia|]].
      * apply SWF_zset; auto. apply free_slot_ok. eapply SWF_znth; eauto.
      * intros HQ. apply quiet_zset; auto. reflexivity.
  - split; [auto | split; [lia | auto]].
Qed.

(* releasing some slots (FreeMessage on the slots selected by c) keeps the table well formed and quiet *)
Lemma SWF_map_free ns (c:slot -> bool) l : SWF ns l -> SWF ns (map (fun s => if c s then free_slot s else s) l).
Proof.
  intros [Hl Hf]. split; [rewrite map_length; auto|]. apply Forall_forall. intros x Hx. apply in_map_iff in Hx. destruct Hx as (s & <- & Hs).
  rewrite Forall_forall in Hf. destruct (c s); [apply free_slot_ok|]; auto.
Qed.
Lemma quiet_map_free (c:slot -> bool) l : Forall unready l -> Forall unready (map (fun s => if c s then free_slot s else s) l).
Proof.
  intros Hf. apply Forall_forall. intros x Hx. apply in_map_iff in Hx. destruct Hx as (s & <- & Hs).
  rewrite Forall_forall in Hf. destruct (c s); [reflexivity | auto].
Qed.

Lemma find_tp_slot_range src dst : forall slots i, i <= find_tp_slot slots src dst i <= i + Z.of_nat (length slots).
Proof. induction slots; intros i; simpl; [lia|]. destruct (_ && _); [lia|]. specialize (IHslots (i+1)). lia. Qed.
Lemma find_cont_range pgn src dst : forall slots i, i <= find_cont slots pgn src dst i <= i + Z.of_nat (length slots).
Proof. induction slots; intros i; simpl; [lia|]. destruct (_ && _); [lia|]. specialize (IHslots (i+1)). lia. Qed.

(* ---------- node level ---------- *)
(* good device part + well-formed slots *)
Definition T (nd ns:nat) (mx:Z) (r:rnode) : Prop := G nd mx r /\ SWF ns (r_slots r).
Definition rquiet (r:rnode) : Prop := Forall unready (r_slots r).

Lemma T_nslots nd ns mx r : T nd ns mx r -> nslots r = Z.of_nat ns.
Proof. intros [_ [H _]]. unfold nslots. congruence. Qed.
Lemma Step_T nd ns mx r r' : T nd ns mx r -> Step nd mx r r' -> T nd ns mx r'.
Proof. intros [_ HS] (HG & Es & _). split; auto. rewrite Es; auto. Qed.
Lemma chk_slot_in nd ns mx r i : T nd ns mx r -> 0 <= i < Z.of_nat ns -> chk_slot r i = r.
Proof.
  intros H Hi. unfold chk_slot. rewrite (T_nslots _ _ _ _ H).
  destruct (0 <=? i) eqn:E1; destruct (i <? Z.of_nat ns) eqn:E2; simpl; auto; lia.
Qed.
Lemma with_slots_T nd ns mx r sl : T nd ns mx r -> SWF ns sl -> T nd ns mx (with_slots r sl).
Proof. intros [[[H1 H2] H3] _] HS. split; auto. split; [split|]; auto. Qed.
Lemma set_slot_eq nd ns mx r i s : T nd ns mx r -> 0 <= i < Z.of_nat ns -> set_slot r i s = with_slots r (zset (r_slots r) i s).
Proof. intros H Hi. unfold set_slot. cbv zeta. rewrite (chk_slot_in _ _ _ _ _ H Hi). reflexivity. Qed.
Lemma set_slot_T nd ns mx r i s : T nd ns mx r -> 0 <= i < Z.of_nat ns -> slot_ok s -> T nd ns mx (set_slot r i s).
Proof. intros H Hi Hs. rewrite (set_slot_eq _ _ _ _ _ _ H Hi). apply with_slots_T; auto. apply SWF_zset; auto. apply H. Qed.
Lemma T_get_slot nd ns mx r i : T nd ns mx r -> slot_ok (get_slot r i).
Proof. intros [_ H]. unfold get_slot. eapply SWF_znth; eauto. Qed.

(* what the reassembly step promises: state good, receive queue untouched, no over-long delivery, the returned index is in range,
   all other slots are not ready, and the slot at a returned index < ns is ready *)
Definition Post (nd ns:nat) (mx:Z) (r r':rnode) (ev:list event) (idx:Z) : Prop :=
  T nd ns mx r' /\ r_q r' = r_q r /\ evs_ok ev /\ 0 <= idx <= Z.of_nat ns /\ ure (r_slots r') idx /\
  (idx < Z.of_nat ns -> s_ready (get_slot r' idx) = true).

Lemma mkPost nd ns mx r r' ev idx : T nd ns mx r' -> r_q r' = r_q r -> evs_ok ev -> 0 <= idx <= Z.of_nat ns -> ure (r_slots r') idx ->
  (idx < Z.of_nat ns -> s_ready (get_slot r' idx) = true) -> Post nd ns mx r r' ev idx.
Proof. intros. split; [|split; [|split; [|split; [|split]]]]; auto. Qed.
Lemma Post_quiet nd ns mx r r' ev : T nd ns mx r' -> r_q r' = r_q r -> evs_ok ev -> rquiet r' -> Post nd ns mx r r' ev (Z.of_nat ns).
Proof. intros H1 H2 H3 H4. apply mkPost; auto; try lia. apply quiet_ure; auto. Qed.
Lemma Post_step nd ns mx r r1 r2 ev idx : Post nd ns mx r r1 [] idx -> Step nd mx r1 r2 -> evs_ok ev -> Post nd ns mx r r2 ev idx.
Proof.
  intros (H1 & H2 & _ & H4 & H5 & H6) S V. pose proof (Step_T _ _ _ _ _ H1 S) as H1'. destruct S as (_ & Es & Eq).
  apply mkPost; auto; try congruence.
  - rewrite Es; auto.
  - unfold get_slot in *. rewrite Es; auto.
Qed.
Lemma Post_refl_quiet nd ns mx r : T nd ns mx r -> rquiet r -> Post nd ns mx r r [] (Z.of_nat ns).
Proof. intros. apply Post_quiet; auto with safe. Qed.

(* writing slot i of a quiet table with a slot that is not ready: quiet again *)
Lemma set_slot_quiet nd ns mx r i s : T nd ns mx r -> 0 <= i < Z.of_nat ns -> rquiet r -> unready s -> rquiet (set_slot r i s).
Proof. intros H Hi HQ Hs. rewrite (set_slot_eq _ _ _ _ _ _ H Hi). unfold rquiet; simpl. apply quiet_zset; auto. Qed.
Lemma set_slot_q nd ns mx r i s : T nd ns mx r -> 0 <= i < Z.of_nat ns -> r_q (set_slot r i s) = r_q r.
Proof. intros H Hi. rewrite (set_slot_eq _ _ _ _ _ _ H Hi). reflexivity. Qed.
Lemma set_slot_get nd ns mx r i s : T nd ns mx r -> 0 <= i < Z.of_nat ns -> get_slot (set_slot r i s) i = s.
Proof.
  intros H Hi. rewrite (set_slot_eq _ _ _ _ _ _ H Hi). unfold get_slot; simpl. apply znth_zset_same.
  destruct H as [_ [Hl _]]. rewrite Hl. lia.
Qed.
Lemma set_slot_ure nd ns mx r i s : T nd ns mx r -> 0 <= i < Z.of_nat ns -> rquiet r -> ure (r_slots (set_slot r i s)) i.
Proof. intros H Hi HQ. rewrite (set_slot_eq _ _ _ _ _ _ H Hi). simpl. apply quiet_zset_ure; auto. lia. Qed.
(* writing a ready slot into a quiet table *)
Lemma Post_set_ready nd ns mx r0 r i s : T nd ns mx r -> r_q r = r_q r0 -> 0 <= i < Z.of_nat ns -> rquiet r -> slot_ok s -> s_ready s = true ->
  Post nd ns mx r0 (set_slot r i s) [] i.
Proof.
  intros H Eq Hi HQ Hs Hr. apply mkPost; try lia.
  - apply (set_slot_T _ _ _ _ _ _ H Hi Hs).
  - rewrite (set_slot_q _ _ _ _ _ _ H Hi); auto.
  - constructor.
  - eapply set_slot_ure; eauto.
  - intros _. rewrite (set_slot_get _ _ _ _ _ _ H Hi). auto.
Qed.
Lemma Post_set_unready nd ns mx r0 r i s : T nd ns mx r -> r_q r = r_q r0 -> 0 <= i < Z.of_nat ns -> rquiet r -> slot_ok s -> s_ready s = false ->
  Post nd ns mx r0 (set_slot r i s) [] (Z.of_nat ns).
Proof.
  intros H Eq Hi HQ Hs Hr. apply Post_quiet; auto with safe.
  - apply (set_slot_T _ _ _ _ _ _ H Hi Hs).
  - rewrite (set_slot_q _ _ _ _ _ _ H Hi); auto.
  - eapply set_slot_quiet; eauto.
Qed.

Definition PostT (nd ns:nat) (mx:Z) (r:rnode) (x:bool * rnode * list event * Z) : Prop :=
  let '(h, r', ev, idx) := x in Post nd ns mx r r' ev idx.

Ltac sproj := cbn [s_free s_ready s_known s_system s_pri s_pgn s_src s_dst s_tp s_len s_data s_last s_time s_tpmax s_tpreq length].
Lemma mk_slot_ok s : (length (s_data s) <= 223)%nat -> Forall byte_ok (s_data s) -> 0 <= s_len s <= 255 ->
  (s_ready s = true -> s_len s <= Z.of_nat (length (s_data s))) -> slot_ok s.
Proof. intros; split; [|split; [|split]]; auto. Qed.

(* ---------- TestHandleTPMessage ---------- *)
Lemma handle_tp_ok nd ns mx r pgn src dst len buf :
  T nd ns mx r -> rquiet r -> Forall byte_ok buf -> PostT nd ns mx r (handle_tp r pgn src dst len buf).
Proof.
  intros HT HQ Hb. pose proof HT as [HG HS].
  unfold handle_tp. cbv zeta. rewrite (T_nslots _ _ _ _ HT).
  pose proof (find_source_device_range nd mx r dst HG) as Hdev. set (idev := find_source_device r dst) in *.
  destruct (pgn =? c_TP_CM).
  { destruct ((byte buf 0 =? c_TP_CM_BAM) || (byte buf 0 =? c_TP_CM_RTS)).
    { (* RTS / BAM: open sessions of the same source/destination for another PGN are released first *)
      match goal with |- context [with_slots r (map ?f (r_slots r))] => set (fm := f) in * end.
      pose proof (SWF_map_free ns _ _ HS : SWF ns (map fm (r_slots r))) as HSm.
      pose proof (quiet_map_free _ _ HQ : Forall unready (map fm (r_slots r))) as HQm.
      pose proof (with_slots_T _ _ _ _ _ HT HSm) as HTm. set (rm := with_slots r (map fm (r_slots r))) in *.
      pose proof (find_free_slot_spec ns rm (le3 buf 5) src dst true HSm) as Hf.
      destruct (find_free_slot rm (le3 buf 5) src dst true) as [slots1 idx]. destruct Hf as (HS1 & Hidx & HQ1). specialize (HQ1 HQm).
      pose proof (with_slots_T _ _ _ _ _ HTm HS1) as HT1. set (r1 := with_slots rm slots1) in *.
      assert (HQr1 : rquiet r1) by exact HQ1. assert (Eq1 : r_q r1 = r_q r) by reflexivity.
      destruct (idx =? Z.of_nat ns) eqn:Ei.
      { destruct ((byte buf 0 =? c_TP_CM_RTS) && (idev >=? 0)) eqn:Ea.
        - apply andb_prop in Ea. destruct Ea as [_ Ea].
          pose proof (send_tpcm_abort_ok nd mx r1 (le3 buf 5) src idev c_TP_CM_AbortBusy (proj1 HT1) ltac:(lia)) as [S V].
          destruct (send_tpcm_abort r1 _ src idev _) as [r2 ev]. cbn [fst snd] in S, V. simpl.
          eapply Post_step; eauto. apply Post_quiet; auto with safe.
        - simpl. apply Post_quiet; auto with safe. }
      apply Z.eqb_neq in Ei. assert (Hi : 0 <= idx < Z.of_nat ns) by lia.
      destruct (check_known (n_pgn (rn r1)) (le3 buf 5)) as [[known sys] fastp].
      rewrite (chk_slot_in _ _ _ _ _ HT1 Hi).
      pose proof (T_get_slot _ _ _ _ idx HT1) as Hs0. pose proof (quiet_znth _ idx HQr1) as Hr0. fold (get_slot r1 idx) in Hr0.
      set (s0 := get_slot r1 idx) in *. destruct Hs0 as (Hs0a & Hs0b & Hs0c & Hs0d). clearbody s0.
      pose proof (byte_range buf 1 Hb) as Hb1. pose proof (byte_range buf 2 Hb) as Hb2.
      destruct ((byte buf 1 + 256 * byte buf 2 <=? c_MaxDataLen) && (known || negb (c_only_known (r_cfg r1)))) eqn:En.
      { apply andb_prop in En. destruct En as [En _]. apply Z.leb_le in En. unfold c_MaxDataLen in En.
        match goal with |- context [set_slot r1 idx ?s] => set (s2 := s) in * end.
        assert (Hs2 : slot_ok s2).
        { apply mk_slot_ok; unfold s2; sproj; auto; try lia. rewrite Hr0. discriminate. }
        assert (Hr2 : s_ready s2 = false) by (unfold s2; sproj; auto).
        pose proof (Post_set_unready nd ns mx r r1 idx s2 HT1 Eq1 Hi HQr1 Hs2 Hr2) as HP.
        destruct ((byte buf 0 =? c_TP_CM_RTS) && (idev >=? 0)) eqn:Ea.
        - apply andb_prop in Ea. destruct Ea as [_ Ea].
          pose proof (send_tpcm_cts_ok nd mx (set_slot r1 idx s2) (le3 buf 5) src idev (byte buf 3) 1 (proj1 (proj1 HP)) ltac:(lia)) as [S V].
          destruct (send_tpcm_cts (set_slot r1 idx s2) _ src idev _ 1) as [r3 ev]. cbn [fst snd] in S, V. simpl.
          eapply Post_step; eauto.
        - simpl. exact HP. }
      { match goal with |- context [set_slot r1 idx ?s] => set (s1 := s) in * end.
        assert (Hs1 : slot_ok s1).
        { apply mk_slot_ok; unfold s1; sproj; auto; try lia. }
        assert (Hr1 : s_ready s1 = false) by (unfold s1; sproj; auto).
        pose proof (Post_set_unready nd ns mx r r1 idx s1 HT1 Eq1 Hi HQr1 Hs1 Hr1) as HP.
        destruct ((byte buf 0 =? c_TP_CM_RTS) && (idev >=? 0)) eqn:Ea.
        - apply andb_prop in Ea. destruct Ea as [_ Ea].
          pose proof (send_tpcm_abort_ok nd mx (set_slot r1 idx s1) (le3 buf 5) src idev c_TP_CM_AbortBusy (proj1 (proj1 HP)) ltac:(lia)) as [S V].
          destruct (send_tpcm_abort (set_slot r1 idx s1) _ src idev _) as [r3 ev]. cbn [fst snd] in S, V. simpl.
          eapply Post_step; eauto.
        - simpl. exact HP. } }
    destruct (byte buf 0 =? c_TP_CM_CTS).
    { (* CTS for a message we are sending *)
      rewrite (G_count _ _ _ HG).
      destruct (negb ((0 <=? idev) && (idev <? Z.of_nat nd))) eqn:Er; [simpl; apply Post_refl_quiet; auto|].
      assert (Hi : 0 <= idev < Z.of_nat nd) by (apply negb_false_iff in Er; apply andb_prop in Er; lia).
      destruct (d_tp_msg (get_dev (rn r) idev)) as [pm|]; [|simpl; apply Post_refl_quiet; auto].
      destruct (m_dst pm =? 255); [simpl; apply Post_refl_quiet; auto|].
      destruct (negb (m_dst pm =? src)); [simpl; apply Post_refl_quiet; auto|].
      destruct (negb (m_pgn pm =? le3 buf 5)).
      { simpl. eapply Post_step; [apply Post_refl_quiet; eauto | apply end_send_tp_r_ok; auto | auto with safe]. }
      destruct (byte buf 1 >? 0).
      - destruct (negb (byte buf 2 - 1 =? d_next_dt_seq (get_dev (rn r) idev))).
        { simpl. eapply Post_step; [apply Post_refl_quiet; eauto | apply end_send_tp_r_ok; auto | auto with safe]. }
        destruct (send_tpdt_burst (Z.to_nat (byte buf 1)) r idev) as [[r1 ev] ok] eqn:E1.
        destruct (send_tpdt_burst_ok nd mx idev _ _ _ _ _ E1 HG Hi) as [S1 V1].
        assert (S2 : Step nd mx r (if ok then r1 else end_send_tp_r r1 idev)).
        { destruct ok; auto. eapply Step_trans; [eauto|]. apply end_send_tp_r_ok; eauto with safe. }
        set (r2 := if ok then r1 else end_send_tp_r r1 idev) in *.
        simpl. eapply Post_step; [apply Post_refl_quiet; eauto | | eauto].
        eapply Step_trans; [eauto|]. apply set_dev_tp_ok; eauto with safe.
      - simpl. eapply Post_step; [apply Post_refl_quiet; eauto | apply set_dev_tp_ok; auto | auto with safe]. }
    destruct ((byte buf 0 =? c_TP_CM_ACK) || (byte buf 0 =? c_TP_CM_Abort)); [|simpl; apply Post_refl_quiet; auto].
    rewrite (G_count _ _ _ HG).
    destruct (negb ((0 <=? idev) && (idev <? Z.of_nat nd))) eqn:Er; [simpl; apply Post_refl_quiet; auto|].
    assert (Hi : 0 <= idev < Z.of_nat nd) by (apply negb_false_iff in Er; apply andb_prop in Er; lia).
    destruct (d_tp_msg (get_dev (rn r) idev)) as [pm|]; [|simpl; apply Post_refl_quiet; auto].
    destruct ((m_dst pm =? 255) || negb (m_dst pm =? src)); [simpl; apply Post_refl_quiet; auto|].
    simpl. eapply Post_step; [apply Post_refl_quiet; eauto | apply end_send_tp_r_ok; auto | auto with safe]. }
  destruct (pgn =? c_TP_DT); [|simpl; apply Post_refl_quiet; auto].
  (* TP.DT *)
  pose proof (find_tp_slot_range src dst (r_slots r) 0) as Hr. set (idx := find_tp_slot (r_slots r) src dst 0) in *.
  destruct (idx <? Z.of_nat ns) eqn:Ei; [|simpl; apply Post_refl_quiet; auto].
  apply Z.ltb_lt in Ei. assert (Hi : 0 <= idx < Z.of_nat ns) by lia.
  rewrite (chk_slot_in _ _ _ _ _ HT Hi).
  pose proof (T_get_slot _ _ _ _ idx HT) as Hs. pose proof (quiet_znth _ idx HQ) as Hr0. fold (get_slot r idx) in Hr0.
  set (s := get_slot r idx) in *. destruct Hs as (Hsa & Hsb & Hsc & Hsd). clearbody s.
  destruct (s_last s + 1 =? byte buf 0).
  - pose proof (copy_buf_len (s_data s) 1 len buf Hsa) as Hc1. pose proof (copy_buf_bytes (s_data s) 1 len buf Hsb Hb) as Hc2.
    set (data' := copy_buf (s_data s) 1 len buf) in *.
    destruct (Z.of_nat (length data') >=? s_len s) eqn:Ec.
    + match goal with |- context [set_slot r idx ?x] => set (s2 := x) in * end.
      assert (Hs2 : slot_ok s2) by (apply mk_slot_ok; unfold s2; sproj; auto; try lia).
      assert (Hr2 : s_ready s2 = true) by reflexivity.
      pose proof (Post_set_ready nd ns mx r r idx s2 HT eq_refl Hi HQ Hs2 Hr2) as HP.
      destruct ((s_tpreq s2 >? 0) && (idev >=? 0)) eqn:Ea.
      * apply andb_prop in Ea. destruct Ea as [_ Ea].
        pose proof (send_tpcm_endack_ok nd mx (set_slot r idx s2) (s_pgn s2) src idev (s_len s2) (s_last s2) (proj1 (proj1 HP)) ltac:(lia)) as [S V].
        destruct (send_tpcm_endack (set_slot r idx s2) _ src idev _ _) as [r2 ev]. cbn [fst snd] in S, V. simpl.
        eapply Post_step; eauto.
      * simpl. exact HP.
    + match goal with |- context [set_slot r idx ?x] => set (s1 := x) in * end.
      assert (Hs1 : slot_ok s1) by (apply mk_slot_ok; unfold s1; sproj; auto; try lia; rewrite Hr0; discriminate).
      assert (Hr1 : s_ready s1 = false) by (unfold s1; sproj; auto).
      pose proof (Post_set_unready nd ns mx r r idx s1 HT eq_refl Hi HQ Hs1 Hr1) as HP.
      rewrite Hr1.
      destruct ((s_tpreq s1 >? 0) && (idev >=? 0) && (s_last s1 mod s_tpreq s1 =? 0)) eqn:Ea.
      * apply andb_prop in Ea. destruct Ea as [Ea _]. apply andb_prop in Ea. destruct Ea as [_ Ea].
        pose proof (send_tpcm_cts_ok nd mx (set_slot r idx s1) (s_pgn s1) src idev (s_tpmax s1) (s_last s1 + 1) (proj1 (proj1 HP)) ltac:(lia)) as [S V].
        destruct (send_tpcm_cts (set_slot r idx s1) _ src idev _ _) as [r2 ev]. cbn [fst snd] in S, V. simpl.
        eapply Post_step; eauto.
      * simpl. exact HP.
  - assert (X : Step nd mx r (fst (if (s_tpreq s >? 0) && (idev >=? 0) then send_tpcm_abort r (s_pgn s) src idev c_TP_CM_AbortTimeout else (r, []))) /\
                evs_ok (snd (if (s_tpreq s >? 0) && (idev >=? 0) then send_tpcm_abort r (s_pgn s) src idev c_TP_CM_AbortTimeout else (r, [])))).
    { destruct ((s_tpreq s >? 0) && (idev >=? 0)) eqn:Ea; [|cbn [fst snd]; auto with safe].
      apply andb_prop in Ea. destruct Ea as [_ Ea]. apply send_tpcm_abort_ok; auto. lia. }
    destruct (if (s_tpreq s >? 0) && (idev >=? 0) then _ else _) as [r1 ev]. destruct X as [S V]. cbn [fst snd] in S, V. simpl.
    pose proof (Step_T _ _ _ _ _ HT S) as HT1. destruct S as (_ & Es & Eq).
    assert (HQ1 : rquiet r1) by (unfold rquiet; rewrite Es; auto).
    pose proof (Post_set_unready nd ns mx r r1 idx (free_slot (get_slot r1 idx)) HT1 Eq Hi HQ1 (free_slot_ok _ (T_get_slot _ _ _ _ _ HT1)) eq_refl) as (P1 & P2 & _ & P4).
    split; auto.
Qed.
